#!/usr/bin/env python3
"""Confirm (build + 44 tests in a scratch worktree) and import behaviour-preserving edits produced by sub-agents into /verif/refactors/<prop>-<Rn>/."""
import glob, json, os, re, shutil, subprocess, sys
VERIF = os.path.dirname(os.path.dirname(os.path.abspath(__file__)))
src = "/tmp/refac"
only = [a for a in sys.argv[1:] if not a.startswith("/")]
for a in sys.argv[1:]:
    if a.startswith("/"):
        src = a
for pf in sorted(glob.glob(os.path.join(src, "C*", "out", "[RSTUVW]*.patch.diff"))):
    prop = os.path.basename(os.path.dirname(os.path.dirname(pf)))
    which = os.path.basename(pf).split(".")[0]
    sid = f"{prop}-{which}"
    if only and prop not in only and sid not in only:
        continue
    dst = os.path.join(VERIF, "refactors", sid)
    if os.path.exists(os.path.join(dst, "meta.json")):
        continue
    mf = pf.replace(".patch.diff", ".meta.json")
    meta = json.load(open(mf)) if os.path.exists(mf) else {}
    work = f"/tmp/confirm/r-{sid}"
    env = dict(os.environ, CARGO_TARGET_DIR="/tmp/confirm/target", CARGO_NET_OFFLINE="true")
    res = {}
    try:
        subprocess.run(["git", "-C", "/repo", "worktree", "remove", "--force", work], capture_output=True)
        subprocess.check_call(["git", "-C", "/repo", "worktree", "add", "-q", "--detach", work, "HEAD"])
        r = subprocess.run(["git", "apply", pf], cwd=work, capture_output=True, text=True)
        res["applies"] = r.returncode == 0
        if r.returncode == 0:
            r = subprocess.run("cargo build --workspace --offline 2>&1 | tail -3", shell=True, cwd=work, env=env, capture_output=True, text=True)
            res["build_ok"] = "error" not in r.stdout.lower()
            r = subprocess.run("cargo test --workspace --no-fail-fast --offline 2>&1 | grep -E '^test result|FAILED|failed'", shell=True, cwd=work, env=env, capture_output=True, text=True)
            res["tests_passed"] = sum(int(m) for m in re.findall(r"(\d+) passed", r.stdout))
            res["tests_failed"] = sum(int(m) for m in re.findall(r"(\d+) failed", r.stdout))
    finally:
        subprocess.run(["git", "-C", "/repo", "worktree", "remove", "--force", work], capture_output=True)
        shutil.rmtree(work, ignore_errors=True)
    ok = res.get("applies") and res.get("build_ok") and res.get("tests_passed") == 44 and res.get("tests_failed") == 0
    print(sid, "confirmed" if ok else f"REJECTED {res}", flush=True)
    if not ok:
        continue
    os.makedirs(dst, exist_ok=True)
    shutil.copy(pf, os.path.join(dst, "patch.diff"))
    json.dump({"id": sid, "property": prop, "kind": meta.get("kind"), "summary": meta.get("summary"), "why_equivalent": meta.get("why_equivalent"),
               "origin": "fresh sub-agent given only the property text and its own scratch worktree; asked for behaviour-preserving edits in the code the property is anchored in",
               "confirmed_by_me": dict(res, how="scratch worktree of /repo HEAD under /tmp/confirm (removed): git apply; cargo build --workspace --offline; cargo test --workspace --no-fail-fast --offline")},
              open(os.path.join(dst, "meta.json"), "w"), indent=1)
