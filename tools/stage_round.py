#!/usr/bin/env python3
"""development aid: stage delivered (not yet imported) sub-agent patches as <dst>/<prop>-<label>/{patch.diff,meta.json} for seed_matrix.py --base=<dst>
usage: stage_round.py /tmp/seed4 /tmp/pre4s"""
import glob, json, os, shutil, sys
src, dst = sys.argv[1], sys.argv[2]
for pf in sorted(glob.glob(os.path.join(src, "C*", "out", "*.patch.diff"))):
    prop = os.path.basename(os.path.dirname(os.path.dirname(pf)))
    lab = os.path.basename(pf).split(".")[0]
    d = os.path.join(dst, f"{prop}-{lab}")
    if os.path.exists(d):
        continue
    os.makedirs(d)
    shutil.copy(pf, os.path.join(d, "patch.diff"))
    json.dump({"property": prop}, open(os.path.join(d, "meta.json"), "w"))
    print("staged", f"{prop}-{lab}")
