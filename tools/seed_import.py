#!/usr/bin/env python3
"""Import sub-agent seeds that were confirmed (tools/confirm_seed.py) into /verif/seeded/<prop>-<X>/:
patch.diff, the demonstration, meta.json (property, what the change needs to manifest, what was run to confirm it)."""
import json, os, re, shutil, sys, glob
VERIF = os.path.dirname(os.path.dirname(os.path.abspath(__file__)))
src = sys.argv[1] if len(sys.argv) > 1 else "/tmp/seed"
for cf in sorted(glob.glob(os.path.join(src, "C*", "out", "*.confirm.json"))):
    c = json.load(open(cf))
    if not c.get("confirmed"):
        print("skip (unconfirmed)", c.get("seed"))
        continue
    out = os.path.dirname(cf)
    which = os.path.basename(cf).split(".")[0]
    prop = os.path.basename(os.path.dirname(out))
    m = json.load(open(os.path.join(out, f"{which}.meta.json")))
    d = os.path.join(VERIF, "seeded", f"{prop}-{which}")
    os.makedirs(d, exist_ok=True)
    shutil.copy(os.path.join(out, f"{which}.patch.diff"), os.path.join(d, "patch.diff"))
    place = re.sub(r"^/tmp/seed[23456]?/C\d+/wt/", "", m["demo_place"])
    demo_name = "demo.rs"
    shutil.copy(os.path.join(out, f"{which}.demo.rs"), os.path.join(d, demo_name))
    cmd = re.sub(r"export\s+CARGO_TARGET_DIR=\S+\s*", "", m["demo_cmd"])
    cmd = re.sub(r"CARGO_TARGET_DIR=\S+\s*", "", cmd)
    cmd = re.sub(r"cd\s+/tmp/seed[23456]?/C\d+/wt\s*(&&|;)\s*", "", cmd).replace("export ;", "").strip()
    if "--offline" not in cmd:
        cmd = cmd.replace("cargo run", "cargo run --offline").replace("cargo test", "cargo test --offline")
    meta = {
        "id": f"{prop}-{which}",
        "property": prop,
        "origin": "fresh sub-agent given only the property text and its own scratch worktree of /repo",
        "summary": m.get("summary"),
        "needs_to_manifest": m.get("needs_to_manifest"),
        "demonstration": {"file": demo_name, "place_in_repo": place, "cmd": cmd,
                          "expect": "exit 0 on the unchanged tree, non-zero with patch.diff applied"},
        "confirmed_by_me": {
            "how": "tools/confirm_seed.py in a scratch worktree of /repo HEAD under /tmp/confirm (removed afterwards): "
                   "copy demo into place, run it (passes); git apply patch.diff; cargo build --workspace --offline; run demo (fails); "
                   "remove demo; cargo test --workspace --no-fail-fast --offline (44 passed, 0 failed)",
            "applies": c["applies"], "build_ok": c["build_ok"],
            "demo_rc_without_change": c["demo_without_rc"], "demo_rc_with_change": c["demo_with_rc"],
            "tests_passed_with_change": c["tests_passed"], "tests_failed_with_change": c["tests_failed"],
        },
    }
    json.dump(meta, open(os.path.join(d, "meta.json"), "w"), indent=1)
    print("imported", meta["id"])
