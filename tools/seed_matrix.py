#!/usr/bin/env python3
"""Run every registered quick check against every seeded change in /verif/seeded (patch applied to /repo, checks run, patch undone),
record which checks report it in seeded/<id>/detection.json and the table in seeded/MATRIX.md.
usage: seed_matrix.py [id ...] [--own]   (--own: only the seed's own property check plus C07)"""
import glob, json, os, subprocess, sys, tempfile, time
VERIF = os.path.dirname(os.path.dirname(os.path.abspath(__file__)))
args = [a for a in sys.argv[1:] if not a.startswith("--")]
own = "--own" in sys.argv
BASE = "refactors" if "--refactors" in sys.argv else "seeded"      # refactors: behaviour-preserving edits, every check must stay silent
BASE = ([a.split("=", 1)[1] for a in sys.argv if a.startswith("--base=")] or [BASE])[0]   # --base=/abs/dir: candidates not imported yet (<id>/patch.diff, meta.json)
ids = args or sorted(os.path.basename(p) for p in glob.glob(os.path.join(VERIF, BASE, "*-*")))
props = sorted(os.path.basename(p)[:-3] for p in glob.glob(os.path.join(VERIF, "rules", "C*.py")))
only_checks = [a.split("=", 1)[1].split(",") for a in sys.argv if a.startswith("--checks=")]
PARTIAL = bool(only_checks) or own


# --repo=DIR: work on a plain copy of /repo (rsync without .git/target: same tree hash, so cached facts are shared) instead of /repo itself;
# --jobs=N: split the ids over N such copies under /tmp and run them side by side (the parent then writes the table)
REPO = ([a.split("=", 1)[1] for a in sys.argv if a.startswith("--repo=")] or ["/repo"])[0]
JOBS = int(([a.split("=", 1)[1] for a in sys.argv if a.startswith("--jobs=")] or ["0"])[0])
sys.path.insert(0, VERIF)


def clean():
    if REPO == "/repo":
        return subprocess.run(["git", "-C", "/repo", "status", "--porcelain"], capture_output=True, text=True).stdout.strip() == ""
    return subprocess.run(["diff", "-rq", "-x", ".git", "-x", "target", "/repo", REPO], capture_output=True, text=True).stdout.strip() == ""


def undo(patch):
    if REPO == "/repo":
        subprocess.check_call(["git", "-C", "/repo", "checkout", "--", "."])
    else:
        subprocess.check_call(["rsync", "-a", "--delete", "--exclude", ".git", "--exclude", "target", "/repo/", REPO + "/"])


if JOBS:
    import shutil
    assert subprocess.run(["git", "-C", "/repo", "status", "--porcelain"], capture_output=True, text=True).stdout.strip() == "", "/repo not clean"
    procs = []
    for j in range(JOBS):
        mine = ids[j::JOBS]
        if not mine:
            continue
        d = f"/tmp/mx-repo-{os.getpid()}-{j}"
        subprocess.check_call(["rsync", "-a", "--delete", "--exclude", ".git", "--exclude", "target", "/repo/", d + "/"])
        fl = [a for a in sys.argv[1:] if a.startswith("--") and not a.startswith(("--jobs=", "--repo="))]
        procs.append((d, subprocess.Popen([sys.executable, os.path.abspath(__file__), f"--repo={d}", "--notable"] + fl + mine)))
    rc = 0
    for d, pr in procs:
        rc |= pr.wait()
        shutil.rmtree(d, ignore_errors=True)
    if rc:
        sys.exit(rc)
    ids = []
assert clean(), f"{REPO} not clean"
ev = tempfile.mkdtemp(prefix="seed-evidence-")
env = dict(os.environ, VERIF_EVIDENCE_DIR=ev, VERIF_REPO=REPO)
for sid in ids:
    d = os.path.join(VERIF, BASE, sid)
    meta = json.load(open(os.path.join(d, "meta.json")))
    which = only_checks[0] if only_checks else (props if not own else sorted({meta["property"], "C07"}))
    res, t0 = {}, time.time()
    try:
        subprocess.check_call(["git", "apply", os.path.join(d, "patch.diff")], cwd=REPO)
        procs = {p: subprocess.Popen([sys.executable, os.path.join(VERIF, "verif.py"), "check", p, "--no-controls"], cwd=VERIF, env=env,
                                     stdout=subprocess.PIPE, stderr=subprocess.PIPE, text=True) for p in which[:1]}
        # first check extracts the facts; the rest run in parallel on the cached facts
        for p, pr in list(procs.items()):
            o, e = pr.communicate()
            res[p] = (pr.returncode, o, e)
        rest = {p: subprocess.Popen([sys.executable, os.path.join(VERIF, "verif.py"), "check", p, "--no-controls"], cwd=VERIF, env=env,
                                    stdout=subprocess.PIPE, stderr=subprocess.PIPE, text=True) for p in which[1:]}
        for p, pr in rest.items():
            o, e = pr.communicate()
            res[p] = (pr.returncode, o, e)
    finally:
        undo(os.path.join(d, "patch.diff"))
    assert clean(), f"{REPO} not clean after undo"
    det = {"seed": sid, "property": meta["property"], "checks_run": which, "reported_by": {}, "errors": {}}
    for p, (rc, o, e) in sorted(res.items()):
        fired = [l for l in o.splitlines() if l.startswith(("RULE", "ANCHOR"))]
        if rc == 1:
            det["reported_by"][p] = [f[:300] for f in fired[:8]]
        elif rc != 0:
            det["errors"][p] = e[-600:]
    det["caught"] = bool(det["reported_by"])
    det["caught_by_own_property_check"] = meta["property"] in det["reported_by"]
    if PARTIAL and "--merge" in sys.argv and os.path.exists(os.path.join(d, "detection.json")):
        # re-run of some checks only: replace their entries in the recorded result
        old = json.load(open(os.path.join(d, "detection.json")))
        for p_ in which:
            old["reported_by"].pop(p_, None)
            old.get("errors", {}).pop(p_, None)
        old["reported_by"].update(det["reported_by"])
        old.setdefault("errors", {}).update(det["errors"])
        old["checks_run"] = sorted(set(old.get("checks_run", [])) | set(which))
        old["caught"] = bool(old["reported_by"])
        old["caught_by_own_property_check"] = meta["property"] in old["reported_by"]
        json.dump(old, open(os.path.join(d, "detection.json"), "w"), indent=1)
    if not PARTIAL:
        json.dump(det, open(os.path.join(d, "detection.json"), "w"), indent=1)
    else:
        for p_, ls in det["reported_by"].items():
            for l in ls[:5]:
                print("     ", p_, l[:400])
    print(sid, "caught by", sorted(det["reported_by"]) or "NOTHING", ("errors " + str(sorted(det["errors"]))) if det["errors"] else "", f"{time.time()-t0:.0f}s", flush=True)
if (PARTIAL and "--merge" not in sys.argv) or "--notable" in sys.argv:
    sys.exit(0)
# table
rows = []
for p in sorted(glob.glob(os.path.join(VERIF, BASE, "*", "detection.json"))):
    dd = json.load(open(p))
    rules = sorted({l.split()[1] for ls in dd["reported_by"].values() for l in ls if l.startswith("RULE")})
    anch = sorted({l.split()[1] for ls in dd["reported_by"].values() for l in ls if l.startswith("ANCHOR")})
    rows.append(f"| {dd['seed']} | {dd['property']} | {', '.join(sorted(dd['reported_by'])) or '—'} | {', '.join(rules) or '—'} | {', '.join(anch) or '—'} |")
with open(os.path.join(VERIF, BASE, "MATRIX.md"), "w") as fh:
    fh.write(("# Behaviour-preserving edits × checks (every check must stay silent)" if BASE == "refactors" else "# Seeded changes × checks") + "\n\nGenerated by tools/seed_matrix.py (patch applied to /repo, quick checks run, patch undone).\n\n"
             "| seed | property | checks that exit 1 | rules reporting a violation | rules reporting only a lost anchor |\n|---|---|---|---|---|\n" + "\n".join(rows) + "\n")
