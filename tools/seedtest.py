#!/usr/bin/env python3
"""Run the registered checks against a seeded change: apply the patch to /repo, run the checks, undo it straight afterwards.
usage: seedtest.py <dir with X.patch.diff> <X> [Cxx ...]   (default: every property that has a rule module)"""
import glob, json, os, subprocess, sys
VERIF = os.path.dirname(os.path.dirname(os.path.abspath(__file__)))
d, which = sys.argv[1], sys.argv[2]
props = sys.argv[3:] or sorted(os.path.basename(p)[:-3] for p in glob.glob(os.path.join(VERIF, "rules", "C*.py")))
patch = os.path.join(d, f"{which}.patch.diff") if os.path.exists(os.path.join(d, f"{which}.patch.diff")) else os.path.join(d, "patch.diff")
assert subprocess.run(["git", "-C", "/repo", "status", "--porcelain"], capture_output=True, text=True).stdout.strip() == "", "/repo not clean"
res = {}
try:
    subprocess.check_call(["git", "-C", "/repo", "apply", patch])
    for p in props:
        r = subprocess.run([sys.executable, os.path.join(VERIF, "verif.py"), "check", p, "--no-controls"], cwd=VERIF, capture_output=True, text=True)
        fired = [l for l in r.stdout.splitlines() if l.startswith(("RULE", "ANCHOR"))]
        res[p] = {"rc": r.returncode, "fired": [f[:260] for f in fired[:6]]}
        if r.returncode == 2:
            res[p]["stderr"] = r.stderr[-400:]
finally:
    subprocess.check_call(["git", "-C", "/repo", "checkout", "--", "."])
    subprocess.run(["git", "-C", "/repo", "clean", "-fdq", "--", "chess-*", "tracing-enabled"], check=False)
caught = [p for p, v in res.items() if v["rc"] == 1]
print(json.dumps({"seed": f"{os.path.basename(d.rstrip('/').replace('/out',''))}/{which}", "caught_by": caught, "detail": {p: v for p, v in res.items() if v["rc"] != 0}}, indent=1))
