#!/usr/bin/env python3
"""One-time generator of ledger/C07.json from the obligation sites that the interval engine cannot discharge on the pinned tree.
The output is a committed, audited table (exact site keys); the check never writes it."""
import json, re, sys, os
sys.path.insert(0, os.path.dirname(os.path.dirname(os.path.abspath(__file__))))
from analysis import facts, obligations as O
from rules import C07

P = facts.load()
sites = O.enumerate_sites(P)
auto = C07.auto_discharge(P, sites)
RULES = [
    # (regex on site key, class, invariant / reason, checker)
    (r"All(Color|Piece|Side)Iter as .*Iterator>::(next|nth|next_back|nth_back)\|call:.*unwrap", "B", "INV-RANGE", "the private `range` is only ever 0..N (N = number of variants), so from_u8 of an element is Some"),
    (r"All(File|Rank)Iter::next_with\|", "B", "INV-RANGE", "same: range is 0..8, from_u8(<8) is Some (unwrap_unchecked precondition)"),
    (r"pos::(Pos|File|Rank)::const_from_u8\|call:core::panicking::panic", "B", "INV-CONSTFROM", "precondition arg < N holds at every call site (shift_* under edge guards, const table initialisers with i < 8)"),
    (r"AllPosIter as .*size_hint\|assert:Overflow\(Sub\)", "C", "field invariant pos <= 64: constructed 0, only writer increments after from_u8(pos)? succeeded (pos <= 63)", "allpositer_pos"),
    (r"BitBoard::pop_unchecked\|call:.*unwrap", "C", "trailing_zeros of NonZero<u64> <= 63, so from_u8 is Some; the NonZero precondition is the unsafe fn's contract (callers: INV-KING, INV-NONEMPTY)", None),
    (r"BitBoard::pop_unchecked\|unsafe:", "lifted", "unsafe fn: `self != empty` is the caller's obligation (INV-KING, INV-NONEMPTY sites)", None),
    (r"BitBoardIter as .*::nth\|unsafe:.*_pdep_u64", "C", "target_feature = bmi2 gates the body on the same feature the intrinsic needs", "bmi2_gate"),
    (r"chess_engine::transpose\|", "C", "const fn evaluated at compile time only (KNIGHT_EARLY_GAME_MAP etc.): i < 64 loop, (7-x)*8+y <= 63; a failure would be a compile error", "const_only"),
    (r"IntHasher as core::hash::Hasher>::(finish|write)\|", "B", "INV-HASHER", "C04.R5: exactly one write_u64 precedes finish; `write` is never reached"),
    (r"ThreeFold::add\|assert:Overflow\(Add\)", "assumption", "a position is not repeated 256 times between two set_board calls (u8 counter)", None),
    (r"BoardList::<'a>::add\|assert:Overflow\(Add\)", "assumption", "search-path repetition count stays below 255 (u8)", None),
    (r"Engine::search_with\|call:core::panicking::assert_failed", "B", "INV-DISPATCH", "C11.R2: search() passes the policy whose COLOR equals board.turn()"),
    (r"Engine::search_with\|assert:Overflow\(Add\)", "assumption", "iterative deepening never completes 65535 passes (u16 depth); every pass polls the timeout (C11.R4)", None),
    (r"Engine::alphabeta\|assert:Overflow\(Add\)", "assumption", "recursion depth stays below 65535 (u16 current_depth; remaining_depth is u16 and decreases)", None),
    (r"Engine::alphabeta\|unsafe:chess_movegen::Board::move_unchecked", "B", "INV-LEGAL", "the move comes from MoveGen::next of legals() of the same board the move is applied to"),
    (r"Engine::(eval|eval_endgame|score_pieces)\|assert:Overflow", "C", "material/positional sums: <= 64 squares x |i8| + counts <= 64 x 900 + king_moves <= 18*64*4 * 1000 fit i32 by orders of magnitude; moves_evaluated is u64", "engine_sums"),
    (r"chess_lookup::(rook|bishop)_moves\|", "B", "INV-MAGIC", "C08.R2: offset + 2^(64-shift) <= len(SOLUTIONS) for every entry, for all occupancies"),
    (r"chess_lookup::castle_rights_zobrist\|assert:Bounds", "B", "INV-CR16", "only caller passes CastleRights::to_index(), a value < 16"),
    (r"BookMovesIter as .*::next\|", "B", "INV-BOOK", "C17.R1: the whole table is walked with the extracted decoder: every read in range, no subtraction underflows, no unwrap fails (from the root and from EMPTY)"),
    (r"fen::parse_fen\|", "C", "loop invariant file in [0,7] at the head (file += dist <= 8, then the ..=7 | 8 | 9.. match), file - b'a' under the b'a'..=b'h' pattern, ranks.next() has 8 elements", "parse_fen_bounds"),
    (r"fen::parse_number\|assert:Overflow", "C", "at most N digits are accumulated into a u16: 10^N - 1 <= 65535", "digits_bound"),
    (r"pieces::check_mask\|call:core::panicking::assert_failed", "B", "INV-CHECKMASK", "collect_moves selects IS_IN_CHECK=true only under count()==1 and false only under none() (C01.R1)"),
    (r"pieces::check_mask\|unsafe:", "B", "INV-CHECKMASK", "pop_unchecked on checkers under IS_IN_CHECK: count()==1 was asserted"),
    (r"CastleRights::to_index\|", "B", "INV-CR16", "every CastleRights value reachable in a Board has bits only below 16 (with/without/empty/full/remove_for_sq; `not` is used in const initialisers only)"),
    (r"King::king_legals\|call:core::panicking::assert_failed", "C", "debug_assert_eq!(no_check_sq.count(), 2): *_SAFE_FILES & BACKRANK_BB[c] has exactly 2 squares for the 4 constant combinations", "safe_files_two"),
    (r"King::king_legals\|unsafe:|PieceType::legals\|unsafe:|Pawn as .*PieceType>::legals\|unsafe:", "B", "INV-CAP", "capacity 18 >= 16 accepted pieces + 2 en-passant entries; one push per own piece / king / <= 2 en-passant capturers"),
    (r"perft_test\|", "X", "test helper, not a safe entry point of the property (perft_test(0) underflows: noted, not claimed)", None),
    (r"MoveGen::(is_empty|len)\|call:core::slice::index", "B", "INV-IDX", "index <= moves.len(): index is reset to 0 or incremented only under index < len, and the list never shrinks"),
    (r"MoveGen::len\|assert:Overflow\(Add\)", "C", "<= 18 entries x <= 64 destinations x 4 promotion pieces", None),
    (r"MoveGen::remove_move\|assert:Bounds", "B", "INV-IDX", "x ranges over 0..moves.len()"),
    (r"MoveGen::set_mask\|", "B", "INV-PTR", "i runs from base to base+len with step 1; j <= i; all derefs inside the loop under i < end"),
    (r"MoveGen as .*Iterator>::next\|assert:Bounds", "B", "INV-IDX", "guarded by index >= len -> return"),
    (r"MoveGen as .*Iterator>::next\|call:core::slice::index", "C", "full-range slice `[..]` cannot fail", None),
    (r"MoveGen as .*Iterator>::next\|call:.*unwrap", "B", "INV-PROMO", "promotions is PROMOTION_PIECES.iter() (4 items) and is reset as soon as it is exhausted"),
    (r"MoveGen as .*Iterator>::next\|assert:Overflow\(Add\)", "C", "index < len <= 18", None),
    (r"MoveGen as .*Iterator>::next\|unsafe:", "B", "INV-NONEMPTY", "pop_unchecked on `legal.moves & mask`, tested non-empty just before"),
    (r"RawBoard::piece_of_unchecked\|", "B", "INV-PARTITION", "colour sets and piece sets cover the same squares (every mutation updates one of each with the same squares: C04.R2)"),
    (r"RawBoard::(piece_of|get)\|unsafe:", "B", "INV-PARTITION", "guarded by color_of(pos)? being Some"),
    (r"Board::king_sq\|unsafe:", "B", "INV-KING", "exactly one king per colour: established by validate (C06.R2/R3), standard() (C05.R7), preserved by legal moves (the side not to move is never in check)"),
    (r"Board::move_(into|mut|new)\|unsafe:", "B", "INV-LEGAL", "C02.R6: called only under is_legal(mv) of the same board"),
    (r"Board::move_unchecked(_mut)?\|unsafe:", "lifted", "unsafe fn forwarding to move_unchecked_into: the caller's obligation", None),
    (r"Board::move_unchecked_into\|unsafe:", "lifted", "unsafe fn contract: a piece of the mover stands on mv.source", None),
    (r"Board::move_unchecked_into\|call:core::panicking::assert_failed", "lifted", "debug_assert_eq!(dest.rank(), PROMOTION_RANK): contract 'promotion only on the last rank' (legal moves: promotion flag only from the 7th rank, C01.R2)", None),
    (r"Board as core::fmt::(Display|Debug)>::fmt\|assert:Overflow|RawBoard as core::fmt::Debug>::fmt\|assert:Overflow", "C", "run counter <= 8 per rank (reset at rank end), file + b'a' <= 104, rank + 1 <= 8", None),
    (r"chess_api::ChessApi::new\|call:core::panicking::assert_failed", "C", "documented panic of ChessApi::new for non-zero-sized closures; the only caller passes a capture-less closure", "zst_closure"),
    (r"ChessApi::new::new_engine_mk\|unsafe:", "C", "reads a ZST from a dangling aligned pointer; guarded by the size_of_val == 0 assert in the enclosing fn", None),
    (r"_ROOT_MOD_STATICS\|unsafe:|_1as_0lib_1header|root_bmodule", "X", "abi_stable macro expansion (third-party generated)", None),
    (r"tracing_enabled::", "X", "no unchecked operation of the property's entry points", None),
]
entries, unmatched = [], []
for s in sites:
    if s["key"] in auto:
        continue
    for rx, cls, inv, why in RULES:
        if re.search(rx, s["key"]):
            e = {"key": s["key"], "class": cls}
            if cls == "B":
                e["inv"], e["reason"] = inv, why
            elif cls == "C":
                e["reason"] = inv
                if why:
                    e["check"] = why
            else:
                e["reason"] = inv
            entries.append(e)
            break
    else:
        unmatched.append(s["key"])
json.dump({"_comment": "Audited obligation ledger for C07 (exact site keys: fn|kind:what#ordinal). class B = named invariant with its own structural rule (checked on every run); "
           "C = audited reason, optionally with a parameter checker; assumption = stated environmental assumption; lifted = obligation of an unsafe fn's callers; X = out of the property's scope.",
           "entries": entries}, open(os.path.join(os.path.dirname(__file__), "..", "ledger", "C07.json"), "w"), indent=1)
print(len(entries), "ledger entries;", len(auto), "automatic;", len(unmatched), "unmatched")
for u in unmatched:
    print("UNMATCHED", u)
