#!/usr/bin/env python3-vt
import json, sys, glob, jsonschema
jsonschema.validate(json.load(open('/verif/MANIFEST.json')), json.load(open('/root/.vp/MANIFEST.schema.json')))
s = json.load(open('/root/.vp/EVIDENCE.schema.json'))
for f in sorted(glob.glob('/verif/evidence/C*.json')):
    jsonschema.validate(json.load(open(f)), s)
print('manifest + evidence valid')
