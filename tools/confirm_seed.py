#!/usr/bin/env python3
"""Independently confirm a seeded change produced by a sub-agent (run in a scratch worktree outside /repo and /verif):
 (1) patch applies on /repo HEAD, (2) workspace builds, (3) the 44 baseline tests pass with the change,
 (4) the demonstration fails with the change and (5) passes without it.
 usage: confirm_seed.py /tmp/seed/C04 A   -> writes /tmp/seed/C04/out/A.confirm.json"""
import json, os, re, shutil, subprocess, sys, time

seed_dir, which = sys.argv[1], sys.argv[2]
out = os.path.join(seed_dir, "out")
meta = json.load(open(os.path.join(out, f"{which}.meta.json")))
pid = os.path.basename(seed_dir.rstrip("/"))
work = f"/tmp/confirm/{pid}{which}"
target = "/tmp/confirm/target"
os.makedirs("/tmp/confirm", exist_ok=True)
res = {"seed": f"{pid}/{which}", "started": time.strftime("%H:%M:%S")}


def sh(cmd, cwd, timeout=1800):
    env = dict(os.environ, CARGO_TARGET_DIR=target, CARGO_NET_OFFLINE="true")
    r = subprocess.run(cmd, shell=True, cwd=cwd, env=env, stdout=subprocess.PIPE, stderr=subprocess.STDOUT, text=True, timeout=timeout)
    return r.returncode, r.stdout


try:
    if os.path.isdir(work):
        subprocess.run(["git", "-C", "/repo", "worktree", "remove", "--force", work])
        shutil.rmtree(work, ignore_errors=True)
    subprocess.check_call(["git", "-C", "/repo", "worktree", "add", "-q", "--detach", work, "HEAD"])
    patch = os.path.join(out, f"{which}.patch.diff")
    demo_src = os.path.join(out, f"{which}.demo.rs")
    place = meta["demo_place"]
    place = re.sub(r"^/tmp/seed[23456]?/C\d+/wt/", "", place)
    cmd = meta["demo_cmd"]
    cmd = re.sub(r"export\s+CARGO_TARGET_DIR=\S+\s*", "", cmd)
    cmd = re.sub(r"CARGO_TARGET_DIR=\S+\s*", "", cmd)
    cmd = re.sub(r"cd\s+/tmp/seed[23456]?/C\d+/wt\s*(&&|;)\s*", "", cmd)
    cmd = cmd.replace("export ;", "").strip()
    if "--offline" not in cmd:
        cmd = cmd.replace("cargo run", "cargo run --offline").replace("cargo test", "cargo test --offline")
    dst = os.path.join(work, place)
    os.makedirs(os.path.dirname(dst), exist_ok=True)
    shutil.copy(demo_src, dst)
    # without the change: demo passes
    rc, o = sh(cmd, work)
    res["demo_without_rc"] = rc
    res["demo_passes_without_change"] = rc == 0
    if rc != 0:
        res["demo_without_tail"] = o[-1500:]
    # apply
    rc, o = sh(f"git apply {patch}", work)
    res["applies"] = rc == 0
    if rc != 0:
        res["apply_err"] = o[-800:]
        raise SystemExit
    rc, o = sh("cargo build --workspace --offline 2>&1 | tail -5", work)
    res["build_ok"] = rc == 0 and "error" not in o.lower().split("warning")[0]
    rc, o = sh(cmd, work)
    res["demo_with_rc"] = rc
    res["demo_fails_with_change"] = rc != 0
    res["demo_with_tail"] = o[-600:]
    os.remove(dst)
    rc, o = sh("cargo test --workspace --no-fail-fast --offline 2>&1 | grep -E '^test result|FAILED|failed' ", work)
    passed = sum(int(m) for m in re.findall(r"(\d+) passed", o))
    failed = sum(int(m) for m in re.findall(r"(\d+) failed", o))
    res["tests_passed"], res["tests_failed"] = passed, failed
    res["tests_44_pass_with_change"] = passed == 44 and failed == 0
    res["confirmed"] = bool(res.get("applies") and res.get("build_ok") and res.get("tests_44_pass_with_change")
                            and res.get("demo_fails_with_change") and res.get("demo_passes_without_change"))
except SystemExit:
    res.setdefault("confirmed", False)
except Exception as e:
    res["error"] = repr(e)
    res["confirmed"] = False
finally:
    subprocess.run(["git", "-C", "/repo", "worktree", "remove", "--force", work], stdout=subprocess.DEVNULL, stderr=subprocess.DEVNULL)
    shutil.rmtree(work, ignore_errors=True)
    res["finished"] = time.strftime("%H:%M:%S")
    json.dump(res, open(os.path.join(out, f"{which}.confirm.json"), "w"), indent=1)
    print(json.dumps({k: v for k, v in res.items() if not k.endswith("tail")}))
