#!/bin/bash
# confirm every delivered seed that has no confirm.json yet (sequential; shared target dir)
for d in /tmp/seed/C*; do
  for w in A B; do
    if [ -f $d/out/$w.meta.json ] && [ ! -f $d/out/$w.confirm.json ]; then
      python3 /verif/tools/confirm_seed.py $d $w
    fi
  done
done
