#!/bin/bash
# confirm every delivered seed that has no confirm.json yet (sequential; shared target dir); usage: confirm_all.sh [/tmp/seed4] [labels...]
ROOT=${1:-/tmp/seed}; shift
LABELS=${@:-A B C D E F G H}
for d in $ROOT/C*; do
  for w in $LABELS; do
    if [ -f $d/out/$w.meta.json ] && [ -f $d/out/$w.patch.diff ] && [ ! -f $d/out/$w.confirm.json ]; then
      python3 /verif/tools/confirm_seed.py $d $w
    fi
  done
done
