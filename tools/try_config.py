#!/usr/bin/env python3
"""Run every rule module against another build configuration (development aid for the thorough tier)."""
import sys, os, glob, importlib, time
sys.path.insert(0, os.path.dirname(os.path.dirname(os.path.abspath(__file__))))
from analysis import facts, runner
cfg = sys.argv[1]
mods = sys.argv[2:] or sorted(os.path.basename(p)[:-3] for p in glob.glob(os.path.join(os.path.dirname(__file__), "..", "rules", "C*.py")))
P = facts.load(cfg)
for m in mods:
    importlib.import_module(f"rules.{m}")
    c = runner.Ctx(m, "thorough", config=cfg)
    c.P = P
    t0 = time.time()
    for fn in runner._RULES.get(m, []):
        try:
            runner.run_rule(c, fn)
        except Exception as e:
            print(m, fn.rule_id, "CRASH", repr(e)[:200])
    print(m, cfg, f"{c.discharged}/{c.obligations}", "violations:", len(c.violations), f"{time.time()-t0:.1f}s")
    for v in c.violations[:4]:
        print("    ", v.kind, v.rule, v.key[:80], "|", v.what[:160])
