#!/bin/bash
# development aid: run a command against a scratch copy of /repo with a patch applied (VERIF_REPO points the checks at it); /repo stays untouched
# usage: tools/with_patch.sh <patch.diff> <command ...>
set -e
P=$(readlink -f "$1"); shift
D=$(mktemp -d /tmp/scr-repo-XXXXXX)
trap 'rm -rf "$D"' EXIT
rsync -a --exclude .git --exclude target /repo/ "$D"/
(cd "$D" && git apply "$P")
VERIF_REPO="$D" VERIF_EVIDENCE_DIR="$D/.evidence" "$@"
