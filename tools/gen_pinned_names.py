#!/usr/bin/env python3
"""Record the private names of the pinned tree (struct fields, statics/consts, non-pub functions) with what identifies them independently of the
name (type, accessor, signature, parent path).  analysis/facts.py uses the table to give renamed private items their pinned names back, so that
no rule depends on what a private field, static or helper happens to be called.  Run on the pinned tree: python3 tools/gen_pinned_names.py"""
import json, os, sys
sys.path.insert(0, os.path.dirname(os.path.dirname(os.path.abspath(__file__))))
os.environ["VERIF_NO_CANON"] = "1"
from analysis import facts
WS = ("chess_bitboard", "chess_lookup", "chess_movegen", "chess_engine", "chess_api", "chess_bot", "tracing_enabled", "chess_cli-bin", "chess_wasm")
P = facts.load("ws")


def accessor_of(adt, fname):
    hits = []
    for k, b in P.fns.items():
        if not k.startswith(adt + "::") or "::{" in k or b.get("argc") != 1 or len(b["blocks"]) > 3:
            continue
        names = set()
        for blk in b["blocks"]:
            for s in blk["s"]:
                for pl in facts.walk_places(s):
                    for e in pl["pj"]:
                        if isinstance(e, dict) and e.get("a") == adt:
                            names.add(e.get("n"))
        if names == {fname}:
            hits.append(k)
    pref = [h for h in hits if h.endswith("::" + fname)]
    return (pref or sorted(hits) or [None])[0]


out = {"adts": {}, "values": {}, "fns": {}}
for k, a in sorted(P.adts.items()):
    if a["crate"] not in WS or a["kind"] != "struct":
        continue
    fs = a["variants"][0]["fields"]
    if all(f["vis"] == "pub" for f in fs) or not fs or fs[0]["name"].isdigit():
        continue
    out["adts"][k] = [{"name": f["name"], "ty": f["ty"], "vis": f["vis"], "accessor": accessor_of(k, f["name"])} for f in fs]
for k, v in sorted(P.values.items()):
    if v["crate"] in WS and "::{" not in k and "promoted[" not in k:
        out["values"][k] = {"kind": v.get("kind"), "ty": v.get("ty"), "vis": v.get("vis")}
for k, b in sorted(P.fns.items()):
    if b["crate"] in WS and "::{" not in k and "promoted[" not in k and b.get("kind") in ("fn", "assoc_fn", "AssocFn", "Fn", None) and not b.get("derived"):
        out["fns"][k] = {"vis": b.get("vis"), "sig": [b["locals"][i]["ty"] for i in range(b.get("argc", 0) + 1)], "unsafe": bool(b.get("unsafe")), "const": bool(b.get("is_const"))}
json.dump(out, open(os.path.join(os.path.dirname(os.path.dirname(os.path.abspath(__file__))), "pinned_names.json"), "w"), indent=0, sort_keys=True)
print({k: len(v) for k, v in out.items()})
