#!/bin/bash
# run every registered quick check; print one line each
cd /verif
for f in rules/C*.py; do p=$(basename $f .py); python3 verif.py check $p "$@" 2>&1 | tail -1 | cut -c1-220; done
