#!/usr/bin/env python3
"""Regenerate the machine-derived part of DESIGN.md (section 8.5-8.7: rules as built, seed matrix, refactor corpus)."""
import glob, importlib, json, os, sys
VERIF = os.path.dirname(os.path.dirname(os.path.abspath(__file__)))
sys.path.insert(0, VERIF)
from analysis import runner
out = []
out.append("### 8.5 Rules as built (generated from the rule modules by tools/gen_asbuilt.py)\n")
for f in sorted(glob.glob(os.path.join(VERIF, "rules", "C*.py"))):
    m = os.path.basename(f)[:-3]
    mod = importlib.import_module(f"rules.{m}")
    out.append(f"**{m}** — level `{mod.LEVEL}`; thorough configurations: {', '.join(['ws'] + list(getattr(mod, 'THOROUGH_CONFIGS', [])))}\n")
    for fn in runner._RULES.get(m, []):
        out.append(f"* `{fn.rule_id}` {fn.title}" + (" *(thorough tier only)*" if getattr(fn, "thorough_only", False) else ""))
    out.append("")
    out.append(f"*Decides:* {mod.DECIDED}\n")
    out.append(f"*Does not decide:* {mod.NOT_DECIDED}\n")
    cs = getattr(mod, "CONTROLS", [])
    if cs:
        out.append("*Perturbation controls (every run):* " + "; ".join(f"{c[0]} → {c[1]}" for c in cs) + "\n")
out.append("### 8.6 Seeded changes and which checks report them (generated from seeded/*/detection.json)\n")
out.append("| seed | property | what the change needs to manifest | checks that report it | own | rules |")
out.append("|---|---|---|---|---|---|")
for d in sorted(glob.glob(os.path.join(VERIF, "seeded", "*", "meta.json"))):
    meta = json.load(open(d))
    det_f = os.path.join(os.path.dirname(d), "detection.json")
    det = json.load(open(det_f)) if os.path.exists(det_f) else {"reported_by": {}}
    rules = sorted({l.split()[1] for ls in det["reported_by"].values() for l in ls if l.split()[0] in ("RULE", "ANCHOR")})
    need = (meta.get("needs_to_manifest") or "").replace("|", "/").replace("\n", " ")
    out.append(f"| {meta['id']} | {meta['property']} | {need[:150]}{'…' if len(need) > 150 else ''} | {', '.join(sorted(det['reported_by'])) or '**none**'} | {'yes' if meta['property'] in det['reported_by'] else ('—' if not det['reported_by'] else 'no')} | {', '.join(rules[:8]) or '—'} |")
out.append("")
out.append("### 8.7 Behaviour-preserving edits (generated from refactors/*/detection.json): every check must stay silent\n")
rows, loud = [], []
for d in sorted(glob.glob(os.path.join(VERIF, "refactors", "*", "meta.json"))):
    meta = json.load(open(d))
    det_f = os.path.join(os.path.dirname(d), "detection.json")
    det = json.load(open(det_f)) if os.path.exists(det_f) else None
    s = (meta.get("summary") or "").replace("|", "/").replace("\n", " ")
    verdict = "not run" if det is None else ("silent" if not det["reported_by"] and not det.get("errors") else "ALARM: " + ", ".join(sorted(det["reported_by"]) + sorted(det.get("errors", {}))))
    rows.append(f"| {meta['id']} | {meta.get('kind')} | {s[:140]}{'…' if len(s) > 140 else ''} | {verdict} |")
out.append("| edit | kind | what was changed | all 20 quick checks |")
out.append("|---|---|---|---|")
out += rows
text = "\n".join(out) + "\n"
p = os.path.join(VERIF, "DESIGN.md")
t = open(p).read()
B, E = "<!-- BEGIN GENERATED AS-BUILT -->", "<!-- END GENERATED AS-BUILT -->"
if B in t:
    t = t[:t.index(B) + len(B)] + "\n" + text + t[t.index(E):]
else:
    t = t.rstrip("\n") + "\n\n" + B + "\n" + text + E + "\n"
open(p, "w").write(t)
print("DESIGN.md updated:", len(text.splitlines()), "generated lines")
