#!/usr/bin/env python3
"""Regenerate MANIFEST.json from the rule modules' metadata (keeps the manifest and the checks in sync)."""
import importlib, json, os, sys
VERIF = os.path.dirname(os.path.dirname(os.path.abspath(__file__)))
sys.path.insert(0, VERIF)

PROPS = [json.loads(l) for l in open(os.path.join(VERIF, "properties.jsonl"))]
NA_REASONS = {}
na_path = os.path.join(VERIF, "ledger", "not_applicable.json")
if os.path.exists(na_path):
    NA_REASONS = json.load(open(na_path))

checks, na = [], []
for p in PROPS:
    pid = p["id"]
    try:
        mod = importlib.import_module(f"rules.{pid}")
    except ModuleNotFoundError:
        na.append({"property_id": pid, "reason": NA_REASONS.get(pid, "no static rule armed yet for this property (check under construction)")})
        continue
    if pid in NA_REASONS:
        na.append({"property_id": pid, "reason": NA_REASONS[pid]})
        continue
    checks.append({
        "property_id": pid,
        "quick_cmd": f"python3 verif.py check {pid} --tier quick",
        "thorough_cmd": f"python3 verif.py check {pid} --tier thorough",
        "evidence_file": f"/verif/evidence/{pid}.json",
        "replay_cmd_template": "python3 verif.py explain {path}",
        "engine": "chessfacts+rules",
        "level_claimed": {
            "category": getattr(mod, "LEVEL", "other"),
            "text": getattr(mod, "LEVEL_TEXT", getattr(mod, "DECIDED", "")),
            "design_ref": f"DESIGN.md section 3 ({pid}: plan) and section 8.5 ({pid}: rules as built)",
        },
        "level_note": getattr(mod, "LEVEL_NOTE", "Decided: " + getattr(mod, "DECIDED", "") + " Not decided: " + getattr(mod, "NOT_DECIDED", "")
                              + " Trusted base: rustc nightly front end/MIR builder/const evaluator, the chessfacts serialiser, the Python rule engine and its reference definitions."),
        "technique": getattr(mod, "TECHNIQUE", "static analysis (custom rustc_private driver extracting MIR, layouts and constant values from /repo on every run; repository-specific rules over "
                             "them: term summaries, CFG/call-graph rules, intervals, evaluation of extracted summaries over finite domains; nothing of /repo is executed). " + getattr(mod, "EXPLANATION", "")[:600]),
    })

manifest = {
    "version": 1,
    "setup_cmd": "cd /verif/driver && CARGO_NET_OFFLINE=true cargo build --release --offline && cd /verif && python3 analysis/extract.py ws",
    "hooks": {
        "guard": "rustyyato_chess_verif",
        "enable": "no hooks are needed: the rustc_private driver reads private items directly; checks analyse /repo's working tree as it is (no cfg flag is set)",
        "baseline_off_cmd": "cd /repo && cargo test --workspace --no-fail-fast --offline",
        "source_commits": [],
        "add_only": True,
    },
    "engines": [
        {"name": "chessfacts", "path": "/verif/driver", "serves_properties": [c["property_id"] for c in checks],
         "kind_free_text": "rustc_private driver injected with RUSTC_WORKSPACE_WRAPPER under `cargo +nightly check`: serialises MIR (opt-level 0), ADT layouts, const-evaluated statics/consts, HIR unsafe blocks"},
        {"name": "rules", "path": "/verif/analysis + /verif/rules", "serves_properties": [c["property_id"] for c in checks],
         "kind_free_text": "Python rule engine: constant-data rules (K1), CFG/call-graph rules (K2), dependence signatures (K3), decision-table extraction (K4), intervals (K5), type-level facts (K6); perturbation controls on every run"},
    ],
    "checks": checks,
    "not_applicable": na,
    "notes": "Static analysis only: every check inspects the type-checked program rustc builds from /repo's working tree; no repository function is executed. "
             "Fix commits in /repo (unguarded, 'fix:' prefix) are listed in known_findings.json with status 'fixed'. Exit 2 from a check means the checker itself is broken (driver failure or silent perturbation control).",
}
with open(os.path.join(VERIF, "MANIFEST.json"), "w") as fh:
    json.dump(manifest, fh, indent=1)
print(f"{len(checks)} checks, {len(na)} not applicable")
