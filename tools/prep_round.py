#!/usr/bin/env python3
"""Prepare a round of sub-agent tasks (development aid): for each property a scratch worktree of /repo HEAD plus a prompt file under
/tmp/seed4/<Cxx>/ (two breaking changes G, H) and /tmp/refac4/<Cxx>/ (two behaviour-preserving edits U1, U2).  The prompts are the
round-3 prompts (kept under /tmp/seed3, /tmp/refac3 by that round) with new labels and a new emphasis paragraph; nothing from /verif is given."""
import os, re, subprocess, sys
SEED_EMPH = ("This is a FOURTH round: single-line slips at the anchored functions, cooperating edits, stale state, configuration-only changes, near-equivalences and new fast paths "
             "in the anchored functions themselves were already tried. Now attack what the property depends on INDIRECTLY: (a) helpers in the other crates that the anchored code "
             "calls (bit-set operators and iterators, square/rank/file conversions and arithmetic, lookup accessors, the castle-rights table, hashing keys, Display/FromStr impls, "
             "trait impls such as PartialEq/Hash/Ord/Default/Iterator::size_hint/nth/fold/DoubleEnded, From/Into conversions) - a slip there that only some inputs of THIS property "
             "expose; (b) the callers/consumers of the anchored code (how the engine, bot plugin, CLI or WASM front-end uses the result: an argument passed in the wrong order, "
             "a result ignored, state saved/restored around a call); (c) constants, statics and type definitions the code reads (a discriminant order, a repr, an array length, a mask), "
             "where one reader silently depends on it; (d) something that looks like a pure refactor (extracting a helper, turning a loop into iterator adaptors, replacing a match by "
             "a table lookup, merging two similar functions) but drops or alters one case. Larger diffs (up to ~40 lines) are fine if the change looks like a real refactor. "
             "Do not modify tests, Cargo manifests, or anything outside the crates' src directories. Do not add new dependencies.")
REFAC_EMPH = ("Make U1 a restructuring that crosses a function boundary: move a few lines between a caller and its private helper, change a PRIVATE helper's signature (take a value "
              "instead of a reference, return a tuple/Option instead of writing through &mut, add or drop a parameter that was always the same) and adapt all callers, split one function "
              "into two private ones or merge two, replace a `match` by a lookup in a private const table (or back), turn an explicit loop into iterator adaptors such as "
              "filter/map/any/all/fold/for_each (or back). Make U2 a clean-up of private data: rename a private field or local type, introduce a type alias or a named constant for a "
              "literal, reorder fields of a struct that has no #[repr] and whose layout nobody relies on, reorder `impl` items or match arms that do not overlap, change a private `const` "
              "into a `const fn` (or back), replace `as` casts by `From`/`into` where lossless, use `Self`, derive instead of a hand-written trivially-equal impl ONLY if exactly "
              "equivalent. Touch a function other than the single most prominent one if the property has several anchors.")
for p in range(1, 21):
    pid = f"C{p:02d}"
    for kind, src, dst, emph in (("seed", "/tmp/seed3", "/tmp/seed4", SEED_EMPH), ("refac", "/tmp/refac3", "/tmp/refac4", REFAC_EMPH)):
        t = open(f"{src}/{pid}/prompt.txt").read().replace(src + "/", dst + "/")
        if kind == "seed":
            t = t.replace("(E and F)", "(G and H)").replace("E and F should", "G and H should").replace("{E, F}", "{G, H}")
            t, n = re.subn(r"This is a THIRD round:.*?Do not add new dependencies\.", lambda m: emph, t, flags=re.S)
        else:
            t = t.replace("(T1, T2)", "(U1, U2)").replace("{T1, T2}", "{U1, U2}")
            t, n = re.subn(r"Make T1 the kind of clean-up.*?has several anchors\.", lambda m: emph, t, flags=re.S)
        assert n == 1, (pid, kind, n)
        d = f"{dst}/{pid}"
        os.makedirs(d + "/out", exist_ok=True)
        open(d + "/prompt.txt", "w").write(t)
        if os.path.exists(f"{src}/{pid}/property.txt"):
            open(d + "/property.txt", "w").write(open(f"{src}/{pid}/property.txt").read())
        if not os.path.isdir(d + "/wt"):
            subprocess.check_call(["git", "-C", "/repo", "worktree", "add", "-q", "--detach", d + "/wt", "HEAD"])
print("prepared")
