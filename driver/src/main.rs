// chessfacts: rustc_private driver that serialises the type-checked program
// (MIR at opt-level 0, ADT layouts, const-evaluated static/const values, HIR
// unsafe blocks) of each workspace crate into one JSON document.
// It runs no repository function: the only evaluation requested from the
// compiler is of items the repository itself declares `static`/`const`.
#![feature(rustc_private)]
extern crate rustc_abi;
extern crate rustc_driver;
extern crate rustc_hir;
extern crate rustc_interface;
extern crate rustc_middle;
extern crate rustc_span;

use rustc_driver::Compilation;
use rustc_hir::def::DefKind;
use rustc_hir::def_id::{DefId, LocalDefId, LOCAL_CRATE};
use rustc_middle::mir::{self, Operand, Place, Rvalue, StatementKind, TerminatorKind};
use rustc_middle::ty::print::{with_crate_prefix, with_no_trimmed_paths, with_no_visible_paths};
use rustc_middle::ty::{self, Ty, TyCtxt};
use rustc_span::Span;
use std::fmt::Write as _;

// ---------------------------------------------------------------- JSON
#[derive(Clone)]
enum J {
    Null,
    B(bool),
    N(String),
    S(String),
    A(Vec<J>),
    O(Vec<(String, J)>),
}
fn s<T: Into<String>>(x: T) -> J {
    J::S(x.into())
}
fn n<T: std::fmt::Display>(x: T) -> J {
    J::N(format!("{x}"))
}
macro_rules! obj {
    ($($k:expr => $v:expr),* $(,)?) => { J::O(vec![$(($k.to_string(), $v)),*]) };
}
impl J {
    fn write(&self, out: &mut String) {
        match self {
            J::Null => out.push_str("null"),
            J::B(b) => out.push_str(if *b { "true" } else { "false" }),
            J::N(x) => out.push_str(x),
            J::S(x) => {
                out.push('"');
                for c in x.chars() {
                    match c {
                        '"' => out.push_str("\\\""),
                        '\\' => out.push_str("\\\\"),
                        '\n' => out.push_str("\\n"),
                        '\r' => out.push_str("\\r"),
                        '\t' => out.push_str("\\t"),
                        c if (c as u32) < 0x20 => {
                            let _ = write!(out, "\\u{:04x}", c as u32);
                        }
                        c => out.push(c),
                    }
                }
                out.push('"');
            }
            J::A(v) => {
                out.push('[');
                for (i, x) in v.iter().enumerate() {
                    if i > 0 {
                        out.push(',');
                    }
                    x.write(out);
                }
                out.push(']');
            }
            J::O(v) => {
                out.push('{');
                for (i, (k, x)) in v.iter().enumerate() {
                    if i > 0 {
                        out.push(',');
                    }
                    J::S(k.clone()).write(out);
                    out.push(':');
                    x.write(out);
                }
                out.push('}');
            }
        }
    }
    fn push(&mut self, k: &str, v: J) {
        if let J::O(o) = self {
            o.push((k.to_string(), v));
        }
    }
}

fn hex(bytes: &[u8]) -> String {
    let mut o = String::with_capacity(bytes.len() * 2);
    for b in bytes {
        let _ = write!(o, "{b:02x}");
    }
    o
}

// ---------------------------------------------------------------- context
struct Cx<'tcx> {
    tcx: TyCtxt<'tcx>,
    krate: String,
}

impl<'tcx> Cx<'tcx> {
    fn canon(&self, raw: String) -> String {
        raw.replace("crate::", &format!("{}::", self.krate))
    }
    fn pp<F: FnOnce() -> String>(&self, f: F) -> String {
        let raw = with_no_visible_paths!(with_crate_prefix!(with_no_trimmed_paths!(f())));
        self.canon(raw)
    }
    fn key(&self, did: DefId) -> String {
        let tcx = self.tcx;
        let p = self.pp(|| tcx.def_path_str(did));
        if did.is_local() && !p.starts_with('<') && !p.starts_with(&format!("{}::", self.krate)) {
            format!("{}::{}", self.krate, p)
        } else {
            p
        }
    }
    fn key_args(&self, did: DefId, args: ty::GenericArgsRef<'tcx>) -> String {
        let tcx = self.tcx;
        self.pp(|| tcx.def_path_str_with_args(did, args))
    }
    fn ty_s(&self, ty: Ty<'tcx>) -> String {
        self.pp(|| format!("{ty}"))
    }
    fn span_s(&self, sp: Span) -> String {
        let sp = sp.source_callsite();
        let full = self.tcx.sess.source_map().span_to_diagnostic_string(sp);
        // "file:line:col: line:col"
        match full.find(": ") {
            Some(i) => full[..i].to_string(),
            None => full,
        }
    }
    fn span_j(&self, j: &mut J, sp: Span) {
        j.push("sp", s(self.span_s(sp)));
        if sp.from_expansion() {
            j.push("exp", J::B(true));
        }
    }

    // structured type, bounded depth
    fn ty_j(&self, ty: Ty<'tcx>, depth: u32) -> J {
        if depth == 0 {
            return obj! {"k" => s("deep"), "s" => s(self.ty_s(ty))};
        }
        match ty.kind() {
            ty::Bool => obj! {"k"=>s("bool")},
            ty::Char => obj! {"k"=>s("char")},
            ty::Int(i) => {
                obj! {"k"=>s("int"),"signed"=>J::B(true),"bits"=>n(i.bit_width().unwrap_or(64)), "s"=>s(self.ty_s(ty))}
            }
            ty::Uint(u) => {
                obj! {"k"=>s("int"),"signed"=>J::B(false),"bits"=>n(u.bit_width().unwrap_or(64)), "s"=>s(self.ty_s(ty))}
            }
            ty::Adt(def, args) => {
                let a: Vec<J> = args
                    .iter()
                    .filter_map(|g| match g.kind() {
                        ty::GenericArgKind::Type(t) => Some(self.ty_j(t, depth - 1)),
                        ty::GenericArgKind::Const(c) => Some(obj! {"k"=>s("const"),"s"=>s(self.pp(|| format!("{c}")))}),
                        _ => None,
                    })
                    .collect();
                obj! {"k"=>s("adt"),"adt"=>s(self.key(def.did())),"args"=>J::A(a),"s"=>s(self.ty_s(ty))}
            }
            ty::Ref(_, t, m) => obj! {"k"=>s("ref"),"mut"=>J::B(m.is_mut()),"to"=>self.ty_j(*t, depth-1)},
            ty::RawPtr(t, m) => obj! {"k"=>s("ptr"),"mut"=>J::B(m.is_mut()),"to"=>self.ty_j(*t, depth-1)},
            ty::Array(t, c) => {
                let len = c.try_to_target_usize(self.tcx);
                obj! {"k"=>s("array"),"of"=>self.ty_j(*t, depth-1),"len"=>match len {Some(l)=>n(l),None=>J::Null}}
            }
            ty::Slice(t) => obj! {"k"=>s("slice"),"of"=>self.ty_j(*t, depth-1)},
            ty::Tuple(ts) => obj! {"k"=>s("tuple"),"of"=>J::A(ts.iter().map(|t| self.ty_j(t, depth-1)).collect())},
            ty::FnDef(did, args) => obj! {"k"=>s("fndef"),"fn"=>s(self.key(*did)),"s"=>s(self.key_args(*did, args))},
            ty::Closure(did, _) => obj! {"k"=>s("closure"),"fn"=>s(self.key(*did))},
            ty::Param(p) => obj! {"k"=>s("param"),"s"=>s(p.name.to_string())},
            ty::Never => obj! {"k"=>s("never")},
            ty::Str => obj! {"k"=>s("str")},
            _ => obj! {"k"=>s("other"),"s"=>s(self.ty_s(ty))},
        }
    }

    fn vis_s(&self, did: DefId) -> String {
        match self.tcx.visibility(did) {
            ty::Visibility::Public => "pub".into(),
            ty::Visibility::Restricted(m) => {
                if m.is_crate_root() {
                    "crate".into()
                } else {
                    format!("restricted:{}", self.key(m))
                }
            }
        }
    }
}

// ---------------------------------------------------------------- constants
impl<'tcx> Cx<'tcx> {
    fn alloc_target(&self, id: mir::interpret::AllocId) -> J {
        use mir::interpret::GlobalAlloc;
        match self.tcx.try_get_global_alloc(id) {
            Some(GlobalAlloc::Static(did)) => obj! {"static" => s(self.key(did))},
            Some(GlobalAlloc::Function { instance }) => obj! {"fn" => s(self.key(instance.def_id()))},
            Some(GlobalAlloc::Memory(a)) => {
                let a = a.inner();
                let len = a.len();
                let bytes = a.inspect_with_uninit_and_ptr_outside_interpreter(0..len.min(1 << 16));
                let mut j = obj! {"mem" => s(hex(bytes)), "len" => n(len)};
                let rel: Vec<J> = a
                    .provenance()
                    .ptrs()
                    .iter()
                    .map(|(off, prov)| J::A(vec![n(off.bytes()), self.alloc_target(prov.alloc_id())]))
                    .collect();
                if !rel.is_empty() {
                    j.push("relocs", J::A(rel));
                }
                j
            }
            Some(GlobalAlloc::VTable(..)) => obj! {"vtable" => J::B(true)},
            _ => obj! {"unknown" => J::B(true)},
        }
    }

    fn const_value_j(&self, val: mir::ConstValue, ty: Ty<'tcx>, owner: DefId) -> J {
        let tcx = self.tcx;
        match val {
            mir::ConstValue::Scalar(mir::interpret::Scalar::Int(i)) => {
                let size = i.size();
                let bits = i.to_bits(size);
                let signed = matches!(ty.kind(), ty::Int(_));
                let mut v = bits as i128;
                if signed && size.bits() < 128 {
                    let sh = 128 - size.bits();
                    v = ((bits << sh) as i128) >> sh;
                }
                obj! {"int" => J::S(format!("{v}")), "bits" => J::S(format!("{bits}")), "sz" => n(size.bytes())}
            }
            mir::ConstValue::Scalar(mir::interpret::Scalar::Ptr(ptr, _)) => {
                let (prov, off) = ptr.into_raw_parts();
                let mut j = obj! {"ptr" => self.alloc_target(prov.alloc_id())};
                j.push("off", n(off.bytes()));
                j
            }
            mir::ConstValue::ZeroSized => match ty.kind() {
                ty::FnDef(did, args) => self.fn_ref_j(*did, args, owner),
                _ => obj! {"zst" => s(self.ty_s(ty))},
            },
            mir::ConstValue::Slice { alloc_id, meta } => {
                let mut j = self.alloc_target(alloc_id);
                j.push("meta", n(meta));
                if let J::O(o) = &j {
                    if let Some((_, J::S(h))) = o.iter().find(|(k, _)| k == "mem") {
                        let bytes: Vec<u8> = (0..h.len() / 2)
                            .map(|i| u8::from_str_radix(&h[2 * i..2 * i + 2], 16).unwrap())
                            .collect();
                        let m = (meta as usize).min(bytes.len());
                        if let Ok(st) = std::str::from_utf8(&bytes[..m]) {
                            let st = st.to_string();
                            let mut j2 = j.clone();
                            j2.push("str", s(st));
                            return j2;
                        }
                    }
                }
                j
            }
            mir::ConstValue::Indirect { alloc_id, offset } => {
                let env = ty::TypingEnv::fully_monomorphized();
                let size = tcx.layout_of(env.as_query_input(ty)).map(|l| l.size.bytes()).unwrap_or(0) as usize;
                match tcx.try_get_global_alloc(alloc_id) {
                    Some(mir::interpret::GlobalAlloc::Memory(a)) => {
                        let a = a.inner();
                        let off = offset.bytes() as usize;
                        let end = (off + size).min(a.len());
                        let bytes = a.inspect_with_uninit_and_ptr_outside_interpreter(off..end);
                        let mut j = obj! {"bytes" => s(hex(bytes))};
                        let rel: Vec<J> = a
                            .provenance()
                            .ptrs()
                            .iter()
                            .filter(|(o, _)| (o.bytes() as usize) >= off && (o.bytes() as usize) < end)
                            .map(|(o, prov)| J::A(vec![n(o.bytes() as usize - off), self.alloc_target(prov.alloc_id())]))
                            .collect();
                        if !rel.is_empty() {
                            j.push("relocs", J::A(rel));
                        }
                        j
                    }
                    _ => self.alloc_target(alloc_id),
                }
            }
        }
    }

    fn fn_ref_j(&self, did: DefId, args: ty::GenericArgsRef<'tcx>, owner: DefId) -> J {
        let tcx = self.tcx;
        let env = ty::TypingEnv::post_analysis(tcx, owner);
        let decl = self.key(did);
        let mut j = obj! {"decl" => s(decl.clone()), "decl_args" => s(self.key_args(did, args))};
        let ga: Vec<J> = args
            .iter()
            .filter_map(|g| match g.kind() {
                ty::GenericArgKind::Type(t) => Some(s(self.ty_s(t))),
                ty::GenericArgKind::Const(c) => Some(s(self.pp(|| format!("{c}")))),
                _ => None,
            })
            .collect();
        j.push("args", J::A(ga));
        let mut target = did;
        let mut resolved = false;
        if let Ok(Some(inst)) = ty::Instance::try_resolve(tcx, env, did, args) {
            match inst.def {
                ty::InstanceKind::Item(d) => {
                    target = d;
                    resolved = true;
                    j.push("fn_args", s(self.key_args(d, inst.args)));
                    let ga: Vec<J> = inst
                        .args
                        .iter()
                        .filter_map(|g| match g.kind() {
                            ty::GenericArgKind::Type(t) => Some(s(self.ty_s(t))),
                            ty::GenericArgKind::Const(c) => Some(s(self.pp(|| format!("{c}")))),
                            _ => None,
                        })
                        .collect();
                    j.push("rargs", J::A(ga));
                }
                ref other => {
                    target = other.def_id();
                    resolved = true;
                    j.push("shim", s(format!("{:?}", std::mem::discriminant(other))));
                    j.push("shim_s", s(self.pp(|| format!("{other:?}"))));
                }
            }
        }
        j.push("fn", s(self.key(target)));
        j.push("resolved", J::B(resolved));
        j.push("local", J::B(target.is_local()));
        if matches!(tcx.def_kind(target), DefKind::Fn | DefKind::AssocFn) {
            let unsafe_ = tcx.fn_sig(target).skip_binder().safety().is_unsafe();
            if unsafe_ {
                j.push("unsafe", J::B(true));
            }
        }
        if let Some(name) = tcx.opt_item_name(target) {
            j.push("name", s(name.to_string()));
        }
        if tcx.intrinsic(target).is_some() {
            j.push("intrinsic", J::B(true));
        }
        j
    }

    fn mir_const_j(&self, c: &mir::ConstOperand<'tcx>, owner: DefId) -> J {
        let tcx = self.tcx;
        let cst = c.const_;
        let ty = cst.ty();
        let mut j = obj! {"k" => s("const"), "ty" => s(self.ty_s(ty))};
        if let mir::Const::Unevaluated(uv, _) = cst {
            if let Some(p) = uv.promoted {
                j.push("promoted", s(format!("{}::promoted[{}]", self.key(uv.def), p.index())));
                return j;
            }
        }
        let env = ty::TypingEnv::post_analysis(tcx, owner);
        match cst.eval(tcx, env, c.span) {
            Ok(v) => {
                j.push("c", self.const_value_j(v, ty, owner));
                if let mir::Const::Unevaluated(uv, _) = cst {
                    j.push("from", s(self.key_args(uv.def, uv.args)));
                }
            }
            Err(_) => match cst {
                mir::Const::Unevaluated(uv, _) => {
                    j.push("uneval", s(self.key(uv.def)));
                    j.push("uneval_args", s(self.key_args(uv.def, uv.args)));
                }
                mir::Const::Ty(_, c) => {
                    j.push("param", s(self.pp(|| format!("{c}"))));
                }
                _ => {
                    j.push("err", J::B(true));
                }
            },
        }
        j
    }
}

// ---------------------------------------------------------------- MIR bodies
impl<'tcx> Cx<'tcx> {
    fn place_j(&self, body: &mir::Body<'tcx>, p: &Place<'tcx>) -> J {
        let tcx = self.tcx;
        let mut pj = Vec::new();
        let mut pty = mir::PlaceTy::from_ty(body.local_decls[p.local].ty);
        for elem in p.projection.iter() {
            let e = match elem {
                mir::ProjectionElem::Deref => s("d"),
                mir::ProjectionElem::Field(f, fty) => {
                    let mut o = obj! {"f" => n(f.index()), "ty" => s(self.ty_s(fty))};
                    if let ty::Adt(def, _) = pty.ty.kind() {
                        let vidx = pty.variant_index.unwrap_or(rustc_abi::FIRST_VARIANT);
                        if vidx.index() < def.variants().len() {
                            let v = def.variant(vidx);
                            if f.index() < v.fields.len() {
                                o.push("n", s(v.fields[f].name.to_string()));
                            }
                            o.push("a", s(self.key(def.did())));
                            if def.is_enum() {
                                o.push("v", s(v.name.to_string()));
                            }
                        }
                    }
                    o
                }
                mir::ProjectionElem::Index(l) => obj! {"i" => n(l.index())},
                mir::ProjectionElem::ConstantIndex { offset, min_length, from_end } => {
                    obj! {"ci" => J::A(vec![n(offset), n(min_length), J::B(from_end)])}
                }
                mir::ProjectionElem::Subslice { from, to, from_end } => {
                    obj! {"ss" => J::A(vec![n(from), n(to), J::B(from_end)])}
                }
                mir::ProjectionElem::Downcast(name, v) => {
                    let mut o = obj! {"dc" => n(v.index())};
                    if let Some(nm) = name {
                        o.push("n", s(nm.to_string()));
                    } else if let ty::Adt(def, _) = pty.ty.kind() {
                        if def.is_enum() {
                            o.push("n", s(def.variant(v).name.to_string()));
                        }
                    }
                    o
                }
                mir::ProjectionElem::OpaqueCast(t) => obj! {"oc" => s(self.ty_s(t))},
                mir::ProjectionElem::UnwrapUnsafeBinder(t) => obj! {"ub" => s(self.ty_s(t))},
            };
            pj.push(e);
            pty = pty.projection_ty(tcx, elem);
        }
        obj! {"l" => n(p.local.index()), "pj" => J::A(pj), "ty" => s(self.ty_s(pty.ty))}
    }

    fn op_j(&self, body: &mir::Body<'tcx>, o: &Operand<'tcx>, owner: DefId) -> J {
        match o {
            Operand::Copy(p) => obj! {"k" => s("copy"), "p" => self.place_j(body, p)},
            Operand::Move(p) => obj! {"k" => s("move"), "p" => self.place_j(body, p)},
            Operand::Constant(c) => self.mir_const_j(c, owner),
            #[allow(unreachable_patterns)]
            other => obj! {"k" => s("rtc"), "s" => s(format!("{other:?}"))},
        }
    }

    fn rvalue_j(&self, body: &mir::Body<'tcx>, r: &Rvalue<'tcx>, owner: DefId) -> J {
        let tcx = self.tcx;
        match r {
            Rvalue::Use(o, ..) => obj! {"k" => s("use"), "o" => self.op_j(body, o, owner)},
            Rvalue::Repeat(o, c) => {
                obj! {"k" => s("repeat"), "o" => self.op_j(body, o, owner), "n" => match c.try_to_target_usize(tcx) {Some(l)=>n(l),None=>J::Null}}
            }
            Rvalue::Ref(_, bk, p) => {
                let b = match bk {
                    mir::BorrowKind::Shared => "shared",
                    mir::BorrowKind::Fake(_) => "fake",
                    mir::BorrowKind::Mut { .. } => "mut",
                };
                obj! {"k" => s("ref"), "bk" => s(b), "p" => self.place_j(body, p)}
            }
            Rvalue::ThreadLocalRef(d) => obj! {"k" => s("tls"), "def" => s(self.key(*d))},
            Rvalue::RawPtr(m, p) => obj! {"k" => s("rawptr"), "m" => s(format!("{m:?}")), "p" => self.place_j(body, p)},
            Rvalue::Cast(ck, o, t) => {
                let cks = format!("{ck:?}");
                let cks = cks.split('(').next().unwrap_or("").to_string();
                obj! {"k" => s("cast"), "ck" => s(cks), "ckf" => s(format!("{ck:?}")), "o" => self.op_j(body, o, owner), "ty" => s(self.ty_s(*t)), "tj" => self.ty_j(*t, 3)}
            }
            Rvalue::BinaryOp(op, ab) => {
                obj! {"k" => s("bin"), "op" => s(format!("{op:?}")), "a" => self.op_j(body, &ab.0, owner), "b" => self.op_j(body, &ab.1, owner)}
            }
            Rvalue::UnaryOp(op, o) => obj! {"k" => s("un"), "op" => s(format!("{op:?}")), "o" => self.op_j(body, o, owner)},
            Rvalue::Discriminant(p) => {
                let mut j = obj! {"k" => s("discr"), "p" => self.place_j(body, p)};
                let pty = p.ty(&body.local_decls, tcx).ty;
                if let ty::Adt(def, _) = pty.kind() {
                    j.push("adt", s(self.key(def.did())));
                    if def.is_enum() {
                        let vs: Vec<J> = def
                            .discriminants(tcx)
                            .map(|(vi, d)| J::A(vec![s(def.variant(vi).name.to_string()), J::S(format!("{}", d.val)), n(def.variant(vi).fields.len())]))
                            .collect();
                        j.push("variants", J::A(vs));
                    }
                }
                j
            }
            Rvalue::Aggregate(ak, ops) => {
                let mut j = obj! {"k" => s("agg")};
                match &**ak {
                    mir::AggregateKind::Array(t) => {
                        j.push("ak", s("array"));
                        j.push("ty", s(self.ty_s(*t)));
                    }
                    mir::AggregateKind::Tuple => j.push("ak", s("tuple")),
                    mir::AggregateKind::Adt(did, v, args, _, active) => {
                        j.push("ak", s("adt"));
                        j.push("adt", s(self.key(*did)));
                        j.push("v", n(v.index()));
                        let def = tcx.adt_def(*did);
                        j.push("vn", s(def.variant(*v).name.to_string()));
                        let names: Vec<J> = def.variant(*v).fields.iter().map(|f| s(f.name.to_string())).collect();
                        j.push("fields", J::A(names));
                        j.push("ty", s(self.key_args(*did, args)));
                        if let Some(a) = active {
                            j.push("active", n(a.index()));
                        }
                    }
                    mir::AggregateKind::Closure(did, _) => {
                        j.push("ak", s("closure"));
                        j.push("fn", s(self.key(*did)));
                    }
                    mir::AggregateKind::RawPtr(t, _) => {
                        j.push("ak", s("rawptr"));
                        j.push("ty", s(self.ty_s(*t)));
                    }
                    other => {
                        j.push("ak", s("other"));
                        j.push("s", s(format!("{other:?}")));
                    }
                }
                if ops.len() > 300 {
                    j.push("ops_n", n(ops.len()));
                    j.push("ops", J::A(vec![]));
                } else {
                    j.push("ops", J::A(ops.iter().map(|o| self.op_j(body, o, owner)).collect()));
                }
                j
            }
            Rvalue::CopyForDeref(p) => obj! {"k" => s("cfd"), "p" => self.place_j(body, p)},
            #[allow(unreachable_patterns)]
            other => obj! {"k" => s("other"), "s" => s(format!("{other:?}"))},
        }
    }

    fn unwind_j(&self, u: &mir::UnwindAction) -> J {
        match u {
            mir::UnwindAction::Continue => s("continue"),
            mir::UnwindAction::Unreachable => s("unreachable"),
            mir::UnwindAction::Terminate(_) => s("terminate"),
            mir::UnwindAction::Cleanup(bb) => n(bb.index()),
        }
    }

    fn body_j(&self, body: &mir::Body<'tcx>, owner: DefId) -> J {
        let tcx = self.tcx;
        let mut names: Vec<Option<String>> = vec![None; body.local_decls.len()];
        for vdi in &body.var_debug_info {
            if let mir::VarDebugInfoContents::Place(p) = &vdi.value {
                if p.projection.is_empty() {
                    names[p.local.index()] = Some(vdi.name.to_string());
                }
            }
        }
        let locals: Vec<J> = body
            .local_decls
            .iter_enumerated()
            .map(|(l, d)| {
                let mut j = obj! {"ty" => s(self.ty_s(d.ty)), "tj" => self.ty_j(d.ty, 4)};
                if let Some(nm) = &names[l.index()] {
                    j.push("n", s(nm.clone()));
                }
                if d.mutability.is_mut() {
                    j.push("mut", J::B(true));
                }
                j
            })
            .collect();
        let mut blocks = Vec::new();
        for (_bb, data) in body.basic_blocks.iter_enumerated() {
            let mut stmts = Vec::new();
            for st in &data.statements {
                let mut j = match &st.kind {
                    StatementKind::Assign(b) => {
                        obj! {"k" => s("assign"), "p" => self.place_j(body, &b.0), "r" => self.rvalue_j(body, &b.1, owner)}
                    }
                    StatementKind::SetDiscriminant { place, variant_index } => {
                        obj! {"k" => s("setdiscr"), "p" => self.place_j(body, place), "v" => n(variant_index.index())}
                    }
                    StatementKind::Intrinsic(i) => match &**i {
                        mir::NonDivergingIntrinsic::Assume(o) => obj! {"k" => s("assume"), "o" => self.op_j(body, o, owner)},
                        mir::NonDivergingIntrinsic::CopyNonOverlapping(c) => {
                            obj! {"k" => s("copy_nonoverlapping"), "src" => self.op_j(body, &c.src, owner), "dst" => self.op_j(body, &c.dst, owner), "count" => self.op_j(body, &c.count, owner)}
                        }
                    },
                    _ => continue,
                };
                self.span_j(&mut j, st.source_info.span);
                stmts.push(j);
            }
            let term = data.terminator();
            let mut t = match &term.kind {
                TerminatorKind::Goto { target } => obj! {"k" => s("goto"), "t" => n(target.index())},
                TerminatorKind::SwitchInt { discr, targets } => {
                    let dty = discr.ty(&body.local_decls, tcx);
                    let tg: Vec<J> = targets.iter().map(|(v, bb)| J::A(vec![J::S(format!("{v}")), n(bb.index())])).collect();
                    obj! {"k" => s("switch"), "d" => self.op_j(body, discr, owner), "ty" => s(self.ty_s(dty)), "tg" => J::A(tg), "o" => n(targets.otherwise().index())}
                }
                TerminatorKind::UnwindResume => obj! {"k" => s("resume")},
                TerminatorKind::UnwindTerminate(_) => obj! {"k" => s("terminate")},
                TerminatorKind::Return => obj! {"k" => s("ret")},
                TerminatorKind::Unreachable => obj! {"k" => s("unreachable")},
                TerminatorKind::Drop { place, target, unwind, .. } => {
                    obj! {"k" => s("drop"), "p" => self.place_j(body, place), "t" => n(target.index()), "u" => self.unwind_j(unwind)}
                }
                TerminatorKind::Call { func, args, destination, target, unwind, fn_span, .. } => {
                    let f = match func.const_fn_def() {
                        Some((did, ga)) => {
                            let mut j = self.fn_ref_j(did, ga, owner);
                            j.push("k", s("fnref"));
                            j
                        }
                        None => self.op_j(body, func, owner),
                    };
                    let mut j = obj! {"k" => s("call"), "f" => f,
                        "a" => J::A(args.iter().map(|a| self.op_j(body, &a.node, owner)).collect()),
                        "d" => self.place_j(body, destination),
                        "t" => match target {Some(b)=>n(b.index()),None=>J::Null},
                        "u" => self.unwind_j(unwind)};
                    j.push("fsp", s(self.span_s(*fn_span)));
                    j
                }
                TerminatorKind::TailCall { func, args, .. } => {
                    obj! {"k" => s("tailcall"), "f" => self.op_j(body, func, owner), "a" => J::A(args.iter().map(|a| self.op_j(body, &a.node, owner)).collect())}
                }
                TerminatorKind::Assert { cond, expected, msg, target, unwind } => {
                    let m = match &**msg {
                        mir::AssertKind::BoundsCheck { len, index } => {
                            obj! {"k" => s("Bounds"), "len" => self.op_j(body, len, owner), "index" => self.op_j(body, index, owner)}
                        }
                        mir::AssertKind::Overflow(op, a, b) => {
                            obj! {"k" => s("Overflow"), "op" => s(format!("{op:?}")), "a" => self.op_j(body, a, owner), "b" => self.op_j(body, b, owner)}
                        }
                        mir::AssertKind::OverflowNeg(a) => obj! {"k" => s("OverflowNeg"), "a" => self.op_j(body, a, owner)},
                        mir::AssertKind::DivisionByZero(a) => obj! {"k" => s("DivisionByZero"), "a" => self.op_j(body, a, owner)},
                        mir::AssertKind::RemainderByZero(a) => obj! {"k" => s("RemainderByZero"), "a" => self.op_j(body, a, owner)},
                        mir::AssertKind::MisalignedPointerDereference { required, found } => {
                            obj! {"k" => s("Misaligned"), "required" => self.op_j(body, required, owner), "found" => self.op_j(body, found, owner)}
                        }
                        mir::AssertKind::NullPointerDereference => obj! {"k" => s("NullDeref")},
                        other => obj! {"k" => s("Other"), "s" => s(format!("{other:?}"))},
                    };
                    obj! {"k" => s("assert"), "c" => self.op_j(body, cond, owner), "e" => J::B(*expected), "m" => m, "t" => n(target.index()), "u" => self.unwind_j(unwind)}
                }
                TerminatorKind::FalseEdge { real_target, .. } => obj! {"k" => s("goto"), "t" => n(real_target.index())},
                TerminatorKind::FalseUnwind { real_target, .. } => obj! {"k" => s("goto"), "t" => n(real_target.index())},
                other => obj! {"k" => s("other"), "s" => s(format!("{other:?}"))},
            };
            self.span_j(&mut t, term.source_info.span);
            let mut b = obj! {"s" => J::A(stmts), "t" => t};
            if data.is_cleanup {
                b.push("cleanup", J::B(true));
            }
            blocks.push(b);
        }
        obj! {
            "argc" => n(body.arg_count),
            "locals" => J::A(locals),
            "blocks" => J::A(blocks),
            "span" => s(self.span_s(body.span)),
        }
    }
}

// ---------------------------------------------------------------- HIR unsafe
struct UnsafeVisitor<'a, 'tcx> {
    cx: &'a Cx<'tcx>,
    owner: LocalDefId,
    typeck: &'tcx ty::TypeckResults<'tcx>,
    depth: u32,
    cur: Vec<J>,
    out: Vec<J>,
}
impl<'a, 'tcx> rustc_hir::intravisit::Visitor<'tcx> for UnsafeVisitor<'a, 'tcx> {
    fn visit_expr(&mut self, e: &'tcx rustc_hir::Expr<'tcx>) {
        use rustc_hir::ExprKind;
        let tcx = self.cx.tcx;
        if self.depth > 0 {
            match &e.kind {
                ExprKind::Call(f, _) => {
                    let fty = self.typeck.expr_ty(f);
                    if let ty::FnDef(did, _) = fty.kind() {
                        if tcx.fn_sig(*did).skip_binder().safety().is_unsafe() {
                            let mut j = obj! {"k" => s("call_unsafe_fn"), "callee" => s(self.cx.key(*did))};
                            self.cx.span_j(&mut j, e.span);
                            self.cur.push(j);
                        }
                    } else if let ty::FnPtr(sig, hdr) = fty.kind() {
                        let _ = sig;
                        if hdr.safety().is_unsafe() {
                            let mut j = obj! {"k" => s("call_unsafe_fnptr")};
                            self.cx.span_j(&mut j, e.span);
                            self.cur.push(j);
                        }
                    }
                }
                ExprKind::MethodCall(..) => {
                    if let Some(did) = self.typeck.type_dependent_def_id(e.hir_id) {
                        if tcx.fn_sig(did).skip_binder().safety().is_unsafe() {
                            let mut j = obj! {"k" => s("call_unsafe_fn"), "callee" => s(self.cx.key(did))};
                            self.cx.span_j(&mut j, e.span);
                            self.cur.push(j);
                        }
                    }
                }
                ExprKind::Unary(rustc_hir::UnOp::Deref, inner) => {
                    if self.typeck.expr_ty(inner).is_raw_ptr() {
                        let mut j = obj! {"k" => s("raw_deref")};
                        self.cx.span_j(&mut j, e.span);
                        self.cur.push(j);
                    }
                }
                ExprKind::Path(qp) => {
                    if let rustc_hir::def::Res::Def(DefKind::Static { mutability, .. }, did) = self.typeck.qpath_res(qp, e.hir_id) {
                        if mutability.is_mut() {
                            let mut j = obj! {"k" => s("static_mut"), "def" => s(self.cx.key(did))};
                            self.cx.span_j(&mut j, e.span);
                            self.cur.push(j);
                        }
                    }
                }
                _ => {}
            }
        }
        if let ExprKind::Block(b, _) = &e.kind {
            if let rustc_hir::BlockCheckMode::UnsafeBlock(src) = b.rules {
                let saved = std::mem::take(&mut self.cur);
                self.depth += 1;
                rustc_hir::intravisit::walk_expr(self, e);
                self.depth -= 1;
                let ops = std::mem::replace(&mut self.cur, saved);
                let mut j = obj! {"fn" => s(self.cx.key(self.owner.to_def_id())), "ops" => J::A(ops.clone()),
                    "user" => J::B(matches!(src, rustc_hir::UnsafeSource::UserProvided))};
                self.cx.span_j(&mut j, b.span);
                self.out.push(j);
                // ops of a nested block also belong to the enclosing one
                if self.depth > 0 {
                    self.cur.extend(ops);
                }
                return;
            }
        }
        rustc_hir::intravisit::walk_expr(self, e);
    }
}

// ---------------------------------------------------------------- driver
struct Cb;
impl rustc_driver::Callbacks for Cb {
    fn after_analysis<'tcx>(&mut self, _c: &rustc_interface::interface::Compiler, tcx: TyCtxt<'tcx>) -> Compilation {
        let out_dir = match std::env::var("CHESSFACTS_OUT") {
            Ok(d) => d,
            Err(_) => return Compilation::Continue,
        };
        let krate = tcx.crate_name(LOCAL_CRATE).to_string();
        let cx = Cx { tcx, krate: krate.clone() };
        let mut adts = Vec::new();
        let mut values = Vec::new();
        let mut fns = Vec::new();
        let mut const_bodies = Vec::new();
        let mut impls = Vec::new();
        let mono = ty::TypingEnv::fully_monomorphized();

        let emit_promoted = |owner: DefId, fns: &mut Vec<(String, J)>| -> Vec<J> {
            let mut keys = Vec::new();
            if let Some(local) = owner.as_local() {
                let proms = tcx.promoted_mir(local.to_def_id());
                for (idx, pb) in proms.iter_enumerated() {
                    let key = format!("{}::promoted[{}]", cx.key(owner), idx.index());
                    let mut b = cx.body_j(pb, owner);
                    b.push("kind", s("promoted"));
                    b.push("owner", s(cx.key(owner)));
                    fns.push((key.clone(), b));
                    keys.push(s(key));
                }
            }
            keys
        };

        let mut all_ids: Vec<LocalDefId> = tcx.hir_crate_items(()).definitions().collect();
        for o in tcx.hir_body_owners() {
            if matches!(tcx.def_kind(o.to_def_id()), DefKind::Closure) && !all_ids.contains(&o) {
                all_ids.push(o);
            }
        }
        for id in all_ids {
            let did = id.to_def_id();
            let kind = tcx.def_kind(did);
            match kind {
                DefKind::Struct | DefKind::Enum | DefKind::Union => {
                    let adt = tcx.adt_def(did);
                    let generic = tcx.generics_of(did).requires_monomorphization(tcx);
                    let mut j = obj! {
                        "kind" => s(match kind { DefKind::Struct => "struct", DefKind::Enum => "enum", _ => "union" }),
                        "generic" => J::B(generic),
                        "vis" => s(cx.vis_s(did)),
                        "repr" => s(format!("{:?}", adt.repr())),
                        "span" => s(cx.span_s(tcx.def_span(did))),
                    };
                    let layout = if generic {
                        None
                    } else {
                        let ty = tcx.type_of(did).instantiate_identity().skip_norm_wip();
                        tcx.layout_of(mono.as_query_input(ty)).ok()
                    };
                    if let Some(l) = &layout {
                        j.push("size", n(l.size.bytes()));
                        j.push("align", n(l.align.abi.bytes()));
                    }
                    let discrs: Vec<(usize, u128)> = if adt.is_enum() {
                        adt.discriminants(tcx).map(|(v, d)| (v.index(), d.val)).collect()
                    } else {
                        vec![]
                    };
                    let mut vs = Vec::new();
                    for (vi, v) in adt.variants().iter_enumerated() {
                        let mut fs = Vec::new();
                        for (fi, f) in v.fields.iter_enumerated() {
                            let fty = tcx.type_of(f.did).instantiate_identity().skip_norm_wip();
                            let mut fj = obj! {"name" => s(f.name.to_string()), "ty" => s(cx.ty_s(fty)), "tj" => cx.ty_j(fty, 4),
                                "vis" => s(cx.vis_s(f.did))};
                            if let Some(l) = &layout {
                                if !adt.is_enum() {
                                    fj.push("offset", n(l.fields.offset(fi.index()).bytes()));
                                }
                            }
                            fs.push(fj);
                        }
                        let mut vj = obj! {"name" => s(v.name.to_string()), "fields" => J::A(fs)};
                        if let Some((_, d)) = discrs.iter().find(|(i, _)| *i == vi.index()) {
                            vj.push("discr", J::S(format!("{d}")));
                        }
                        vs.push(vj);
                    }
                    j.push("variants", J::A(vs));
                    adts.push((cx.key(did), j));
                }
                DefKind::Static { mutability, .. } => {
                    let ty = tcx.type_of(did).instantiate_identity().skip_norm_wip();
                    let mut j = obj! {"kind" => s("static"), "ty" => s(cx.ty_s(ty)), "tj" => cx.ty_j(ty, 5),
                        "vis" => s(cx.vis_s(did)), "mut" => J::B(mutability.is_mut()), "span" => s(cx.span_s(tcx.def_span(did)))};
                    if let Ok(alloc) = tcx.eval_static_initializer(did) {
                        let a = alloc.inner();
                        let bytes = a.inspect_with_uninit_and_ptr_outside_interpreter(0..a.len());
                        j.push("size", n(a.len()));
                        j.push("hex", s(hex(bytes)));
                        let rel: Vec<J> = a
                            .provenance()
                            .ptrs()
                            .iter()
                            .map(|(off, prov)| J::A(vec![n(off.bytes()), cx.alloc_target(prov.alloc_id())]))
                            .collect();
                        j.push("relocs", J::A(rel));
                    } else {
                        j.push("err", J::B(true));
                    }
                    values.push((cx.key(did), j));
                    let body = tcx.mir_for_ctfe(did);
                    let mut b = cx.body_j(body, did);
                    b.push("kind", s("static"));
                    let pk = emit_promoted(did, &mut const_bodies);
                    b.push("promoted", J::A(pk));
                    const_bodies.push((cx.key(did), b));
                }
                DefKind::Const { .. } | DefKind::AssocConst { .. } => {
                    if id.to_def_id().as_local().map(|l| tcx.hir_maybe_body_owned_by(l).is_none()).unwrap_or(true) {
                        // trait assoc const without default
                        continue;
                    }
                    let ty = tcx.type_of(did).instantiate_identity().skip_norm_wip();
                    let generic = tcx.generics_of(did).requires_monomorphization(tcx);
                    let mut j = obj! {"kind" => s(if matches!(kind, DefKind::Const{..}) {"const"} else {"assoc_const"}),
                        "ty" => s(cx.ty_s(ty)), "tj" => cx.ty_j(ty, 5), "generic" => J::B(generic),
                        "vis" => s(cx.vis_s(did)), "span" => s(cx.span_s(tcx.def_span(did)))};
                    if !generic {
                        if let Ok(val) = tcx.const_eval_poly(did) {
                            j.push("val", cx.const_value_j(val, ty, did));
                        } else {
                            j.push("err", J::B(true));
                        }
                    }
                    values.push((cx.key(did), j));
                    let body = tcx.mir_for_ctfe(did);
                    let mut b = cx.body_j(body, did);
                    b.push("kind", s("const"));
                    let pk = emit_promoted(did, &mut const_bodies);
                    b.push("promoted", J::A(pk));
                    const_bodies.push((cx.key(did), b));
                }
                DefKind::AnonConst | DefKind::InlineConst => {
                    if tcx.generics_of(did).requires_monomorphization(tcx) {
                        continue;
                    }
                    if tcx.is_mir_available(did) || true {
                        let body = tcx.mir_for_ctfe(did);
                        let mut b = cx.body_j(body, did);
                        b.push("kind", s("anon_const"));
                        const_bodies.push((cx.key(did), b));
                    }
                }
                DefKind::Fn | DefKind::AssocFn | DefKind::Closure => {
                    if !tcx.is_mir_available(did) {
                        continue;
                    }
                    if matches!(kind, DefKind::Closure) && tcx.is_coroutine(did) {
                        continue;
                    }
                    let body = tcx.optimized_mir(did);
                    let mut b = cx.body_j(body, did);
                    b.push("kind", s(match kind { DefKind::Fn => "fn", DefKind::AssocFn => "assoc_fn", _ => "closure" }));
                    b.push("generic", J::B(tcx.generics_of(did).requires_monomorphization(tcx)));
                    b.push("def_span", s(cx.span_s(tcx.def_span(did))));
                    if !matches!(kind, DefKind::Closure) {
                        b.push("vis", s(cx.vis_s(did)));
                        let sig = tcx.fn_sig(did).skip_binder();
                        b.push("unsafe", J::B(sig.safety().is_unsafe()));
                        b.push("is_const", J::B(tcx.is_const_fn(did)));
                        if let Some(name) = tcx.opt_item_name(did) {
                            b.push("name", s(name.to_string()));
                        }
                        if let Some(parent) = tcx.opt_parent(did) {
                            if matches!(tcx.def_kind(parent), DefKind::Impl { .. }) {
                                let self_ty = tcx.type_of(parent).instantiate_identity().skip_norm_wip();
                                b.push("impl_self", s(cx.ty_s(self_ty)));
                                if tcx.is_automatically_derived(parent) {
                                    b.push("derived", J::B(true));
                                }
                                if let Some(tr) = tcx.impl_opt_trait_ref(parent) {
                                    let tr = tr.instantiate_identity().skip_norm_wip();
                                    b.push("impl_trait", s(cx.key(tr.def_id)));
                                    b.push("impl_trait_ref", s(cx.pp(|| format!("{tr}"))));
                                }
                            } else if matches!(tcx.def_kind(parent), DefKind::Trait) {
                                b.push("trait_default", s(cx.key(parent)));
                            }
                        }
                    } else {
                        let mut p = did;
                        while matches!(tcx.def_kind(p), DefKind::Closure) {
                            p = tcx.parent(p);
                        }
                        b.push("closure_of", s(cx.key(p)));
                    }
                    let pk = emit_promoted(did, &mut fns);
                    b.push("promoted", J::A(pk));
                    fns.push((cx.key(did), b));
                }
                DefKind::Impl { of_trait } => {
                    let self_ty = tcx.type_of(did).instantiate_identity().skip_norm_wip();
                    let mut j = obj! {"self" => s(cx.ty_s(self_ty)), "span" => s(cx.span_s(tcx.def_span(did)))};
                    if of_trait {
                        if let Some(tr) = tcx.impl_opt_trait_ref(did) {
                            let tr = tr.instantiate_identity().skip_norm_wip();
                            j.push("trait", s(cx.key(tr.def_id)));
                            j.push("trait_ref", s(cx.pp(|| format!("{tr}"))));
                        }
                        let hdr = tcx.impl_trait_header(did);
                        j.push("unsafe", J::B(hdr.safety.is_unsafe()));
                    }
                    let items: Vec<J> = tcx.associated_item_def_ids(did).iter().map(|d| s(cx.key(*d))).collect();
                    j.push("items", J::A(items));
                    let mut tys = Vec::new();
                    for d in tcx.associated_item_def_ids(did).iter() {
                        if matches!(tcx.def_kind(*d), DefKind::AssocTy) {
                            let ty = tcx.type_of(*d).instantiate_identity().skip_norm_wip();
                            tys.push((tcx.item_name(*d).to_string(), s(cx.ty_s(ty))));
                        }
                    }
                    j.push("assoc_types", J::O(tys));
                    impls.push(j);
                }
                _ => {}
            }
        }

        // HIR unsafe blocks
        let mut unsafe_blocks = Vec::new();
        for owner in tcx.hir_body_owners() {
            let kind = tcx.def_kind(owner.to_def_id());
            if !matches!(kind, DefKind::Fn | DefKind::AssocFn | DefKind::Closure | DefKind::Const { .. } | DefKind::AssocConst { .. } | DefKind::Static { .. }) {
                continue;
            }
            if matches!(kind, DefKind::Closure) {
                continue; // visited as part of the parent body
            }
            let Some(body) = tcx.hir_maybe_body_owned_by(owner) else { continue };
            let typeck = tcx.typeck(owner);
            let mut v = UnsafeVisitor { cx: &cx, owner, typeck, depth: 0, cur: vec![], out: vec![] };
            rustc_hir::intravisit::Visitor::visit_expr(&mut v, body.value);
            unsafe_blocks.extend(v.out);
        }

        let sess = tcx.sess;
        let feats: Vec<J> = sess.target_features.iter().map(|f| s(f.to_string())).collect();
        let doc = obj! {
            "crate" => s(krate.clone()),
            "cfg" => obj!{
                "debug_assertions" => J::B(sess.opts.debug_assertions),
                "overflow_checks" => J::B(sess.overflow_checks()),
                "ub_checks" => J::B(sess.ub_checks()),
                "target_features" => J::A(feats),
                "crate_types" => s(format!("{:?}", tcx.crate_types())),
            },
            "adts" => J::O(adts),
            "values" => J::O(values),
            "fns" => J::O(fns),
            "const_bodies" => J::O(const_bodies),
            "impls" => J::A(impls),
            "unsafe_blocks" => J::A(unsafe_blocks),
        };
        let mut out = String::new();
        doc.write(&mut out);
        let _ = std::fs::create_dir_all(&out_dir);
        let kinds = format!("{:?}", tcx.crate_types());
        let suffix = if kinds.contains("Executable") { "-bin" } else { "" };
        let tmp = format!("{out_dir}/.{krate}{suffix}.{}.tmp", std::process::id());
        std::fs::write(&tmp, out).expect("write facts");
        std::fs::rename(&tmp, format!("{out_dir}/{krate}{suffix}.json")).expect("rename facts");
        Compilation::Continue
    }
}

fn main() {
    let args: Vec<String> = std::env::args().collect();
    // RUSTC_WORKSPACE_WRAPPER: argv[1] is the real rustc
    let mut a = vec!["rustc".to_string()];
    a.extend(args.into_iter().skip(2));
    rustc_driver::run_compiler(&a, &mut Cb);
}
