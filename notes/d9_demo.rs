use chess_bitboard::{Color, Piece, Pos};
use chess_movegen::Board;
fn main() {
    let mut bb = Board::builder();
    bb.place(Pos::E1, Color::White, Piece::King).unwrap();
    bb.place(Pos::E8, Color::Black, Piece::King).unwrap();
    bb.full_move_clock(12345);
    let b = bb.build().unwrap();
    let text = b.to_string();
    println!("text = {text}");
    let back = text.parse::<Board>();
    println!("parse back: {:?}", back.as_ref().map(|x| x.full_move_clock()));
    assert!(back.is_ok(), "the text of a valid board does not parse back");
}
