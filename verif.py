#!/usr/bin/env python3
"""Entry point:  verif.py check Cxx [--tier quick|thorough]   |   verif.py show <fn-suffix>"""
import sys, os
sys.path.insert(0, os.path.dirname(os.path.abspath(__file__)))


def main():
    if len(sys.argv) < 2:
        print(__doc__)
        return 2
    cmd = sys.argv[1]
    if cmd == "show":
        from analysis import facts, mirpp
        P = facts.load(os.environ.get("VERIF_CONFIG", "ws"))
        for suf in sys.argv[2:]:
            hits = [k for k in list(P.fns) + list(P.const_bodies) if suf in k]
            for k in hits:
                print(mirpp.body_s(P.body(k), spans="--spans" in sys.argv))
                print()
        return 0
    if cmd == "check":
        from analysis import runner
        return runner.main(sys.argv[2:])
    if cmd == "explain":
        import json
        print(json.dumps(json.load(open(sys.argv[2])), indent=1))
        return 0
    print(__doc__)
    return 2


if __name__ == "__main__":
    sys.exit(main())
