"""C07 - safe API never violates an unchecked-operation precondition (obligation ledger)."""
import importlib, json, os, re
from analysis.runner import rule, Ctx, run_rule, _RULES
from analysis.facts import AnchorError
from analysis import terms as T, k2, obligations as O, intervals as IV, facts as F
from analysis import chessref as R
from analysis.cfg import cfg_of
from analysis.effects import subterms

THOROUGH_CONFIGS = ['release', 'nobmi2']
LEVEL = "other"
VERIF = os.path.dirname(os.path.dirname(os.path.abspath(__file__)))
DECIDED = ("Every unsafe operation (HIR), every Assert terminator (overflow, bounds, division, pointer checks) and every call into the panic family in the seven shipped library crates is an "
           "obligation (223 on the pinned tree). Each must be discharged by exactly one of: A automatically, by interval evaluation of the site's K4 term on every path that reaches it "
           "(enum discriminant ranges, masks, table columns, comparisons already passed); B a named invariant that has its own structural rule, re-checked on every run "
           "(INV-KING, INV-CAP, INV-MAGIC, INV-BOOK, INV-CR16, INV-NONEMPTY, INV-RANGE, INV-PTR, INV-LEGAL, INV-PROMO, INV-PARTITION, INV-HASHER, INV-IDX, INV-CHECKMASK, INV-DISPATCH, INV-CONSTFROM); "
           "C an audited ledger entry, with a parameter checker where the reason has a number in it (digit count, capacity, table sizes); or it is a stated assumption / an unsafe fn's lifted "
           "contract / out of scope. A site that is none of these is reported as UNDISCHARGED.")
DECIDED = DECIDED + ' Discharge order per site: automatic (intervals, incl. bounded accumulators, result-range summaries of callees, items of constant ranges); in every calling context for non-public helpers; const fn reachable only from constant initialisers; exact ledger key; call of a private unsafe helper whose own operations rest on named invariants; ledger entry of the same kind whose own site is gone, in a call-graph related function (one entry per site).'
DECIDED = DECIDED + ' Also: `panic_fmt` calls from macro expansions (assert!/panic! with a message) are obligation sites; a closure used only as the per-item function of an iterator adaptor over a constant table is analysed with the item ranging over that table; push sites are counted through private helpers that push exactly one entry per call; a private helper standing for one alphabeta call hands INV-LEGAL to its call sites; the move-list capacity may be a named constant.'
NOT_DECIDED = ("that the invariants' semantic premises hold on actual positions (e.g. that legal move generation never yields a king capture from a valid position: C01/C06); "
               "panics inside std/arrayvec callees beyond the table of known panic preconditions; the audited reasons of class C without a checker are reviewed text, not a proof")
EXPLANATION = ("K5 intervals over K4 path summaries for the automatic part; the rest is an exact-key ledger (ledger/C07.json) whose invariants are structural rules of the other "
               "properties re-run here. A new unchecked operation, a widened range or a weakened guard shows up as an undischarged site or a failing invariant.")
ASSUMPTIONS = ["a position is not repeated 256 times between two set_board calls (u8 repetition counter)", "iterative deepening completes fewer than 65535 passes; recursion depth < 65535",
               "std / arrayvec / abi_stable behave as documented (panic preconditions of the std callees used are tabulated by hand)"]

MG = "chess_movegen::"
_AUTO = {}
_FN = {}


_RANGES = {}


def setup_call_ranges(P):
    """Checked result-range summaries used by the interval engine (callees with a summary stay opaque):
    MoveGen::len <= CAP x 64 x 4 (CAP from the list's type; per-entry bound from its loop), and the integer-valued private evaluation helpers."""
    ck = id(P)
    if ck in _RANGES:
        IV.CALL_RANGES.clear()
        IV.CALL_RANGES.update(_RANGES[ck][0])
        IV.WRAPPED_RANGES.clear()
        IV.WRAPPED_RANGES.update(_RANGES[ck][1])
        return
    IV.CALL_RANGES.clear()
    try:
        cap_ = movelist_capacity(P)
        if cap_:
            r = IV.ret_range(P, MG + "iter::MoveGen::len", trips={"core::slice::Iter<": cap_, "core::slice::iter::Iter<": cap_})
            if r:
                IV.CALL_RANGES[MG + "iter::MoveGen::len"] = r
    except (AnchorError, IndexError, KeyError):
        pass
    # wrappers of a constant Range<u8>: a struct with one private field of type Range<u8>, every construction of which is a literal lo..hi
    IV.WRAPPED_RANGES.clear()
    for ak, a in P.adts.items():
        if a.get("crate") not in O.CORE or a.get("kind") != "struct" or len(a["variants"][0]["fields"]) != 1:
            continue
        f0 = a["variants"][0]["fields"][0]
        if f0["ty"] != "core::ops::range::Range<u8>" or f0.get("vis") == "pub":
            continue
        bounds = set()
        for fk, sites in k2.constructors_of(P, ak).items():
            fb = P.fns.get(fk) or P.const_bodies.get(fk)
            for blk in (fb["blocks"] if fb else []):
                for s in blk["s"]:
                    r = s.get("r", {})
                    if s["k"] == "assign" and r.get("k") == "agg" and r.get("adt") == ak:
                        d = k2.describe_operand(P, fb, r["ops"][0])
                        if d[0] == "agg" and d[1] == "core::ops::range::Range" and len(d[3]) == 2 and d[3][0][0] == "int" and d[3][1][0] == "int":
                            bounds.add((d[3][0][1], d[3][1][1]))
                        elif d[0] == "call" and d[1].endswith("Range<u8> as core::clone::Clone>::clone") and fk.endswith("core::clone::Clone>::clone") and "'range'" in str(d[2]):
                            pass            # a copy of an existing wrapper's range: within the same bounds
                        else:
                            bounds.add(None)
        if len(bounds) == 1 and None not in bounds:
            lo_, hi_ = list(bounds)[0]
            IV.WRAPPED_RANGES[ak] = (f0["name"], lo_, hi_)
    cands = [k for k, b in P.fns.items() if b["crate"] == "chess_engine" and b.get("kind") in ("fn", "assoc_fn") and not b.get("generic")
             and b["locals"][0]["ty"] in ("i32", "i64", "u32", "i16", "u16", "usize") and not O.is_generated(k, b)]
    for _ in range(2):
        for k in sorted(cands):
            if k not in IV.CALL_RANGES:
                try:
                    r = IV.ret_range(P, k)
                except Exception:
                    r = None
                if r:
                    IV.CALL_RANGES[k] = r
    _RANGES[ck] = (dict(IV.CALL_RANGES), dict(IV.WRAPPED_RANGES))


_MP_P = None


def _mp_analyse(fn):
    return _analysis(_MP_P, fn)


def auto_discharge(P, sites, tag="all"):
    ck = (id(P), tag)
    setup_call_ranges(P)
    if ck in _AUTO:
        return _AUTO[ck]
    fns = sorted({s["fn"] for s in sites if s["kind"] in ("assert", "call")})
    res = {}
    todo = [fn for fn in fns if fn in P.fns and not ((id(P.fns[fn]), False) in _FN and _FN[(id(P.fns[fn]), False)][0] is P.fns[fn])]
    if len(todo) > 8:
        # the per-function analyses are independent: fan them out over forked workers (the fact base is shared copy-on-write)
        import multiprocessing as mp
        global _MP_P
        _MP_P = P
        try:
            with mp.get_context("fork").Pool(min(12, os.cpu_count() or 4)) as pool:
                for fn, v in zip(todo, pool.map(_mp_analyse, todo, chunksize=1)):
                    _FN[(id(P.fns[fn]), False)] = (P.fns[fn], v)
        except Exception:
            pass            # fall back to the sequential path below
    for fn in fns:
        if fn not in P.fns:
            continue
        # per-body cache: a site's verdict is about its own function's paths (perturbation controls share unperturbed bodies)
        res[fn] = _analysis(P, fn)
    auto = set()
    for s in sites:
        if s["kind"] == "unsafe":
            continue
        v = res.get(s["fn"])
        if v and v.get((s["fn"], s["block"])) == "safe":
            auto.add(s["key"])
    _AUTO[ck] = auto
    return auto


_CALLERS = {}


def callers_of(P, fn):
    ck = id(P)
    if ck not in _CALLERS:
        m = {}
        for k in P.fns:
            if P.fns[k]["crate"] not in O.CORE:
                continue
            for _, t in P.calls(k):
                f = t["f"].get("fn")
                if f in P.fns:
                    m.setdefault(f, set()).add(k)
        _CALLERS[ck] = m
    cs = set(_CALLERS[ck].get(fn, ()))
    if "::{closure" in fn:
        cs.add(fn[:fn.index("::{closure")])
    return cs


def _analysis(P, fn, big=False):
    bk = (id(P.fns[fn]), big)
    if bk in _FN and _FN[bk][0] is P.fns[fn]:
        return _FN[bk][1]
    v, err = IV.analyse_fn(P, fn, inline=True, max_states=8000)
    if v is None and big:
        v, err = IV.analyse_fn(P, fn, inline=True, max_states=60000)
    if v is None:
        v, err = IV.analyse_fn(P, fn, inline=False)
    _FN[bk] = (P.fns[fn], v)
    return v


def context_safe(P, s, fn=None, depth=0, seen=None):
    """A site of a non-public helper that cannot be bounded with opaque parameters is safe if it is safe in every calling context:
    each workspace caller, analysed with the helper inlined, proves it (recursively through non-public callers)."""
    fn = fn or s["fn"]
    seen = seen or set()
    if fn in seen or depth > 3 or s["kind"] == "unsafe":
        return False
    seen = seen | {fn}
    if P.fns[fn].get("vis") == "pub" and "::{closure" not in fn:
        return False                      # callable from outside with any argument
    cs = callers_of(P, fn)
    if not cs:
        return False
    for c in sorted(cs):
        v = _analysis(P, c, big=True)
        if v and v.get((s["fn"], s["block"])) == "safe":
            continue
        if v is not None and (s["fn"], s["block"]) in v:
            return False                  # reached from this caller and not bounded there
        if not context_safe(P, s, c, depth + 1, seen):
            return False
    return True


ITEM_ADAPTORS = {"core::iter::traits::iterator::Iterator::" + n for n in ("map", "filter", "for_each", "any", "all", "filter_map", "find", "position", "flat_map", "take_while", "skip_while", "inspect")}
ITEM_SOURCES = ("::iter", "::into_iter", "::copied", "::cloned", "::rev")


def adaptor_safe(P, s):
    """A site inside a closure whose only use is as the per-item function of an iterator adaptor (`map`, `filter`, `any`, ...) running over a
    literal / constant array of tuples or integers: analysed with the item's integer parts ranging over that table's columns."""
    fn = s["fn"]
    if "::{closure" not in fn or s["kind"] == "unsafe":
        return False
    parent = fn.rsplit("::{closure", 1)[0]
    body = P.fns.get(parent)
    if body is None:
        return False
    made = [st_ for blk in body["blocks"] for st_ in blk["s"] if st_["k"] == "assign" and st_["r"].get("k") == "agg" and st_["r"].get("ak") == "closure" and st_["r"].get("fn") == fn]
    if len(made) != 1 or made[0]["p"]["pj"]:
        return False
    cl = made[0]["p"]["l"]
    uses = 0
    for blk in body["blocks"]:
        for x in blk["s"] + [blk["t"]]:
            for o in F.walk_operands(x):
                if o.get("k") in ("copy", "move") and o["p"]["l"] == cl:
                    uses += 1
            if x.get("k") == "assign" and x["r"].get("k") in ("ref", "rawptr") and x["r"]["p"]["l"] == cl:
                return False
    if uses != 1:
        return False
    eng = T.Engine(P)
    eng.unroll_arrays = False
    eng.trace_calls = set(ITEM_ADAPTORS)
    try:
        r_, l_, p_ = eng.paths(parent)
    except T.NotTabulable:
        return False
    tables = set()
    for lf in r_ + l_ + p_:
        for tr in lf.trace:
            if tr[0] != "call" or tr[1] not in ITEM_ADAPTORS or len(tr[2]) != 2 or tr[2][1][0] != "closure" or tr[2][1][1] != fn:
                continue
            src = tr[2][0]
            while src[0] == "app" and (src[1].endswith(ITEM_SOURCES) or T.strip_turbofish(src[1]).endswith(ITEM_SOURCES)) and len(src[2]) == 1:
                src = src[2][0]
            while src[0] in ("refv", "obj"):
                src = src[1]
            if src[0] != "array":
                return False
            tables.add(src)
    if len(tables) != 1:
        return False
    elems = list(tables)[0][1]
    cols = {}
    for e in elems:
        parts = list(enumerate(e[1])) if e[0] == "tuple" else [(None, e)]
        for j, x in parts:
            if T.is_const(x):
                cols.setdefault(j, []).append(x[1])
            else:
                cols.setdefault(j, []).append(None)
    prm = ("param", 1, "a1")
    bases = [prm, ("obj", prm), ("obj", ("obj", prm))]
    init = {}
    for j, vs in cols.items():
        if any(v is None for v in vs):
            continue
        for b in bases:
            init[b if j is None else ("field", b, j)] = (min(vs), max(vs))
    if not init:
        return False
    v, err = IV.analyse_fn(P, fn, inline=True, max_states=8000, init=init)
    return bool(v) and v.get((s["fn"], s["block"])) == "safe"


def const_only(P, fn, depth=0):
    """A non-public `const fn` that is reachable only from constant initialisers (or from such functions): a failing operation in it is a
    compile error of the crate, never a run-time event."""
    b = P.fns.get(fn)
    if b is None or not b.get("is_const") or b.get("vis") == "pub" or depth > 3:
        return False
    cs = callers_of(P, fn)
    return all(const_only(P, c, depth + 1) for c in cs)


def match_ledger(P, sites, auto, ledger, all_sites=None):
    """{site key: (ledger entry, how)}: exact key first; then `migrated` matches: a site whose key is new takes over a ledger entry of the same
    kind:what whose own site disappeared, when the two functions are the same or call-graph related (helper extracted / inlined, sites reordered).
    One entry serves one site, so an additional unchecked operation of the same kind still comes out undischarged."""
    live = {s["key"] for s in (all_sites or sites)}
    out = {}
    for s in sites:
        if s["key"] not in auto and s["key"] in ledger:
            e_ = ledger[s["key"]]
            if e_.get("ty") and s.get("ty") and e_["ty"] != s["ty"]:
                continue            # the audited operation was carried out in another integer type: the audit does not cover this one
            out[s["key"]] = (e_, "exact")
    taken = {id(e) for e, _ in out.values()}
    free = [e for k, e in ledger.items() if id(e) not in taken]      # the entry's own site is gone, or is now bounded automatically
    reach = {}

    def related(f, g):
        if f == g or f not in P.fns:
            return True
        for a, b in ((f, g), (g, f)):
            if a not in reach:
                reach[a] = reachable_fns(P, [a])
            if b in reach[a]:
                return True
        return False
    for s in sites:
        if s["key"] in auto or s["key"] in out:
            continue
        kw = f"|{s['kind']}:{s['what']}#"
        for e in free:
            if kw in e["key"] and related(e["key"].split("|")[0], s["fn"]) and not (e.get("ty") and s.get("ty") and e["ty"] != s["ty"]):
                out[s["key"]] = (e, "migrated from " + e["key"])
                free.remove(e)
                break
    # a call of a non-public unsafe helper of the workspace: its contract is what its own unchecked operations need; if those are all
    # discharged by named invariants (facts about the data, not about this call site), so is the call
    by_fn = {}
    for s in (all_sites or sites):
        by_fn.setdefault(s["fn"], []).append(s)
    for s in sites:
        if s["key"] in auto or s["key"] in out or s["kind"] != "unsafe":
            continue
        h = s["what"]
        if h in P.fns and P.fns[h].get("vis") != "pub" and by_fn.get(h):
            inner = [out.get(x["key"], (None, None))[0] for x in by_fn[h] if x["key"] not in auto]
            if inner and all(e is not None and e["class"] == "B" for e in inner):
                invs = sorted({e["inv"] for e in inner})
                out[s["key"]] = ({"key": s["key"], "class": "B", "inv": invs[0], "reason": f"call of the private unsafe helper {h}, whose operations rest on {invs}"}, f"wrapper of {h}")
    return out


def sub_rules(ctx, module, rule_ids):
    """Run rules of another property in a sub-context on the same program; returns the violations."""
    importlib.import_module(f"rules.{module}")
    c = Ctx(module, ctx.tier, shadow=True)
    c.P = ctx.P
    for fn in _RULES.get(module, []):
        if fn.rule_id in rule_ids:
            run_rule(c, fn)
    return c.violations


# ------------------------------------------------------------------ invariant checkers (class B)
def inv_king(ctx):
    # a king is present: accepted positions have both kings and the side not to move is not in check (C06), and a king can never be captured
    # afterwards because check detection is exact, from scratch and incrementally (C03.R5, R6), so legal moves never leave the mover in check
    v = sub_rules(ctx, "C06", {"C06.R2", "C06.R3"}) + sub_rules(ctx, "C05", {"C05.R7"}) + sub_rules(ctx, "C03", {"C03.R5", "C03.R6"})
    # ... and nothing asks for the king's square before the position has been accepted (the refresh of pinned/checkers runs after validate)
    v += [x for x in sub_rules(ctx, "C03", {"C03.R4"}) if "validated first" in x.key]
    return [f"{x.rule}: {x.what[:160]}" for x in v]


def movelist_capacity(P):
    """CAP of MoveGen.moves: ArrayVec<LegalMovesAt, CAP>, with CAP a literal or a named constant (resolved from the evaluated constants)."""
    ml = P.adt(MG + "iter::MoveGen")["variants"][0]["fields"]
    fld_ = [f for f in ml if f["name"] == "moves"][0]
    m = re.search(r"ArrayVec<.*, (\d+)(usize)?>", fld_["ty"])
    if m:
        return int(m.group(1))
    args = (fld_.get("tj") or {}).get("args") or []
    if len(args) == 2 and args[1].get("k") == "const":
        name = args[1].get("s", "")
        cands = [v for k, v in P.values.items() if (k == name or k.endswith("::" + name)) and v.get("crate") == "chess_movegen" and isinstance(v.get("val"), dict) and "int" in v["val"]]
        if len(cands) == 1:
            return int(cands[0]["val"]["int"])
    return None


def inv_cap(ctx):
    P = ctx.P
    out = []
    cap = movelist_capacity(P)
    # accepted maximum per colour from validate (C06.R3 extracts it); both colours must be bounded
    v = sub_rules(ctx, "C06", {"C06.R3"})
    out += [f"C06.R3: {x.what[:140]}" for x in v if "piece count" in x.key]
    K = 16
    if cap is None or cap < K + 2:
        out.append(f"move list capacity {cap} < {K} accepted pieces + 2 en-passant entries")
    wr = k2.push_wrappers(P)
    # a private helper that pushes exactly one entry per call stands for a push at each of its call sites
    pushes = [(k, bi) for k, b in P.fns.items() if b["crate"] == "chess_movegen" and "::promoted" not in k and k not in wr for bi, t in P.calls(k)
              if "push_unchecked" in t["f"].get("fn", "") or T.strip_generics(t["f"].get("fn", "")) in wr]
    if len(pushes) != 6:
        out.append(f"{len(pushes)} unchecked push sites (6 were audited: 2 generic, 3 pawn, 1 king)")
    # one push per iteration of a loop over own pieces / king outside loops / en passant over <= 2 candidates: C01.R2, R3, R5 domains
    v = sub_rules(ctx, "C01", {"C01.R2", "C01.R5"})
    out += [f"{x.rule}: {x.what[:140]}" for x in v if "domain" in x.what or "candidates" in x.key or "loop" in x.key]
    g = R.Geo(P)
    adj = P.value_u64s("chess_lookup::ADJACENT_FILES")
    for f in range(8):
        for r in range(8):
            if bin(adj[g.file[f]] & g.bb([(x, r) for x in range(8)])).count("1") > 2:
                out.append(f"ADJACENT_FILES[{f}] & rank {r} has more than 2 squares: more than 2 en-passant entries possible")
    # the king push is outside every loop
    kk = "chess_movegen::iter::pieces::King::king_legals"
    c = cfg_of(P.body(kk))
    for bi, t in P.calls(kk):
        if "push_unchecked" in t["f"].get("fn", "") and c.in_loop(bi):
            out.append("the king entry is pushed inside a loop")
    return out


def inv_magic(ctx):
    return [f"{x.rule}: {x.what[:160]}" for x in sub_rules(ctx, "C08", {"C08.R1", "C08.R2"})]


def inv_book(ctx):
    return [f"{x.rule}: {x.what[:160]}" for x in sub_rules(ctx, "C17", {"C17.R1", "C17.R2"})]


def inv_cr16(ctx):
    P = ctx.P
    out = []
    CR = MG + "castle_rights::CastleRights"
    # constructors of CastleRights values
    cons = k2.constructors_of(P, CR)
    allowed = {CR + "::empty", CR + "::not", CR + "::without", CR + "::with"}
    extra = sorted(k for k in cons if k not in allowed and not k.startswith(MG + "castle_rights::"))
    if extra:
        out.append(f"CastleRights values are constructed in {extra}")
    callers = {k for k, _ in P.callers().get(CR + "::not", [])}
    if callers:
        out.append(f"CastleRights::not (sets the high bits) is called from runtime code: {sorted(callers)}")
    # writers of the raw bits
    w = k2.writers_of_field(P, CR, "0")
    okw = {CR + "::remove_for_sq", CR + "::remove", CR + "::add"} | {k for k in w if k.startswith(MG + "castle_rights::")}     # inside the module: each checked below / by C02.R1
    bad = sorted(set(w) - okw)
    if bad:
        out.append(f"CastleRights.0 is written in {bad}")
    # the per-square masks only ever clear bits (&=): remove_for_sq term checked by C02.R1
    out += [f"{x.rule}: {x.what[:140]}" for x in sub_rules(ctx, "C02", {"C02.R1"}) if "per-square mask" in x.key or "offset" in x.key]
    # castle_rights_zobrist: only called with to_index()
    cz = "chess_lookup::castle_rights_zobrist"
    for k, bi in P.callers().get(cz, []):
        b = P.body(k)
        t = b["blocks"][bi]["t"]
        if t["k"] != "call":
            continue
        d = k2.describe_operand(P, b, t["a"][0])
        if not (d[0] == "call" and d[1].endswith("CastleRights::to_index")):
            out.append(f"{k} calls castle_rights_zobrist with {str(d)[:80]}, not with to_index()")
    # the type is not nameable outside the crate's public API as a constructor: field private
    if [f for f in P.adt(CR)["variants"][0]["fields"] if f["vis"] == "pub"]:
        out.append("CastleRights.0 is public")
    return out


def inv_nonempty(ctx):
    P = ctx.P
    out = []
    key = f"<{MG}iter::MoveGen as core::iter::traits::iterator::Iterator>::next"
    for bi, t in P.calls(key):
        if t["f"].get("fn", "").endswith("BitBoard::pop_unchecked"):
            gc = k2.guard_calls(k2.guards_of(P, key, bi))
            none = [v[0] for c, v in gc.items() if c.endswith("BitBoard::none")]
            if False not in none:
                out.append("MoveGen::next pops a destination set that was not tested non-empty on that path")
    return out


def inv_range(ctx):
    return [f"{x.rule}: {x.what[:160]}" for x in sub_rules(ctx, "C19", {"C19.R5", "C19.R1"})]


def inv_ptr(ctx):
    P = ctx.P
    key = MG + "iter::MoveGen::set_mask"
    body = P.body(key)
    c = cfg_of(body)
    out = []
    # no raw pointers at all (a safe rewrite with indices): nothing for this invariant to justify; the bounds checks are obligations of their own
    raw = any(t_["f"].get("fn", "").startswith("core::ptr::") for _, t_ in P.calls(key)) or any(
        blk["t"]["k"] == "assert" and blk["t"]["m"]["k"] in ("Misaligned", "NullDeref") for blk in body["blocks"])
    if not raw:
        return []
    loops = c.loops()
    if len(loops) != 1:
        return [f"set_mask has {len(loops)} loops"]
    h = list(loops)[0]
    bl = loops[h]
    # every raw deref (Misaligned / NullDeref asserts) sits inside the loop
    for bi, blk in enumerate(body["blocks"]):
        t = blk["t"]
        if t["k"] == "assert" and t["m"]["k"] in ("Misaligned", "NullDeref") and bi not in bl:
            out.append("a raw pointer is dereferenced outside the `while i < end` loop")
    # loop condition is Lt(i, end) with end = base.add(len)
    conds = []
    for x in bl:
        t = body["blocks"][x]["t"]
        if t["k"] == "switch" and any(s not in bl for s in c.succ[x]):
            conds.append(k2.describe_operand(P, body, t["d"]))
    guard = [d for d in conds if d[0] == "bin" and d[1] == "Lt" and d[2][0] == "place" and d[3][0] == "place" and d[2][2] == () and d[3][2] == ()]
    if len(guard) != 1:
        out.append(f"set_mask's loop is not guarded by a single `cursor < end` comparison of two pointer locals: {str(conds)[:120]}")
        return out
    cur_name, end_name = guard[0][2][1], guard[0][3][1]
    k2.EXPAND_NAMED[0] = True
    try:
        end_locals = [i for i, l in enumerate(body["locals"]) if l.get("n") == end_name and l["ty"].startswith("*")]
        ends = [k2.describe_def(P, body, kind, d) for kind, bi, d in k2.local_defs(body, end_locals[0])] if end_locals else []
    finally:
        k2.EXPAND_NAMED[0] = False
    if not (len(ends) == 1 and ends[0][0] == "call" and "::add" in ends[0][1] and "len" in str(ends[0][2][1])):
        out.append(f"the loop bound `{end_name}` is not base.add(moves.len()): {str(ends)[:120]}")
    # i and j advance by exactly one element; j only together with i
    adds = [(bi, t) for bi, t in P.calls(key) if "::add" in t["f"].get("fn", "") and "ptr" in t["f"].get("fn", "")]
    for bi, t in adds:
        if bi in bl and k2.describe_operand(P, body, t["a"][1]) != ("int", 1, "usize"):
            out.append("a pointer is advanced by something other than 1 inside the loop")
    return out


def inv_legal(ctx):
    P = ctx.P
    out = [f"{x.rule}: {x.what[:140]}" for x in sub_rules(ctx, "C02", {"C02.R6", "C02.R9"})]
    out += [f"{x.rule}: {x.what[:140]}" for x in sub_rules(ctx, "C11", {"C11.R1"})]
    LEG = "chess_movegen::iter::<impl chess_movegen::Board>::legals"
    # alphabeta call sites: the move comes from legals() of the board stored in args.old_board
    wr = k2.ab_wrappers(P)      # a private helper that hands its move parameter to alphabeta: its call sites are the sites to look at
    for k in [k for k in P.fns if k.startswith("chess_engine::Engine::") and "closure" not in k and "promoted" not in k and k not in wr]:
        body = P.body(k)
        for bi, t in P.calls(k):
            callee = T.strip_generics(t["f"].get("fn", ""))
            if (callee != "chess_engine::Engine::alphabeta" and callee not in wr) or len(t["a"]) < 3:
                continue
            mv = t["a"][wr[callee]["mv"] if callee in wr else 1]
            src = k2.origins(P, body, mv["p"]["l"]) if mv.get("k") in ("copy", "move") else set()

            def boards(os, depth=0):
                bs = set()
                for o in os:
                    if o[0] == "call" and o[1] == LEG:
                        bs |= {str(sorted(map(str, a))) for a in o[2]}
                    elif o[0] == "call" and depth < 5:
                        for a in o[2]:
                            bs |= boards(a, depth + 1)
                return bs
            gen_boards = boards(src)
            nexts = [o for o in src if o[0] == "call" and "Iterator>::next" in o[1]]
            other = [o for o in src if not (o[0] == "call" and "Iterator>::next" in o[1]) and not (o[0] == "const" and o[1].endswith("Option::None"))]
            # previous-best move of the same root is allowed (it was produced by the same origin set)
            if other:
                out.append(f"{k}: a move passed to alphabeta originates from {str(other)[:120]}")
            # args.old_board
            args_local = t["a"][2]["p"]["l"] if t["a"][2].get("k") in ("copy", "move") else None
            ob = set()
            for o in k2.origins(P, body, args_local) if args_local is not None else []:
                ob.add(str(o)[:200])
            if not gen_boards:
                out.append(f"{k}: the move passed to alphabeta is not drawn from a legals() generator")
    # perft_test is a test helper (out of scope)
    return out


def inv_promo(ctx):
    P = ctx.P
    key = f"<{MG}iter::MoveGen as core::iter::traits::iterator::Iterator>::next"
    out = []
    w = k2.writers_of_field(P, MG + "iter::MoveGen", "promotions")
    # stores: only PROMOTION_PIECES.iter() (in next) and constructors
    body = P.body(key)
    for bi, s in k2.assigns_to_field(P, key, MG + "iter::MoveGen", "promotions"):
        d = k2.describe_def(P, body, "stmt", s)
        if not (d[0] == "call" and d[1].endswith("::iter") and "PROMOTION_PIECES" in str(d[2]) or "static" in str(d)):
            ok = d[0] == "call" and "::iter" in d[1]
            if not ok:
                out.append(f"MoveGen::next stores {str(d)[:100]} into `promotions`")
    # the reset is guarded by len() == 0 right after the only next()
    nx = [bi for bi, t in P.calls(key) if "slice::iter::Iter" in t["f"].get("fn_args", "") and t["f"]["fn_args"].endswith("Iterator>::next")]
    if len(nx) != 1:
        out.append(f"{len(nx)} calls of promotions.next() (1 audited)")
    return out + [f"{x.rule}: {x.what[:120]}" for x in sub_rules(ctx, "C10", {"C10.R2"})]


def inv_partition(ctx):
    return [f"{x.rule}: {x.what[:160]}" for x in sub_rules(ctx, "C04", {"C04.R2", "C04.R7"})]


def inv_hasher(ctx):
    return [f"{x.rule}: {x.what[:160]}" for x in sub_rules(ctx, "C04", {"C04.R4", "C04.R5"})]


def inv_idx(ctx):
    P = ctx.P
    out = []
    MGN = MG + "iter::MoveGen"
    nk = f"<{MGN} as core::iter::traits::iterator::Iterator>::next"
    # writers of index: set_mask (0), next (+1 under index < len)
    w = k2.writers_of_field(P, MGN, "index")
    bad = sorted(set(w) - {MGN + "::set_mask", nk})
    if bad:
        out.append(f"MoveGen.index is written in {bad}")
    body = P.body(nk)
    for bi, s in k2.assigns_to_field(P, nk, MGN, "index"):
        gc = k2.guards_of(P, nk, bi)
        by_cmp = any(d[0] == "bin" and d[1] == "Ge" and "index" in str(d[2]) and taken == 0 for d, taken, _ in gc)
        # or: the entry was obtained with the checked `get`/`get_mut(self.index)` and the `?` continued (ControlFlow::Continue = discriminant 0)
        by_get = any(d[0] == "discr" and "Try>::branch" in str(d[1])[:200] and ("]>::get_mut::<usize>" in str(d[1]) or "]>::get::<usize>" in str(d[1])) and "'index'" in str(d[1]) and taken == 0
                     for d, taken, _ in gc)
        if not (by_cmp or by_get):
            out.append("MoveGen::next increments index on a path not guarded by index < len")
    # the list never shrinks
    for k, b in P.fns.items():
        if b["crate"] != "chess_movegen":
            continue
        for _, t in P.calls(k):
            fn = t["f"].get("fn", "")
            if "ArrayVec" in fn and any(fn.endswith("::" + m) for m in ("pop", "remove", "truncate", "clear", "drain", "swap_remove", "retain")):
                out.append(f"{k} shrinks a move list ({fn.rsplit('::', 1)[1]})")
    # remove_move: index from 0..len (C10.R8 allows only start 0; the end is moves.len())
    return out


def inv_checkmask(ctx):
    return [f"{x.rule}: {x.what[:160]}" for x in sub_rules(ctx, "C01", {"C01.R1"})]


def inv_dispatch(ctx):
    return [f"{x.rule}: {x.what[:160]}" for x in sub_rules(ctx, "C11", {"C11.R2"})]


def inv_constfrom(ctx):
    P = ctx.P
    out = []
    for ty, n in (("Pos", 64), ("File", 8), ("Rank", 8)):
        key = f"chess_bitboard::pos::{ty}::const_from_u8"
        for k, bi in P.callers().get(key, []):
            b = P.fns.get(k) or P.const_bodies.get(k)
            if b is None or b["blocks"][bi]["t"]["k"] != "call":
                continue
            if k in P.fns and const_only(P, k):
                continue            # evaluated by the compiler only: an out-of-range argument is a build error, not a run-time panic
            v, err = IV.analyse_fn(P, k, inline=True, max_states=8000) if k in P.fns else (None, "const")
            # the callee's panic site, seen from this caller with the callee inlined: safe iff no path reaches it
            if k in P.fns:
                eng = T.Engine(P)
                try:
                    rets, loops, panics = eng.paths(k)
                except T.NotTabulable:
                    out.append(f"{k}: cannot bound the argument of {ty}::const_from_u8")
                    continue
                for lf in panics:
                    if len(lf.ret) > 3 and lf.ret[3][0] == key:
                        Rg = IV.Ranges(P, P.body(k))
                        for t_, v_ in lf.cond:
                            Rg.assume(t_, v_)
                        if not Rg.infeasible():
                            out.append(f"{k} can call {ty}::const_from_u8 with an argument >= {n}")
    return out


INVARIANTS = {"INV-KING": inv_king, "INV-CAP": inv_cap, "INV-MAGIC": inv_magic, "INV-BOOK": inv_book, "INV-CR16": inv_cr16, "INV-NONEMPTY": inv_nonempty, "INV-RANGE": inv_range,
              "INV-PTR": inv_ptr, "INV-LEGAL": inv_legal, "INV-PROMO": inv_promo, "INV-PARTITION": inv_partition, "INV-HASHER": inv_hasher, "INV-IDX": inv_idx,
              "INV-CHECKMASK": inv_checkmask, "INV-DISPATCH": inv_dispatch, "INV-CONSTFROM": inv_constfrom}


# ------------------------------------------------------------------ parameter checkers (class C)
def chk_digits_bound(ctx):
    v = sub_rules(ctx, "C05", {"C05.R6"})
    return [x.what[:160] for x in v if "digits" in x.key]


def chk_parse_fen_bounds(ctx):
    P = ctx.P
    key = MG + "fen::parse_fen"
    body = P.body(key)
    c = cfg_of(body)
    out = []
    # the placement loop: region analysis with the loop-carried `file` bounded by the candidate invariant file <= 7 (checked inductively)
    eng = T.Engine(P, opaque={MG + "fen::parse_piece", "chess_bitboard::pos::Pos::new"})
    loops = [h for h, bl in c.loops().items() if any(body["blocks"][b]["t"]["k"] == "call" and body["blocks"][b]["t"]["f"].get("fn", "").endswith("fen::parse_piece") for b in bl)]
    if len(loops) != 1:
        return ["parse_fen: placement loop not found"]
    h = loops[0]
    bl = c.loops()[h]
    exits = {s for x in bl for s in c.succ[x] if s not in bl}
    leaves = eng.region(key, h, exits)
    names = {i: l.get("n") for i, l in enumerate(body["locals"])}
    file_locals = [i for i, n in names.items() if n == "file"]
    for lf in leaves:
        Rg = IV.Ranges(P, body)
        # candidate invariant at the loop head: file in [0, 7]
        for t_ in {s for c_, _ in lf.cond for s in subterms(c_)} | {s for v in lf.state.frames[0].locals.values() for s in subterms(v)}:
            if t_[0] == "loopvar" and t_[2][0] in file_locals:
                Rg.refine[t_] = (0, 7)
            if t_[0] == "vfield" and t_[2] == "Err" and "parse_piece" in str(t_[1])[:200]:
                Rg.refine[t_] = (1, 8)       # run digits: parse_piece maps '1'..'8' to 1..8 (C05.R1 "run digits")
        dead = False
        for t_, v_ in lf.cond:
            if t_[0] == "assert" and len(t_) > 3 and t_[3][0] == key and not dead:
                if Rg.assert_can_fail(t_[1], t_[2], v_):
                    out.append(f"parse_fen: {t_[1]} at block {t_[3][1]} not bounded under the invariant file <= 7: {T.show(t_[2])[:100]}")
            Rg.assume(t_, v_)
            dead = dead or Rg.infeasible()
        if lf.ret[0] == "panic" and not dead and len(lf.ret) > 3 and lf.ret[3][0] == key:
            out.append(f"parse_fen: a panic is reachable inside the placement loop: {lf.ret[1]}")
        if lf.ret[0] == "loopback" and not dead:
            # the invariant is re-established: the new value of `file` is within [0, 7]
            for i in file_locals:
                v = lf.state.frames[0].locals.get(i)
                if v is not None and v[0] != "init":
                    r = Rg.rng(eng.freeze(lf.state, v))
                    if r is None or r[0] < 0 or r[1] > 7:
                        out.append(f"parse_fen: loop invariant file <= 7 not re-established: file := {T.show(v)[:80]} in {r}")
    # the first `ranks.next().unwrap()` is on a fresh 8-element iterator; `File::from_u8(file).unwrap()` needs file <= 7 (the invariant).
    # `File::from_u8(byte - b'a').unwrap()` in the en-passant field: every such call must be guarded by comparisons that confine a byte to 'a'..='h'
    for bi, t_ in P.calls(key):
        if not t_["f"].get("fn", "").endswith("File::from_u8"):
            continue
        d = k2.describe_operand(P, body, t_["a"][0])
        x = d[1] if d[0] == "proj" else d
        if not (x[0] == "bin" and x[1].startswith("Sub") and x[3] == ("int", 97, "u8")):
            continue
        lo, hi = None, None
        for g_, taken, _ in k2.guards_of(P, key, bi):
            if g_[0] != "bin" or g_[1] not in ("Le", "Lt", "Ge", "Gt"):
                continue
            truth = taken != 0
            a_, b_ = g_[2], g_[3]
            op = g_[1]
            if a_[0] == "int" and b_[0] == "place":          # c op x  ->  x op' c
                a_, b_, op = b_, a_, {"Le": "Ge", "Lt": "Gt", "Ge": "Le", "Gt": "Lt"}[op]
            if not (a_[0] == "place" and b_[0] == "int"):
                continue
            if not truth:
                op = {"Le": "Gt", "Lt": "Ge", "Ge": "Lt", "Gt": "Le"}[op]
            c_ = b_[1]
            if op in ("Ge", "Gt"):
                lo = max(lo if lo is not None else 0, c_ + (1 if op == "Gt" else 0))
            else:
                hi = min(hi if hi is not None else 255, c_ - (1 if op == "Lt" else 0))
        if lo is None or hi is None or lo < 97 or hi > 104:
            out.append(f"parse_fen: File::from_u8(byte - b'a').unwrap() at block {bi} is not confined to 'a'..='h' by the comparisons in front of it (bounds found: {lo}..{hi})")
    return out


def chk_safe_files_two(ctx):
    P = ctx.P
    g = R.Geo(P)
    out = []
    br = P.value_u64s("chess_lookup::BACKRANK_BB")
    for nm in ("KINGSIDE_CASTLE_SAFE_FILES", "QUEENSIDE_CASTLE_SAFE_FILES"):
        v = P.value_u64s("chess_lookup::" + nm)[0]
        for b in br:
            if bin(v & b).count("1") != 2:
                out.append(f"{nm} & backrank has {bin(v & b).count('1')} squares, the debug assertion in king_legals expects 2")
    return out


def chk_allpositer(ctx):
    P = ctx.P
    w = k2.writers_of_field(P, "chess_bitboard::pos::AllPosIter", "pos")
    ok = set(w) <= {"<chess_bitboard::pos::AllPosIter as core::iter::traits::iterator::Iterator>::next"}
    cons = k2.constructors_of(P, "chess_bitboard::pos::AllPosIter")
    return [] if ok and set(cons) <= {"chess_bitboard::pos::Pos::all", "<chess_bitboard::pos::AllPosIter as core::clone::Clone>::clone"} else [f"AllPosIter.pos writers {sorted(w)}, constructors {sorted(cons)}"]


def chk_bmi2_gate(ctx):
    P = ctx.P
    feats = P.crates["chess_bitboard"]["cfg"]["target_features"]
    key = "<chess_bitboard::BitBoardIter as core::iter::traits::iterator::Iterator>::nth"
    return [] if (key not in P.fns or "bmi2" in feats) else ["the pdep fast path is compiled without the bmi2 target feature"]


def chk_const_only(ctx):
    P = ctx.P
    callers = {k for k, _ in P.callers().get("chess_engine::transpose", [])}
    return [f"transpose is called at run time from {sorted(callers)}"] if callers else []


def chk_engine_sums(ctx):
    P = ctx.P
    out = []
    # piece values and table entries are small constants: every integer constant in the three functions is below 2^16 and the tables are i8 / u8
    for fn in ("eval", "eval_endgame", "score_pieces"):
        b = P.body("chess_engine::Engine::" + fn)
        for blk in b["blocks"]:
            for s in blk["s"] + [blk["t"]]:
                for o in __import__("analysis.facts", fromlist=["x"]).walk_operands(s):
                    c = o.get("c") or {}
                    if o.get("k") == "const" and "int" in c and o.get("ty") in ("i32", "u32", "i64") and abs(int(c["int"])) > 65536:
                        out.append(f"Engine::{fn} uses the constant {c['int']}: the audited bound (sums far below 2^31) no longer obviously holds")
    for k, v in P.values.items():
        if v["crate"] == "chess_engine" and k.endswith("_MAP") and not v["ty"].startswith("[i8; 64]"):
            out.append(f"{k} has type {v['ty']}, audited as [i8; 64]")
    return out


def chk_zst_closure(ctx):
    P = ctx.P
    callers = [k for k, _ in P.callers().get("chess_api::ChessApi::new", [])]
    out = []
    for k in callers:
        b = P.body(k)
        for bi, t in P.calls(k):
            if t["f"].get("fn") == "chess_api::ChessApi::new":
                a = t["a"][0]
                d = k2.describe_operand(P, b, a)
                ty = a.get("ty") or a.get("p", {}).get("ty", "")
                # a closure aggregate with no captured operands is zero-sized
                ok = False
                if a.get("k") == "const" and "zst" in (a.get("c") or {}):
                    ok = True
                if d[0] == "agg" and d[1] == "closure" and not d[3]:
                    ok = True
                if not ok:
                    out.append(f"{k} passes {str(d)[:80]} to ChessApi::new: not evidently zero-sized")
    return out


CHECKS = {"digits_bound": chk_digits_bound, "parse_fen_bounds": chk_parse_fen_bounds, "safe_files_two": chk_safe_files_two, "allpositer_pos": chk_allpositer, "bmi2_gate": chk_bmi2_gate,
          "const_only": chk_const_only, "engine_sums": chk_engine_sums, "zst_closure": chk_zst_closure}


def load_ledger():
    with open(os.path.join(VERIF, "ledger", "C07.json")) as fh:
        return {e["key"]: e for e in json.load(fh)["entries"]}


@rule("C07.R1", "every obligation site is discharged (automatically, by a checked invariant, by an audited entry) or reported")
def r1(ctx):
    P = ctx.P
    sites = O.enumerate_sites(P)
    auto = auto_discharge(P, sites)
    ledger = load_ledger()
    checked = P.crates["chess_bitboard"]["cfg"].get("overflow_checks", True)
    ctx.floor("obligation sites enumerated", len(sites), 200 if checked else 100)
    n_unsafe_hir = sum(len([o for o in u["ops"] if not (o.get("callee", "") or "").startswith("core::fmt::")]) for u in P.unsafe_blocks
                       if u["crate"] in O.CORE and not O.GENERATED.search(u["fn"]) and not (u.get("exp") and all(o.get("callee", "").startswith("core::fmt::") for o in u["ops"])))
    n_unsafe = len([s for s in sites if s["kind"] == "unsafe"])
    ctx.ob("unsafe operations = HIR count", n_unsafe == n_unsafe_hir and n_unsafe >= 10, f"{n_unsafe} unsafe operations enumerated, HIR has {n_unsafe_hir}", sample={"unsafe_ops": n_unsafe})
    ctx.floor("automatically discharged sites", len(auto), 80 if checked else 20)
    classes = {}
    used_inv, used_chk = set(), set()
    matched = match_ledger(P, sites, auto, ledger)
    migrated = []
    for s in sites:
        if s["key"] in auto:
            classes.setdefault("A", []).append(s["key"])
            ctx.ob(f"A:{s['key']}", True, "", sample={"site": s["key"], "class": "A (intervals)", "span": s["span"]} if len(classes["A"]) <= 2 else None)
            continue
        e, how = matched.get(s["key"], (None, None))
        if e is None and s["kind"] != "unsafe" and const_only(P, s["fn"]):
            classes.setdefault("const", []).append(s["key"])
            ctx.ob(f"const:{s['key']}", True, "", sample={"site": s["key"], "class": "const fn reachable only from constant initialisers"} if len(classes["const"]) <= 1 else None)
            continue
        if e is None and (context_safe(P, s) or adaptor_safe(P, s)):
            classes.setdefault("A", []).append(s["key"])
            ctx.ob(f"A:{s['key']}", True, "", sample={"site": s["key"], "class": "A (intervals, in every calling context)"})
            continue
        if e is not None and how != "exact":
            migrated.append(f"{s['key']} <- {how}")
        if e is None:
            ctx.ob(f"UNDISCHARGED:{s['key']}", False, f"unchecked-operation obligation with no discharge: {s['kind']} {s['what']} in {s['fn']} "
                   f"({P.src_line(s['span']) if s.get('span') else ''}); the interval engine cannot bound it and the ledger has no entry", site=s.get("span"))
            continue
        classes.setdefault(e["class"], []).append(s["key"])
        if e["class"] == "B":
            used_inv.add(e["inv"])
        if e.get("check"):
            used_chk.add(e["check"])
        ctx.ob(f"{e['class']}:{s['key']}", True, "", sample={"site": s["key"], "class": e["class"], "by": e.get("inv") or e.get("check") or e.get("reason", "")[:60]} if len(classes[e["class"]]) <= 2 else None)
    # ledger entries whose site disappeared are vacuous (not a violation); report the count
    gone = [k for k in ledger if k not in {s["key"] for s in sites}]
    if gone:
        ctx.note(f"{len(gone)} ledger entries refer to sites that no longer exist (vacuous)")
    if migrated:
        ctx.note(f"{len(migrated)} ledger entries followed their site to a related function: " + "; ".join(migrated[:6]))
    ctx.note("classes: " + ", ".join(f"{k}={len(v)}" for k, v in sorted(classes.items())))
    for inv in sorted(used_inv):
        if ctx.shadow and inv in ("INV-BOOK", "INV-MAGIC", "INV-RANGE"):
            continue        # perturbation controls: the data-heavy invariants are exercised by their own properties' controls
        fn = INVARIANTS.get(inv)
        if fn is None:
            ctx.ob(inv, False, f"ledger names invariant {inv} but no checker exists")
            continue
        try:
            probs = fn(ctx)
        except AnchorError as e:
            probs = [f"unevaluable: {e}"]
        ctx.ob(inv, not probs, f"invariant {inv} (discharges {len([1 for e in ledger.values() if e.get('inv') == inv])} unchecked operations) no longer holds: {probs[:3]}",
               sample={"invariant": inv, "sites": len([1 for e in ledger.values() if e.get("inv") == inv])})
    for ck in sorted(used_chk):
        fn = CHECKS.get(ck)
        if fn is None:
            ctx.ob(f"check:{ck}", False, f"ledger names checker {ck} which does not exist")
            continue
        try:
            probs = fn(ctx)
        except AnchorError as e:
            probs = [f"unevaluable: {e}"]
        ctx.ob(f"check:{ck}", not probs, f"audited bound `{ck}` no longer holds: {probs[:3]}", sample={"checker": ck})


def reachable_fns(P, roots):
    """Workspace functions statically reachable from the roots (resolved callees, closures included by prefix)."""
    seen, todo = set(), [r for r in roots if r in P.fns]
    while todo:
        k = todo.pop()
        if k in seen:
            continue
        seen.add(k)
        for _, t in P.calls(k):
            f = t["f"].get("fn")
            if f in P.fns and f not in seen:
                todo.append(f)
        for k2_ in P.fns:
            if k2_.startswith(k + "::{closure") and k2_ not in seen:
                todo.append(k2_)
    return seen


def discharge_subset(ctx, roots, tag):
    """The obligation ledger restricted to the call graph below `roots`: returns (sites, problems)."""
    P = ctx.P
    fns = reachable_fns(P, roots)
    sites = [s for s in O.enumerate_sites(P) if s["fn"] in fns]
    auto = auto_discharge(P, sites, tag)
    ledger = load_ledger()
    all_sites = O.enumerate_sites(P)
    matched = match_ledger(P, sites, auto, ledger, all_sites)
    probs, inv, chk = [], set(), set()
    for s in sites:
        if s["key"] in auto:
            continue
        e = matched.get(s["key"], (None, None))[0]
        if e is None and s["kind"] != "unsafe" and const_only(P, s["fn"]):
            continue
        if e is None and (context_safe(P, s) or adaptor_safe(P, s)):
            continue
        if e is None:
            probs.append(f"undischarged {s['kind']} {s['what']} in {s['fn']}")
            continue
        if e["class"] == "B":
            inv.add(e["inv"])
        if e.get("check"):
            chk.add(e["check"])
    for name, table in [(i, INVARIANTS) for i in sorted(inv)] + [(c, CHECKS) for c in sorted(chk)]:
        fn = table.get(name)
        try:
            r = fn(ctx) if fn else [f"no checker {name}"]
        except AnchorError as e:
            r = [f"unevaluable: {e}"]
        if r:
            probs.append(f"{name}: {r[0]}")
    return sites, fns, probs



@rule("C07.W", "type-level: compile-fail witnesses with compiling twins (K6; thorough tier)")
def rw(ctx):
    from analysis import witness
    if ctx.config != "ws":
        return
    witness.check(ctx, {'c07_move_unchecked_is_unsafe': 'Board::move_unchecked is callable from safe code', 'c07_pop_unchecked_is_unsafe': 'BitBoard::pop_unchecked is callable from safe code', 'c07_piece_of_unchecked_is_unsafe': 'RawBoard::piece_of_unchecked is callable from safe code'})


rw.thorough_only = True

# ------------------------------------------------------------------ controls
def _cap17(P):
    a = P.own("adts", MG + "iter::MoveGen")
    for f in a["variants"][0]["fields"]:
        if f["name"] == "moves":
            f["ty"] = f["ty"].replace(", 18>", ", 17>")


def _new_site(P):
    # an extra unchecked subtraction in BitBoard::count: a new Assert terminator
    b = P.own("fns", "chess_bitboard::BitBoard::any")
    b["blocks"].append({"s": [], "t": {"k": "assert", "c": {"k": "copy", "p": {"l": 1, "pj": [], "ty": "bool"}}, "e": True,
                                         "m": {"k": "Overflow", "op": "Sub", "a": {"k": "copy", "p": {"l": 1, "pj": [], "ty": "u8"}}, "b": {"k": "copy", "p": {"l": 1, "pj": [], "ty": "u8"}}},
                                         "t": 0, "u": "continue", "sp": "chess-bitboard/src/lib.rs:1:1"}})
    b["blocks"][0], b["blocks"][-1] = b["blocks"][-1], b["blocks"][0]
    b["blocks"][0]["t"]["t"] = len(b["blocks"]) - 1


def _digits5(P):
    b = P.own("fns", MG + "fen::parse_number")
    for blk in b["blocks"]:
        for s in blk["s"]:
            r = s.get("r", {})
            if r.get("k") == "agg" and r.get("adt") == "core::ops::range::Range":
                r["ops"][1]["c"]["int"] = r["ops"][1]["c"]["bits"] = "5"


CONTROLS = [
    ("move list capacity 17", "C07.R1", _cap17),
    ("a new unchecked arithmetic site", "C07.R1", _new_site),
    ("parse_number reads 5 digits", "C07.R1", _digits5),
]
