"""C17 - every opening-book line is a legal game."""
import sys
from analysis.runner import rule
from analysis.facts import AnchorError
from analysis import terms as T, k2
from analysis.cfg import cfg_of
from analysis import chessref as R

THOROUGH_CONFIGS = ['release', 'nobmi2', 'movegen-alone']
LEVEL = "proof"
EXHAUSTIVE = True
DECIDED = ("The decoder BookMovesIter::next is extracted from MIR as a 4-case summary (read BOOK[index]; 0 ends the list; otherwise read BOOK[index-1], yield a move "
           "with children index-2 and continue at index-(offset+1) if that does not underflow). The checker walks the WHOLE embedded table with that extracted summary "
           "from INITIAL_BOOOK_MOVES (and from EMPTY_BOOK_MOVES): R1 every index read is inside the table, every link is strictly decreasing (so every traversal "
           "terminates), no arithmetic on the walk overflows, no unwrap fails; R2 IntoIterator/constants plumb the indices through unchanged; R3 every one of the "
           "edges, replayed from the standard position on the checker's reference rules, is a legal move and not a pawn reaching the last rank.")
DECIDED = DECIDED + " R4 the root cursor of the book is handed out only on paths that established 'no board given' (the board then is Board::standard()) or equality of the WHOLE board with Board::standard() (edge dominance in the consumer's CFG)."
DECIDED = DECIDED + ' R90 premises re-run here: C02 C02.R1, C02.R6, C02.R8, C02.R9; C01 C01.R1, C01.R2, C01.R3, C01.R5; C09 C09.R1.'
NOT_DECIDED = "nothing of the statement; trusted: the reference rules in analysis/chessref.py (perft-checked to depth 4 in selftest) and the K4 extractor"
EXPLANATION = ("Constant data + extracted summary: the BOOK words are the compiler's evaluation of the static; the traversal is driven by the decoder's own summary evaluated on "
               "concrete indices (evaluation of the summary, not of the program), so a change of either the data or the decoder is followed faithfully.")
TRUSTED_BASE = ["rustc nightly const evaluator + MIR builder", "chessfacts serialiser", "analysis/terms.py", "analysis/chessref.py reference rules (200 lines)"]

BOOK = "chess_lookup::lichess_book::BOOK"
ITER = "<chess_lookup::BookMovesIter as core::iter::traits::iterator::Iterator>::next"
FROM_U8 = "chess_bitboard::pos::Pos::from_u8"


class Walker:
    def __init__(self, ctx):
        P = self.P = ctx.P
        ctx.used_static(BOOK), ctx.used_body(ITER)
        self.book = P.value_ints(BOOK, 2)
        self.eng = T.Engine(P, opaque={FROM_U8})
        self.leaves = self.eng.tabulate(ITER, keep_panics=True)
        self.g = R.Geo(P)
        pos_adt = self.g.pos_key
        self.pos_by_discr = {d: n for n, d in P.enum_variants(pos_adt)}
        self.pos_adt = pos_adt
        # Pos::from_u8 through its own extracted table
        e2 = T.Engine(P)
        self.from_u8_leaves = e2.tabulate(FROM_U8, keep_panics=True)
        self.e2 = e2
        self.from_u8_memo = {}
        self.slf = ("param", 0, "self")
        self.oob = None

    def resolver(self, name, args):
        if "get_unchecked" in name:
            base, idx = args[0], args[1]
            if not T.is_const(idx):
                return None
            if not (0 <= idx[1] < len(self.book)):
                self.oob = idx[1]
                return ("refv", ("oob", idx[1]))
            return ("refv", T.I(self.book[idx[1]], "u16"))
        if name.endswith("checked_sub"):
            a, b = args
            if T.is_const(a) and T.is_const(b):
                return T._opt_some(T.I(a[1] - b[1], a[2])) if a[1] >= b[1] else T.OPT_NONE
            return None
        if name == FROM_U8:
            v = args[0]
            if not T.is_const(v):
                return None
            if v[1] not in self.from_u8_memo:
                self.from_u8_memo[v[1]] = T.eval_table(self.e2, self.from_u8_leaves, {("param", 0, "a0"): v})
            return self.from_u8_memo[v[1]]
        return None

    def step(self, index):
        """Evaluate the decoder summary at a concrete index: ('end',) | ('move', src, dst, child, next) | ('bad', why)."""
        self.oob = None
        obj = ("obj", self.slf)
        env = {("field", obj, "index"): T.I(index, "usize"), "__apps__": self.resolver}
        lf, why = T.select_leaf(self.eng, self.leaves, env)
        if lf is None:
            return ("bad", f"decoder summary not a function at index {index}: {why}")
        if why is not None:
            return ("bad", f"panic at index {index}: {why[1]}")
        if self.oob is not None:
            return ("bad", f"table read out of range at {self.oob} (from index {index})")
        if lf.ret[0] == "panic":
            return ("bad", f"panic at index {index}: {lf.ret[1]} {lf.ret[2]}")
        ret = T.concretize(self.eng, lf.ret, env)
        if self.oob is not None:
            return ("bad", f"table read out of range at {self.oob} (from index {index})")
        if ret == T.OPT_NONE:
            return ("end",)
        if not (ret[0] == "adt" and ret[2] == "Some"):
            return ("bad", f"unexpected result {T.show(ret)[:120]} at index {index}")
        mv = ret[3][0]
        names = [f["name"] for f in self.P.adt("chess_lookup::BookMove")["variants"][0]["fields"]]
        d = dict(zip(names, mv[3]))
        for k in ("source", "dest"):
            if d[k][0] == "panic":
                return ("bad", f"square decode fails at index {index}")
        child = d["children"][3][0]
        final = self.eng.freeze(lf.state, lf.ext.get(self.slf, ("obj", self.slf)))
        nxt = T.concretize(self.eng, T.get_path(final, (("f", 0, "index", None),)), env)
        if not (T.is_const(child) and T.is_const(nxt)):
            return ("bad", f"indices not concrete at {index}: child {T.show(child)}, next {T.show(nxt)}")
        return ("move", d["source"][2], d["dest"][2], child[1], nxt[1])


def const_index(P, key):
    v = P.value(key)
    val = v.get("val", {})
    if "bits" in val:
        return int(val["bits"])
    raise AnchorError(f"{key} is not a scalar constant")


@rule("C17.R2", "constants and IntoIterator pass the node index through unchanged")
def r2(ctx):
    P = ctx.P
    n = len(P.value_ints(BOOK, 2))
    size = const_index(P, "chess_lookup::lichess_book::BOOK_SIZE")
    ctx.ob("BOOK_SIZE", size == n, f"BOOK_SIZE = {size} but BOOK has {n} words", sample={"BOOK_SIZE": size})
    root = const_index(P, "chess_lookup::INITIAL_BOOOK_MOVES")
    ctx.ob("root index", root == n - 1, f"INITIAL_BOOOK_MOVES.index = {root}, expected BOOK_SIZE-1 = {n-1}", sample={"root": root})
    empty = const_index(P, "chess_lookup::EMPTY_BOOK_MOVES")
    ctx.ob("empty index", empty == 0, f"EMPTY_BOOK_MOVES.index = {empty}, expected 0", sample={"empty": empty})
    key = "<chess_lookup::BookMoves as core::iter::traits::collect::IntoIterator>::into_iter"
    ctx.used_body(key)
    lv = T.Engine(P).tabulate(key)
    want = ("adt", "chess_lookup::BookMovesIter", "BookMovesIter", (("field", ("param", 0, "self"), "index"),))
    ctx.ob("into_iter", len(lv) == 1 and lv[0].ret == want, f"BookMoves::into_iter returns {[T.show(l.ret) for l in lv]}", site=P.body(key).get("def_span"), sample=T.show(want))
    for adt, fld in (("chess_lookup::BookMoves", "index"), ("chess_lookup::BookMovesIter", "index")):
        f = [x for x in P.adt(adt)["variants"][0]["fields"] if x["name"] == fld]
        ctx.ob(f"{adt.rsplit('::',1)[1]}.index private", bool(f) and f[0]["vis"] != "pub", f"{adt}.{fld} is public: callers could start a traversal at an arbitrary index")


@rule("C17.R5", "the book cursor overrides no Iterator method beyond the audited next")
def r5_overrides(ctx):
    new = k2.unaudited_overrides(ctx.P, ["chess_lookup::BookMovesIter"])
    ctx.ob("no unaudited Iterator override", not new, f"BookMovesIter now overrides {new}: R1 (every traversal stays inside the table) reads `next` only", sample={"audited": ["next"]})


@rule("C17.R1", "structure: every traversal stays inside the table, links strictly decrease, nothing panics")
def r1(ctx):
    walk(ctx, legality=False)


@rule("C17.R3", "every book edge is a legal move needing no promotion choice (replayed from the standard position)")
def r3(ctx):
    walk(ctx, legality=True)


_WALK = {}


def walk(ctx, legality):
    P = ctx.P
    memo_key = (id(P), ctx.shadow)
    if memo_key not in _WALK:
        _WALK[memo_key] = do_walk(ctx)
    res = _WALK[memo_key]
    if not legality:
        ctx.bulk("book structure", res["nodes"] + res["edges"], res["structure_bad"], "opening-book table structure", sample={"nodes": res["nodes"], "edges": res["edges"], "max_depth": res["depth"]})
        ctx.floor("book nodes reached from the root", res["nodes"], 29000)
        ctx.ob("empty book", res["empty_ok"], f"iterating EMPTY_BOOK_MOVES: {res['empty_why']}", sample={"yields": 0})
    else:
        ctx.bulk("book legality", res["edges"], res["legality_bad"], "opening-book move is not legal", sample={"edges": res["edges"], "first_line": res["sample_line"]})
        ctx.floor("book edges replayed", res["edges"], 29000)


def do_walk(ctx):
    w = Walker(ctx)
    g = w.g
    n = len(w.book)
    root = const_index(ctx.P, "chess_lookup::INITIAL_BOOOK_MOVES")
    structure_bad, legality_bad = [], []
    nodes = edges = depth = 0
    sample_line = None
    name_to_coord = {nm: g.coord[d] for d, nm in w.pos_by_discr.items()}
    sys.setrecursionlimit(10000)
    seen_nodes = set()
    stack = [(root, R.start_position(), 0, [])]
    step_memo = {}
    while stack:
        index, pos, dep, line = stack.pop()
        nodes += 1
        depth = max(depth, dep)
        cur = index
        guard = 0
        while True:
            guard += 1
            if guard > n + 2:
                structure_bad.append((f"node {index}", f"sibling list starting at {index} does not terminate"))
                break
            r = step_memo.get(cur)
            if r is None:
                r = step_memo[cur] = w.step(cur)
            if r[0] == "end":
                break
            if r[0] == "bad":
                structure_bad.append((f"index {cur}", r[1]))
                break
            _, src, dst, child, nxt = r
            edges += 1
            if not (child < cur and nxt < cur):
                structure_bad.append((f"index {cur}", f"links do not decrease at {cur}: child {child}, next {nxt}"))
                break
            s, d = name_to_coord[src], name_to_coord[dst]
            ok, promo = R.is_legal(pos, s, d)
            txt = line + [f"{src.lower()}{dst.lower()}"]
            if not ok:
                if len(legality_bad) < 10:
                    legality_bad.append((f"index {cur}", f"book line {' '.join(txt)}: the last move is illegal in the position reached"))
            elif promo:
                legality_bad.append((f"index {cur}", f"book line {' '.join(txt)}: the last move is a promotion and carries no piece"))
            else:
                if sample_line is None and dep == 3:
                    sample_line = " ".join(txt)
                stack.append((child, R.apply_move(pos, s, d), dep + 1, txt))
            cur = nxt
        if len(structure_bad) > 20:
            break
    r0 = w.step(0)
    return {"nodes": nodes, "edges": edges, "depth": depth, "structure_bad": structure_bad, "legality_bad": legality_bad, "sample_line": sample_line,
            "empty_ok": r0 == ("end",), "empty_why": r0}



@rule("C17.R4", "the root of the book is handed out only for the standard position")
def r4(ctx):
    """The book lines are legal games *from the standard start* (R3); a consumer that starts them on any other board breaks that. Every use of the
    root cursor outside chess-lookup must be guarded by 'no board was given' (the board then defaults to Board::standard()) or by equality with
    Board::standard() of the WHOLE board (side to move and castling rights included)."""
    P = ctx.P
    from analysis.facts import walk_operands
    ROOT = "chess_lookup::INITIAL_BOOOK_MOVES"
    uses = []
    for k, b in P.fns.items():
        if b["crate"] in ("chess_lookup", "chess_lookup_generator") or "::promoted[" in k:
            continue
        for bi, blk in enumerate(b["blocks"]):
            for s in blk["s"] + [blk["t"]]:
                if any(o.get("k") == "const" and o.get("from") == ROOT for o in walk_operands(s)):
                    uses.append((k, bi))
    if not any(b["crate"].startswith("chess_cli") for b in P.fns.values()):
        ctx.note("chess_cli is not part of this configuration: no consumer of the book to examine")
        return
    ctx.floor("uses of the root book cursor", len(uses), 1)
    for k, bi in uses:
        ctx.used_body(k)
        body = P.body(k)
        c = cfg_of(body)
        # edges that mean "the board is the standard position": the None arm of a switch on the Option<Board> (any borrow/copy of it), the true
        # edge of Option::is_none / the false edge of is_some, the true edge of Board == Board::standard() on the whole board
        good_edges = []
        for si, blk in enumerate(body["blocks"]):
            t_ = blk["t"]
            if t_["k"] != "switch":
                continue
            d = k2.describe_operand(P, body, t_["d"])
            tgts = {int(v): b_ for v, b_ in t_["tg"]}
            x = d[1] if d[0] == "discr" else None
            while isinstance(x, tuple) and x and x[0] in ("ref", "proj"):
                x = x[1]
            if x is not None and x[0] == "place" and x[2] == ():
                tys = [l["ty"] for l in body["locals"] if l.get("n") == x[1]]
                if tys and tys[0].replace("&", "").strip().startswith("core::option::Option<chess_movegen::Board>"):
                    good_edges.append((si, tgts[0] if 0 in tgts else (t_["o"] if set(tgts) == {1} else None)))
            if d[0] == "call" and d[1].startswith("core::option::Option::<chess_movegen::Board>::is_none"):
                good_edges.append((si, t_["o"] if 0 in tgts else None))
            if d[0] == "call" and d[1].startswith("core::option::Option::<chess_movegen::Board>::is_some"):
                good_edges.append((si, tgts.get(0)))
            if d[0] == "call" and d[1] == "<chess_movegen::Board as core::cmp::PartialEq>::eq" and "Board::standard" in str(d):
                good_edges.append((si, t_["o"] if 0 in tgts else None))
        good_edges = [(s_, t2) for s_, t2 in good_edges if t2 is not None]

        def reachable_without(edges):
            seen, todo = set(), [0]
            while todo:
                x_ = todo.pop()
                if x_ in seen:
                    continue
                seen.add(x_)
                for y_ in c.succ[x_]:
                    if (x_, y_) not in edges:
                        todo.append(y_)
            return seen
        ok = bool(good_edges) and bi not in reachable_without(set(good_edges))
        ctx.ob(f"root book use in {T.short(k)[:40]}", ok, f"{k} can start a book traversal at the root on a path that did not establish 'no board given' or board == Board::standard() "
               "(comparing piece placement alone lets a start array with Black to move, or without castling rights, into the book)", site=body.get("def_span"), sample={"guard_edges": len(good_edges)})


@rule("C17.W", "type-level: compile-fail witnesses with compiling twins (K6; thorough tier)")
def rw(ctx):
    from analysis import witness
    if ctx.config != "ws":
        return
    witness.check(ctx, {'c17_book_cursor_unforgeable': 'a book cursor can be created at an arbitrary index of the packed array'})


rw.thorough_only = True

@rule("C17.R90", 'premises shared with other properties: C02 (C02.R1, C02.R6, C02.R8, C02.R9); C01 (C01.R1, C01.R2, C01.R3, C01.R5); C09 (C09.R1)')
def r_premises_shared(ctx):
    """This property's argument rests on these rules of other properties (what it calls is assumed to behave); they are re-run here so that a
    breakage of one of them is reported by this property's own check as well."""
    from analysis.runner import premise
    premise(ctx, 'C02', ['C02.R1', 'C02.R6', 'C02.R8', 'C02.R9'] and set(['C02.R1', 'C02.R6', 'C02.R8', 'C02.R9']), 'the CLI replays book lines through the checked move API; its legality gate / make-move helpers no longer follow the rules')
    premise(ctx, 'C01', ['C01.R1', 'C01.R2', 'C01.R3', 'C01.R5'] and set(['C01.R1', 'C01.R2', 'C01.R3', 'C01.R5']), 'a book move must be in the generated move list of the position reached; the list is no longer exactly the legal moves')
    premise(ctx, 'C09', ['C09.R1'] and set(['C09.R1']), 'the generator reads these geometry tables; one of them no longer equals its definition')


# ------------------------------------------------------------------ controls
def _word(i, f):
    def m(P):
        v = P.own("values", BOOK)
        b = bytearray(bytes.fromhex(v["hex"]))
        w = int.from_bytes(b[2 * i:2 * i + 2], "little")
        b[2 * i:2 * i + 2] = f(w).to_bytes(2, "little")
        v["hex"] = b.hex()
    return m


def _root(P):
    v = P.own("values", "chess_lookup::INITIAL_BOOOK_MOVES")
    v["val"] = dict(v["val"])
    v["val"]["bits"] = str(int(v["val"]["bits"]) + 1)


CONTROLS = [
    ("one move word changed (destination square +1)", "C17.R3", _word(87202, lambda w: w + 64)),
    ("one link word enlarged past the table start", "C17.R1", _word(87203, lambda w: 65535)),
    ("root index one past the table", "C17.R1", _root),
]
