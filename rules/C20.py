"""C20 - per-thread tracing override is isolated from other threads."""
import re
from analysis.runner import rule
from analysis.facts import AnchorError, walk_operands
from analysis import terms as T

THOROUGH_CONFIGS = ['release', 'nobmi2', 'engine-alone']
LEVEL = "other"
DECIDED = ("R1 the override is stored in a thread_local LocalKey<Cell<LocalFlag>> (per-thread by type) and the global flag is one AtomicBool static; "
           "R2 is_enabled reads the local flag first: Global -> the atomic load of the global flag, Enabled -> true, Disabled -> false; "
           "R3 effect tables of every public function: enable/disable/toggle write the caller's own override then perform exactly the stated atomic "
           "operation on the global flag; local_* / local_take / restore touch only the caller's thread-local cell (local_toggle: Global->Global, "
           "Enabled->Disabled, Disabled->Enabled; local_take leaves LocalFlag::default() == Global; restore stores the saved flag); no other body in the "
           "workspace references either storage item, and closures passed to LocalKey::with do not return a reference; "
           "R4 every public function performs at most one atomic operation on the global flag on any path, and toggle is a single read-modify-write, "
           "so interleavings at operation granularity are complete.")
DECIDED = DECIDED + ' R5 a saved override cannot leave its thread: LocalEnableState has a field whose type is !Send by the auto-trait rules over its structure (&T with T !Sync, raw pointers, Rc, guards), and no explicit Send/Sync impl.'
NOT_DECIDED = ("nothing is executed under a scheduler: the argument is that another thread can reach a thread's override only through the thread_local key, "
               "which the type system makes per-thread; memory-ordering arguments (Release/Acquire) are not part of the property and are not checked")
EXPLANATION = ("All clauses are structural. Effect tables come from K4 propagation with models for LocalKey::with, Cell::{get,set,take} and the atomic "
               "operations (recorded as an ordered trace per path); who-references rules scan every MIR body of the workspace for the two storage items.")
ASSUMPTIONS = ["std::thread_local!/LocalKey gives each thread its own value (std's contract)", "AtomicBool operations are individually atomic"]

TE = "tracing_enabled::"
LOCAL = TE + "LOCAL_ENABLED"
GLOBAL = TE + "IS_ENABLED"
FLAG = TE + "LocalFlag"


def flag(v):
    return ("adt", FLAG, v, ())


def is_tls_cell(ref):
    return ref[0] == "ref" and ref[1][0] == "ext" and ref[1][1][0] == "tls_value" and ("const", LOCAL) in flatten(ref[1][1])


def is_global(ref):
    return ref == ("ref", ("ext", ("static", GLOBAL), ()))


def flatten(t):
    out = []
    if isinstance(t, tuple):
        out.append(t)
        for x in t:
            out.extend(flatten(x))
    return out


def effects(ctx, name):
    P = ctx.P
    key = TE + name
    ctx.used_body(key)
    eng = T.Engine(P)
    leaves = eng.tabulate(key)
    rows = []
    for lf in leaves:
        pre, gcase, pcase = None, None, None
        for t, v in lf.cond:
            if t[0] == "discr" and t[1][0] == "cell_value":
                pre = v
            elif t[0] == "atomic_result" and t[1] == "load":
                gcase = v            # the path depends on the value just loaded from the global flag
            elif t[0] == "discr" and t[1] == ("field", ("param", 0, "a0"), "flag"):
                pcase = v            # the path depends on the saved flag passed to restore
            else:
                raise AnchorError(f"{key}: branches on {T.show(t)}, which is neither the local override, the loaded global flag nor the saved flag")
        writes, atomics, reads = [], [], []
        for tr in lf.trace:
            if tr[0] in ("cell_set", "cell_take", "cell_get", "cell_replace"):
                if not is_tls_cell(tr[1]):
                    raise AnchorError(f"{key}: Cell operation on something other than LOCAL_ENABLED: {tr[1]}")
                if tr[0] in ("cell_set", "cell_replace"):
                    writes.append(tr[2])
                elif tr[0] == "cell_take":
                    writes.append(("default",))
                else:
                    reads.append("get")
            elif tr[0] == "atomic":
                if not is_global(tr[2]):
                    raise AnchorError(f"{key}: atomic operation on something other than IS_ENABLED: {tr[2]}")
                atomics.append((tr[1], tr[3] if len(tr) > 4 else None))
        rows.append({"pre": pre, "gcase": gcase, "pcase": pcase, "writes": writes, "atomics": atomics, "ret": lf.ret, "trace": lf.trace})
    return rows, P.body(key).get("def_span")


@rule("C20.R1", "storage kinds: thread_local LocalKey<Cell<LocalFlag>> and one AtomicBool static")
def r1(ctx):
    P = ctx.P
    lv = P.value(LOCAL)
    ctx.used_static(LOCAL), ctx.used_static(GLOBAL)
    ctx.ob("LOCAL_ENABLED type", lv["ty"] == f"std::thread::local::LocalKey<core::cell::Cell<{FLAG}>>",
           f"LOCAL_ENABLED has type {lv['ty']}: the override is not a thread-local Cell<LocalFlag>", site=lv.get("span"), sample=lv["ty"])
    gv = P.value(GLOBAL)
    ctx.ob("IS_ENABLED type", gv["kind"] == "static" and gv["ty"] in ("core::sync::atomic::Atomic<bool>", "core::sync::atomic::AtomicBool") and not gv.get("mut"),
           f"IS_ENABLED is `{gv['kind']} {gv['ty']}`", site=gv.get("span"), sample=gv["ty"])
    # the thread-local's initial value and LocalFlag::default()
    init = T.Engine(P).eval_closed(T.State(), LOCAL + "::__RUST_STD_INTERNAL_INIT") if (LOCAL + "::__RUST_STD_INTERNAL_INIT") in P.const_bodies else None
    if init is not None:
        ctx.ob("initial override", init == ("adt", "core::cell::Cell", "Cell", (flag("Global"),)), f"a new thread starts with override {T.show(init)}, expected Global (inherit)",
               sample=T.show(init))
    d = T.Engine(P).tabulate(f"<{FLAG} as core::default::Default>::default")
    ctx.ob("LocalFlag::default", len(d) == 1 and d[0].ret == flag("Global"), f"LocalFlag::default() is {[T.show(x.ret) for x in d]}, expected Global", sample="Global")
    adt = P.adt(FLAG)
    ctx.ob("LocalFlag variants", sorted(v["name"] for v in adt["variants"]) == ["Disabled", "Enabled", "Global"], "LocalFlag is not the tri-state Global/Enabled/Disabled",
           sample=[v["name"] for v in adt["variants"]])


@rule("C20.R2", "is_enabled: local override first, the global flag only when the override is Global")
def r2(ctx):
    rows, site = effects(ctx, "is_enabled")
    for r in rows:
        ctx.ob(f"is_enabled[{r['pre']},{r['gcase']}] no writes", not r["writes"] and all(a[0] == "load" for a in r["atomics"]), "is_enabled modifies state", site=site)
    # evaluate the extracted summary on the 3 x 2 state space (override, global flag)
    for local in ("Global", "Enabled", "Disabled"):
        for g in (0, 1):
            hit = [r for r in rows if r["pre"] in (None, local) and (r["gcase"] is None or int(bool(r["gcase"])) == g)]
            if len(hit) != 1:
                raise AnchorError(f"is_enabled: {len(hit)} paths for override {local}, global {g}")
            ret = hit[0]["ret"]
            if ret[0] == "atomic_result" and ret[1] == "load":
                val = bool(g)
            elif ret[0] == "int":
                val = bool(ret[1])
            else:
                raise AnchorError(f"is_enabled returns {T.show(ret)}")
            want = {"Global": bool(g), "Enabled": True, "Disabled": False}[local]
            ctx.ob(f"is_enabled[{local},global={g}]", val == want, f"is_enabled with override {local} and global flag {bool(g)} yields {val}, expected {want}"
                   + (" (an own override must win over the global setting)" if local != "Global" else ""), site=site, sample={f"{local},{g}": val})


WANT = {
    # name: (local write table pre->post or constant, atomic op)
    "enable": ({None: "Enabled"}, ("store", 1)),
    "disable": ({None: "Disabled"}, ("store", 0)),
    "toggle": ({"Global": "Global", "Enabled": "Disabled", "Disabled": "Enabled"}, ("fetch_xor", 1)),
    "local_enable": ({None: "Enabled"}, None),
    "local_disable": ({None: "Disabled"}, None),
    "local_toggle": ({"Global": "Global", "Enabled": "Disabled", "Disabled": "Enabled"}, None),
}


@rule("C20.R3", "effect tables of the public operations; nobody else touches the two storage items")
def r3(ctx):
    P = ctx.P
    for name, (table, atomic) in WANT.items():
        rows, site = effects(ctx, name)
        for r in rows:
            want_post = table.get(r["pre"], table.get(None))
            # no write leaves the override as it was (only decidable when the path knows what it was)
            post = r["writes"][-1] if r["writes"] else (flag(r["pre"]) if r["pre"] is not None else None)
            ok = post == flag(want_post) and len(r["writes"]) <= 1
            ctx.ob(f"{name}[{r['pre']}] local", ok, f"{name} (override {r['pre']}) leaves the local override {T.show(post) if post else 'untouched'}, expected {want_post}",
                   site=site, sample={"pre": r["pre"], "post": T.show(post) if post else None})
            if atomic is None:
                ctx.ob(f"{name}[{r['pre']}] global untouched", not r["atomics"], f"{name} performs {r['atomics']} on the global flag; a thread-local operation must not", site=site)
            else:
                ops = [(op, v[1] if v and v[0] == "int" else None) for op, v in r["atomics"]]
                ctx.ob(f"{name}[{r['pre']}] global", ops == [atomic], f"{name} performs {ops} on the global flag, expected exactly [{atomic}]", site=site,
                       sample={"atomic": ops})
        if len(table) == 3:
            ctx.floor(f"{name}: override cases", len(rows), 3)
    rows, site = effects(ctx, "local_take")
    for r in rows:
        ret = r["ret"]
        # Cell::take, or Cell::replace(default value): both hand out the old override and leave LocalFlag::default() (checked Global in R1)
        ok = r["writes"] in ([("default",)], [flag("Global")]) and not r["atomics"] and ret[0] == "adt" and ret[3][0][0] == "cell_value"
        ctx.ob("local_take", ok, f"local_take: writes {r['writes']}, atomics {r['atomics']}, returns {T.show(ret)}; expected Cell::take of the override", site=site,
               sample={"returns": T.show(ret)})
    rows, site = effects(ctx, "restore")
    for saved in ("Global", "Enabled", "Disabled"):
        hit = [r for r in rows if r["pcase"] in (None, saved) and r["pre"] is None]
        if len(hit) != 1:
            raise AnchorError(f"restore: {len(hit)} paths for saved flag {saved}")
        r = hit[0]
        ok = r["writes"] in ([("field", ("param", 0, "a0"), "flag")], [flag(saved)]) and not r["atomics"]
        ctx.ob(f"restore[{saved}]", ok, f"restore of a saved {saved} writes {[T.show(w) for w in r['writes']] or 'nothing'} / {r['atomics']}; expected exactly the saved flag "
               f"(whatever the override currently is)", site=site, sample={"saved": saved, "writes": [T.show(w) for w in r["writes"]]})

    # who-references: every body in the workspace
    allowed_global = {TE + n for n in ("enable", "disable", "toggle", "is_enabled")}
    allowed_local = {TE + n for n in ("local_enable", "local_disable", "local_toggle", "local_take", "restore", "is_enabled")}
    users_g, users_l = set(), set()
    for k, b in list(P.fns.items()) + list(P.const_bodies.items()):
        if k.startswith(LOCAL) or k.startswith(GLOBAL):
            continue
        for blk in b["blocks"]:
            for o in walk_operands(blk):
                if o.get("k") != "const":
                    continue
                c = o.get("c") or {}
                tgt = c.get("ptr", {}) if isinstance(c.get("ptr"), dict) else {}
                if tgt.get("static") == GLOBAL:
                    users_g.add(b.get("owner", k))
                if o.get("from") == LOCAL or o.get("uneval") == LOCAL:
                    users_l.add(b.get("owner", k))
    callers = P.callers()

    def via_allowed(k, allowed, depth=0):
        """an allowed function, or a non-public helper called only from such functions (its effect is analysed inlined there)"""
        if k in allowed:
            return True
        if depth > 3 or P.fns.get(k, {}).get("vis") == "pub":
            return False
        cs = {c_ for c_, _ in callers.get(k, [])}
        return bool(cs) and all(via_allowed(c_, allowed, depth + 1) for c_ in cs)
    stray_g = {k for k in users_g if not via_allowed(k, allowed_global)}
    stray_l = {k for k in users_l if not via_allowed(k, allowed_local)}
    ctx.ob("who-references IS_ENABLED", not stray_g and len(users_g) >= 1, f"IS_ENABLED is referenced by {sorted(stray_g)} besides enable/disable/toggle/is_enabled",
           sample=sorted(users_g))
    ctx.ob("who-references LOCAL_ENABLED", not stray_l and len(users_l) >= 1, f"LOCAL_ENABLED is referenced by {sorted(stray_l)} besides the local_* functions",
           sample=sorted(users_l))
    # every use of the key is LocalKey::with with a non-reference result
    n = 0
    for k in sorted(users_l):
        for _, t in P.calls(k):
            fa = t["f"].get("fn_args", "")
            if "LocalKey" in fa:
                n += 1
                r_ty = fa.rsplit(", ", 1)[-1].rstrip(">")
                # `with` handing out no reference, or the by-value Cell accessors of LocalKey<Cell<T>> (get / set / take / replace)
                ok = ("::with::<" in fa and not r_ty.startswith("&") and "*" not in r_ty) or bool(re.search(r"LocalKey::<core::cell::Cell<[^>]*>>::(get|set|take|replace)$", fa))
                ctx.ob(f"with-call in {k.rsplit('::',1)[1]}", ok, f"{k} accesses the thread-local through {fa[:120]}", site=t.get("sp"), sample={"result type": r_ty})
    ctx.floor("LocalKey::with call sites", n, max(1, len(users_l)))


@rule("C20.R4", "at most one atomic operation per public function and path; toggle is one read-modify-write")
def r4(ctx):
    P = ctx.P
    pubs = [k for k, b in P.fns.items() if b["crate"] == "tracing_enabled" and b.get("vis") == "pub" and b["kind"] == "fn"]
    ctx.floor("public functions", len(pubs), 9)
    for k in pubs:
        rows, site = effects(ctx, k[len(TE):])
        mx = max(len(r["atomics"]) for r in rows)
        ctx.ob(f"{k[len(TE):]} atomics<=1", mx <= 1, f"{k} performs {mx} atomic operations on one path: not atomic at operation granularity", site=site,
               sample={"max atomic ops on a path": mx})
    rows, site = effects(ctx, "toggle")
    ctx.ob("toggle is RMW", all([a[0] for a in r["atomics"]] == ["fetch_xor"] for r in rows), "toggle is not a single fetch_xor (a load+store pair can lose a concurrent update)", site=site)


NOT_SYNC_ADTS = ("core::cell::Cell", "core::cell::RefCell", "core::cell::UnsafeCell", "core::cell::OnceCell", "alloc::rc::Rc", "alloc::rc::Weak")
NOT_SEND_ADTS = ("alloc::rc::Rc", "alloc::rc::Weak", "std::sync::mutex::MutexGuard", "std::sync::poison::mutex::MutexGuard", "std::sync::rwlock::RwLockReadGuard", "std::sync::rwlock::RwLockWriteGuard")


def _not_auto(tj, which):
    """the auto-trait rules over a type's structure: True if the type is certainly !Send (which='send') / !Sync (which='sync')"""
    k = tj.get("k")
    if k in ("ptr", "rawptr"):
        return True
    if k == "ref":
        inner = tj.get("to") or {}
        # &T: Send iff T: Sync; &mut T: Send iff T: Send; &T / &mut T: Sync iff T: Sync
        return _not_auto(inner, "sync") if (which == "sync" or not tj.get("mut")) else _not_auto(inner, "send")
    if k == "adt":
        a = tj.get("adt", "")
        if which == "sync" and a in NOT_SYNC_ADTS:
            return True
        if which == "send" and a in NOT_SEND_ADTS:
            return True
        return any(_not_auto(x, which) for x in tj.get("args", []) if isinstance(x, dict) and x.get("k") not in ("const",))
    if k == "tuple":
        return any(_not_auto(x, which) for x in tj.get("of", []))
    if k == "array":
        return _not_auto(tj.get("of") or {}, which)
    return False


@rule("C20.R5", "a saved override cannot leave its thread: LocalEnableState is !Send by the structure of its fields")
def r5(ctx):
    """restore() writes the saved value into the *calling* thread's override; a saved state that could be moved to another thread would
    overwrite that thread's override with this one's. The type keeps it home through a marker field (auto-trait rules over the field types)."""
    P = ctx.P
    a = P.adt(TE + "LocalEnableState")
    fs = a["variants"][0]["fields"]
    pinned = [f["name"] for f in fs if _not_auto(f.get("tj") or {}, "send")]
    has_unsafe_send = any(i.get("self") == TE + "LocalEnableState" and i.get("trait") in ("core::marker::Send", "core::marker::Sync") for i in P.impls)
    ctx.ob("LocalEnableState !Send", bool(pinned) and not has_unsafe_send, f"LocalEnableState has no field whose type is !Send (fields: {[(f['name'], f['ty']) for f in fs]})"
           + ("; and an explicit Send/Sync impl" if has_unsafe_send else "") + ": a saved override can be moved to another thread and restored there",
           site=a.get("span"), sample={"marker fields": pinned})


@rule("C20.W", "type-level: compile-fail witnesses with compiling twins (K6; thorough tier)")
def rw(ctx):
    from analysis import witness
    if ctx.config != "ws":
        return
    witness.check(ctx, {'c20_local_private': 'the thread-local override is reachable from other crates', 'c20_global_private': 'the global flag is reachable from other crates', 'c20_saved_state_not_send': 'a saved override can be moved to another thread', 'c20_saved_state_unforgeable': 'a saved override can be forged'})


rw.thorough_only = True


def _toggle_load_store(P):
    b = P.own("fns", TE + "toggle")
    for blk in b["blocks"]:
        t = blk["t"]
        if t["k"] == "call" and "fetch_xor" in t["f"].get("fn", ""):
            t["f"]["fn"] = t["f"]["fn"].replace("fetch_xor", "store")
            t["f"]["fn_args"] = t["f"]["fn_args"].replace("fetch_xor", "store")


def _local_toggle_stuck(P):
    b = P.own("fns", TE + "local_toggle::{closure#0}")
    for blk in b["blocks"]:
        for s in blk["s"]:
            r = s.get("r", {})
            if r.get("k") == "agg" and r.get("vn") == "Disabled":
                r["vn"] = "Enabled"


def _is_enabled_swapped(P):
    b = P.own("fns", TE + "is_enabled")
    for blk in b["blocks"]:
        for s in blk["s"]:
            o = s.get("r", {}).get("o", {})
            if o.get("k") == "const" and o.get("ty") == "bool":
                o["c"]["int"] = "1" if o["c"]["int"] == "0" else "0"
                o["c"]["bits"] = o["c"]["int"]


def _local_disable_global(P):
    # local_disable also stores to the global flag: copy disable's body
    src = P.body(TE + "disable")
    b = P.own("fns", TE + "local_disable")
    import copy
    b["blocks"] = copy.deepcopy(src["blocks"])
    b["locals"] = copy.deepcopy(src["locals"])


CONTROLS = [
    ("toggle = store instead of fetch_xor", "C20.R4", _toggle_load_store),
    ("local_toggle Enabled->Enabled", "C20.R3", _local_toggle_stuck),
    ("is_enabled swaps true/false", "C20.R2", _is_enabled_swapped),
    ("local_disable also writes the global flag", "C20.R3", _local_disable_global),
]
