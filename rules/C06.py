"""C06 - FEN parsing is total and admits only playable positions."""
from analysis.runner import rule
from analysis.facts import AnchorError
from analysis import terms as T, k2
from analysis import chessref as R
from analysis.cfg import cfg_of
from analysis.effects import subterms, strip_casts

THOROUGH_CONFIGS = ['release', 'nobmi2', 'engine-alone']
LEVEL = "other"
DECIDED = ("R2 every successful return of parse_fen and BoardBuilder::build is dominated by the success edge of Board::validate, and Board's fields are private; "
           "R3 validate succeeds only on paths that passed every stated check: exactly one king per side (has_kings is count==2 and one of each colour), at most 16 pieces for "
           "BOTH colours, the en-passant check, the castling check, and the side not to move not attacked (is_legal_king_position of the flipped board at its king square); "
           "R4 the castling check requires, for each right present, the rook of that colour on a1/h1/a8/h8 and, for each colour with a right, its king on e1/e8 (all six guards "
           "present on every accepting path); R5 the en-passant check requires the square behind the pawn empty and an OPPONENT PAWN on the double-step rank of the marker's file "
           "(ranks: White to move 6th/5th, Black to move 3rd/4th); R6 FromStr for Board goes through parse_fen only. "
           "Panic-freedom of the parser (R1) is the C07 obligation set restricted to parse_fen's call tree and is reported there.")
DECIDED = DECIDED + " R7 totality: every panic / assert / unsafe site in the call tree of parse_fen, from_str and BoardBuilder::build is discharged (the C07 ledger restricted to that tree); R8 the predicates the castling check branches on, CastleRights::contains(side, colour) and contains_color(colour), equal their definitions (bit = side + 2*colour) on all 16 right sets; R3's piece-count bound is decided by evaluating the accepting path's conditions on all (white, black) counts in 0..=20."
NOT_DECIDED = ("'every canonical FEN of a legally reachable position is accepted' (needs the parser's loop semantics on actual strings); the accepting structure is checked, "
               "not the accepted language")
EXPLANATION = ("K4: each validator is tabulated with its helpers opaque; an accepting (Ok) leaf's path condition is the conjunction the validator demands, so every stated "
               "invariant must appear in it with the right square/piece/colour constants. K2: dominance of the success edge over the Ok-building blocks.")

MG = "chess_movegen::"
VALIDATE = MG + "Board::validate"
V_EP = MG + "Board::validate_en_passant"
V_CR = MG + "Board::validate_castle_rights"
HAS_KINGS = MG + "raw::RawBoard::has_kings"
LEGAL_KING = MG + "iter::pieces::<impl chess_movegen::Board>::is_legal_king_position"
KING_SQ = MG + "Board::king_sq"
GET = MG + "raw::RawBoard::get"
COLOR, PIECE, POS = "chess_bitboard::color::Color", "chess_bitboard::piece::Piece", "chess_bitboard::pos::Pos"
slf = ("obj", ("param", 0, "self"))


def cadt(adt, name):
    return ("adt", adt, name, ())


@rule("C06.R2", "validate's success edge dominates every Ok(board); Board fields are private")
def r2(ctx):
    P = ctx.P
    for key in (MG + "fen::parse_fen", MG + "BoardBuilder::build"):
        ctx.used_body(key)
        body = P.body(key)
        oks = k2.result_blocks(body, "Ok")
        calls = k2.call_sites(P, key, VALIDATE)
        ctx.floor(f"{key.rsplit('::',1)[1]}: validate calls", len(calls), 1)
        for ob in oks:
            ok = any(k2.success_edge_dominates(body, cb, "Ok", ob) for cb, _ in calls)
            ctx.ob(f"{key.rsplit('::',1)[1]} Ok@{oks.index(ob)}", ok, f"{key} can return Ok(board) on a path that did not pass Board::validate successfully", site=body.get("def_span"),
                   sample={"ok_block": ob, "validate_calls": [b for b, _ in calls]})
        ctx.floor(f"{key.rsplit('::',1)[1]}: Ok returns", len(oks), 1)
    adt = P.adt(MG + "Board")
    pub = [f["name"] for f in adt["variants"][0]["fields"] if f["vis"] == "pub"]
    ctx.ob("Board fields private", not pub, f"Board has public fields {pub}: a board can be assembled without validation", sample={"fields": len(adt['variants'][0]['fields'])})
    # who-may-construct Board
    cons = k2.constructors_of(P, MG + "Board")
    allowed = {MG + "Board::builder", MG + "Board::standard", MG + "fen::parse_fen"}
    def can_leak(k):
        """the function returns a Board (or something containing one) or can store one through a `&mut` parameter"""
        b_ = P.fns[k]
        rt = b_["locals"][0]["ty"]
        outs = [rt] + [l["ty"] for l in b_["locals"][1:b_["argc"] + 1] if l["ty"].startswith("&mut")]
        return any("chess_movegen::Board" in ty_ for ty_ in outs)
    from analysis.facts import walk_operands

    def literal_escapes(k):
        """a Board literal built in `k` flows to the return value, through a `&mut` parameter, or by value into a call"""
        b_ = P.fns[k]
        lits = {s["p"]["l"] for blk in b_["blocks"] for s in blk["s"] if s["k"] == "assign" and s.get("r", {}).get("k") == "agg" and s["r"].get("adt") == MG + "Board" and not s["p"]["pj"]}
        mut_params = {i + 1 for i in range(b_["argc"]) if b_["locals"][i + 1]["ty"].startswith("&mut")}
        tainted = set(lits)
        for _ in range(4):
            for blk in b_["blocks"]:
                for s in blk["s"]:
                    if s["k"] != "assign":
                        continue
                    uses = {o["p"]["l"] for o in walk_operands(s) if o.get("k") in ("copy", "move")}
                    if s.get("r", {}).get("k") == "ref" and s["r"].get("bk") == "mut" and s["r"]["p"]["l"] in tainted:
                        uses.add(s["r"]["p"]["l"])
                    if uses & tainted:
                        if s["p"]["l"] == 0 or (s["p"]["l"] in mut_params and s["p"]["pj"]):
                            return True
                        if not s["p"]["pj"]:
                            tainted.add(s["p"]["l"])
                t_ = blk["t"]
                if t_["k"] == "call" and any(a.get("k") in ("copy", "move") and a["p"]["l"] in tainted for a in t_["a"]):
                    return True
        return False
    extra = sorted(k for k in set(cons) - allowed if can_leak(k) and literal_escapes(k))
    ctx.ob("who-may-construct Board", not extra, f"Board literals are built in {extra} besides builder(), standard() and parse_fen", sample=sorted(cons))


@rule("C06.R3", "validate accepts only when every stated invariant was checked")
def r3(ctx):
    P = ctx.P
    g = R.Geo(P)
    ctx.used_body(VALIDATE)
    eng = T.Engine(P, opaque={HAS_KINGS, V_EP, V_CR, LEGAL_KING, KING_SQ})
    leaves = eng.tabulate(VALIDATE)
    site = P.body(VALIDATE).get("def_span")
    oks = [lf for lf in leaves if lf.ret[0] == "adt" and lf.ret[2] == "Ok"]
    ctx.floor("validate accepting paths", len(oks), 1)
    W, B = g.color[0], g.color[1]
    for i, lf in enumerate(oks):
        conds = lf.cond
        have = {"kings": False, "count_white": None, "count_black": None, "ep": False, "castle": False, "opp_check": False}
        turn = lf.known.get(("field", slf, "turn"))
        for t, v in conds:
            if t[0] == "app" and t[1] == HAS_KINGS and v == 1 and t[2][0] == ("refv", ("field", slf, "raw")):
                have["kings"] = True
            pass
            if t == ("discr", ("app", V_EP, (("refv", slf),))) and v == "Ok":
                have["ep"] = True
            if t == ("discr", ("app", V_CR, (("refv", slf),))) and v == "Ok":
                have["castle"] = True
            if t[0] == "app" and t[1] == LEGAL_KING and v == 1 and turn:
                opp = "Black" if turn == "White" else "White"
                flipped = ("upd", slf, (("f", 1, "turn", None),), cadt(COLOR, opp))
                b_arg = t[2][0]
                b_val = b_arg[1] if b_arg[0] == "refv" else b_arg
                same_board = b_val[0] == "upd" and b_val[1] == slf and len(b_val[2]) == 1 and b_val[2][0][2] == "turn" and b_val[3] == cadt(COLOR, opp)
                if b_val[0] == "adt" and b_val[1] == MG + "Board":
                    # `Board { turn: !self.turn, ..*self }`: every other field is this board's own
                    names = [f["name"] for f in P.adt(MG + "Board")["variants"][0]["fields"]]
                    same_board = len(names) == len(b_val[3]) and all(
                        (fv == cadt(COLOR, opp)) if nm == "turn" else (fv == ("field", slf, nm)) for nm, fv in zip(names, b_val[3]))
                k_arg = t[2][1]
                king_ok = k_arg[0] == "app" and k_arg[1] == KING_SQ and k_arg[2][1] == cadt(COLOR, opp)
                have["opp_check"] = same_board and king_ok
        # piece-count bound, decided by evaluating the path's conditions on the two counts for every (white, black) in 0..=20 x 0..=20
        cnt = lambda cd: ("count_ones", ("field", ("index", ("field", ("field", slf, "raw"), "colors"), T.I(cd, "usize")), "0"))
        cw_t, cb_t = cnt(W), cnt(B)
        rel = [c for c in conds if c[0][0] != "assert" and any(s_ in (cw_t, cb_t) for s_ in subterms(c[0]))]
        acc = set()
        for cw in range(21):
            for cb in range(21):
                env = {cw_t: T.I(cw, "u32"), cb_t: T.I(cb, "u32")}
                hs = [T.cond_holds(eng, c, env) for c in rel]
                if any(h is None for h in hs):
                    raise AnchorError("validate(): a condition on the piece counts cannot be evaluated")
                if all(hs):
                    acc.add((cw, cb))
        have["count_white"] = max((a for a, _ in acc), default=None) if rel else None
        have["count_black"] = max((b for _, b in acc), default=None) if rel else None
        if rel and acc != {(a, b) for a in range(17) for b in range(17)}:
            have["count_white"] = have["count_white"] if have["count_white"] != 16 else "16 but not independently of Black's count"
        label = f"accept[{turn}]#{i}"
        ctx.ob(f"{label} kings", have["kings"], "validate() can accept a board without checking has_kings()", site=site)
        ctx.ob(f"{label} piece count white", have["count_white"] == 16, f"validate() accepts up to {have['count_white']} white pieces (no bound if None); the move list assumes at most 16", site=site,
               sample={"max_white": have["count_white"]})
        ctx.ob(f"{label} piece count black", have["count_black"] == 16, f"validate() accepts up to {have['count_black']} black pieces (no bound if None); the move list assumes at most 16", site=site,
               sample={"max_black": have["count_black"]})
        ctx.ob(f"{label} en passant", have["ep"], "validate() can accept without validate_en_passant() succeeding", site=site)
        ctx.ob(f"{label} castling", have["castle"], "validate() can accept without validate_castle_rights() succeeding", site=site)
        ctx.ob(f"{label} opponent not in check", have["opp_check"], "validate() can accept a position in which the side NOT to move is in check (its king could be captured)", site=site,
               sample={"guard": "is_legal_king_position(board with turn flipped, its king square)"})
    # has_kings itself
    ctx.used_body(HAS_KINGS)
    lv = T.Engine(P).tabulate(HAS_KINGS)
    K = g.piece["King"]
    raw = ("obj", ("param", 0, "self"))
    kings = ("field", ("index", ("field", raw, "pieces"), T.I(K, "usize")), "0")
    col = lambda c: ("field", ("index", ("field", raw, "colors"), T.I(c, "usize")), "0")
    e2 = T.Engine(P)
    cnt = lambda w: ("cast", "u8", ("count_ones", w))
    want = {e2.binop("Eq", cnt(kings), T.I(2, "u8")), e2.binop("Eq", cnt(e2.binop("BitAnd", kings, col(W))), T.I(1, "u8")), e2.binop("Eq", cnt(e2.binop("BitAnd", kings, col(B))), T.I(1, "u8"))}
    true_paths = [lf for lf in lv if lf.ret != T.FALSE]
    got = set()
    for lf in true_paths:
        got |= {t for t, v in lf.cond if v == 1 and t[0] == "bin"}
        if lf.ret != T.TRUE:
            got.add(lf.ret)
    ctx.ob("has_kings", len(true_paths) == 1 and got == want, f"has_kings is true under {[T.show(x)[:90] for x in got]}; expected count(kings)==2, count(kings&white)==1, count(kings&black)==1",
           site=P.body(HAS_KINGS).get("def_span"), sample=[T.show(x)[:80] for x in want])


CASTLE_SPEC = {("Queen", "White"): "A1", ("King", "White"): "H1", ("Queen", "Black"): "A8", ("King", "Black"): "H8"}
KING_SPEC = {"White": "E1", "Black": "E8"}


@rule("C06.R4", "castling check: every right demands its rook and king on their home squares")
def r4(ctx):
    P = ctx.P
    CONTAINS, CONTAINS_C = MG + "castle_rights::CastleRights::contains", MG + "castle_rights::CastleRights::contains_color"
    ctx.used_body(V_CR)
    eng = T.Engine(P, opaque={CONTAINS, CONTAINS_C, GET})
    leaves = eng.tabulate(V_CR)
    site = P.body(V_CR).get("def_span")
    oks = [lf for lf in leaves if lf.ret[0] == "adt" and lf.ret[2] == "Ok"]
    ctx.floor("castling check accepting paths", len(oks), 1)
    cr = ("field", slf, "castle_rights")

    def piece_test(t):
        """eq(Some((colour, piece)), get(raw, SQ)) -> (square, colour, piece) (either operand order, with or without Not)."""
        neg = False
        if t[0] == "un" and t[1] == "Not":
            t, neg = t[2], True
        if t[0] != "eq":
            return None
        for a, b in ((t[1], t[2]), (t[2], t[1])):
            if a[0] == "adt" and a[2] == "Some" and a[3][0][0] == "tuple" and b[0] == "app" and b[1] == GET:
                c, p = a[3][0][1]
                sq = b[2][1]
                if c[0] == "adt" and p[0] == "adt" and sq[0] == "adt" and b[2][0] == ("refv", ("field", slf, "raw")):
                    return sq[2], c[2], p[2], neg
        return None

    missing = {}
    wrong = {}
    for lf in oks:
        rights, colours, tests = {}, {}, {}
        for t, v in lf.cond:
            if t[0] == "app" and t[1] == CONTAINS and t[2][0] == cr:
                rights[(t[2][1][2], t[2][2][2])] = v
            elif t[0] == "app" and t[1] == CONTAINS_C and t[2][0] == cr:
                colours[t[2][1][2]] = v
            else:
                pt = piece_test(t)
                if pt:
                    sq, c, p, neg = pt
                    holds = (v == 0) if neg else (v == 1)
                    if holds:
                        tests[(sq, c, p)] = True
        for key, sq in CASTLE_SPEC.items():
            if key not in rights:
                missing[f"guard:({key[0]},{key[1]})->{sq}"] = f"the right ({key[0]}, {key[1]}) is never examined on an accepting path"
            elif rights[key] == 1 and (sq, key[1], "Rook") not in tests:
                wrong[f"guard:({key[0]},{key[1]})->{sq}"] = f"the right ({key[0]}, {key[1]}) is accepted without a {key[1]} rook on {sq} (tests on that path: {sorted(tests)})"
        for c, sq in KING_SPEC.items():
            if c not in colours:
                missing[f"guard:{c}->king {sq}"] = f"whether {c} holds any right is never examined on an accepting path"
            elif colours[c] == 1 and (sq, c, "King") not in tests:
                wrong[f"guard:{c}->king {sq}"] = f"a {c} castling right is accepted without the {c} king on {sq}"
    for key, sq in CASTLE_SPEC.items():
        k = f"guard:({key[0]},{key[1]})->{sq}"
        ctx.ob(k, k not in missing and k not in wrong, f"castling validation: {missing.get(k) or wrong.get(k)}", site=site, sample={"right": key, "rook_square": sq})
    for c, sq in KING_SPEC.items():
        k = f"guard:{c}->king {sq}"
        ctx.ob(k, k not in missing and k not in wrong, f"castling validation: {missing.get(k) or wrong.get(k)}", site=site, sample={"colour": c, "king_square": sq})


@rule("C06.R8", "castling-right predicates: contains(side, colour) tests that right's bit; contains_color(colour) tests exactly that colour's two rights")
def r8(ctx):
    """The two predicates validate_castle_rights branches on (opaque in R4), evaluated over all 16 right sets."""
    P = ctx.P
    g = R.Geo(P)
    CONTAINS, CONTAINS_C = MG + "castle_rights::CastleRights::contains", MG + "castle_rights::CastleRights::contains_color"
    colours = dict(P.enum_variants(COLOR))
    sides = dict(P.enum_variants("chess_bitboard::side::Side"))
    bit = lambda s, c: 1 << (g.side["K" if s == "King" else "Q"] + 2 * g.color[0 if c == "White" else 1])
    word = ("field", ("param", 0, "self"), "0")
    for key, params, spec in ((CONTAINS, ("side", "colour"), lambda r, s, c: bool(r & bit(s, c))),
                              (CONTAINS_C, ("colour",), lambda r, c: bool(r & (bit("King", c) | bit("Queen", c))))):
        ctx.used_body(key)
        body = P.body(key)
        eng = T.Engine(P)
        lv = eng.tabulate(key)
        prm = [("param", i, body["locals"][i + 1]["n"]) for i in range(body["argc"])]
        types = [body["locals"][i + 1]["ty"] for i in range(body["argc"])]
        doms = []
        for ty in types[1:]:
            doms.append(list((sides if ty.endswith("Side") else colours).items()))
        bad, n = [], 0
        import itertools
        for r in range(16):
            for combo in itertools.product(*doms):
                env = {word: T.I(r, "u8")}
                for p_, (nm, d) in zip(prm[1:], combo):
                    env[("discr", p_)] = T.I(d, "isize")
                    env[p_] = ("adt", types[prm.index(p_)], nm, ())
                res = T.eval_table(eng, lv, env)
                n += 1
                names = [nm for nm, _ in combo]
                want = spec(r, *names)
                got = bool(res[1]) if T.is_const(res) else None
                if got != want:
                    bad.append((f"{r:04b},{','.join(names)}", f"{key.rsplit('::', 1)[1]}({', '.join(names)}) on rights {r:04b} is {got}, expected {want}"))
        ctx.bulk(f"{key.rsplit('::', 1)[1]} truth table", n, bad, "castling-right predicate differs from its definition (bit = side + 2*colour)", sample={"cells": n})


EP_RANKS = {"White": ("_6", "_5"), "Black": ("_3", "_4")}


@rule("C06.R5", "en-passant check: empty target square, opponent pawn on the double-step rank of the same file")
def r5(ctx):
    P = ctx.P
    g = R.Geo(P)
    NEW = "chess_bitboard::pos::Pos::new"
    ctx.used_body(V_EP)
    eng = T.Engine(P, opaque={GET, NEW})
    leaves = eng.tabulate(V_EP)
    site = P.body(V_EP).get("def_span")
    oks = [lf for lf in leaves if lf.ret[0] == "adt" and lf.ret[2] == "Ok"]
    ep = ("field", slf, "enpassant_target")
    cd = {d: n for n, d in P.enum_variants(COLOR)}
    seen = set()
    for lf in oks:
        marker = lf.known.get(ep)
        if marker == "None":
            seen.add(("None", None))
            continue
        turn = lf.known.get(("field", slf, "turn"))
        seen.add((marker, turn))
        cap_rank, pawn_rank = EP_RANKS.get(turn, ("?", "?"))
        sq = lambda rank: ("app", NEW, (cadt("chess_bitboard::pos::File", marker), cadt("chess_bitboard::pos::Rank", rank)))
        get = lambda rank: ("app", GET, (("refv", ("field", slf, "raw")), sq(rank)))
        target_empty = (("discr", get(cap_rank)), "None") in lf.cond
        pawn_there = (("discr", get(pawn_rank)), "Some") in lf.cond
        payload = ("vfield", get(pawn_rank), "Some", 0)
        colour_ok, piece_ok = False, False
        for t, v in lf.cond:
            # colour test: discr(colour) compared with the mover's discriminant, must come out "different"
            if t[0] == "bin" and t[1] in ("Eq", "Ne") and t[2] == ("discr", ("field", payload, 0)) and T.is_const(t[3]):
                same = (v == 1) if t[1] == "Eq" else (v == 0)
                if cd.get(t[3][1]) == turn and not same:
                    colour_ok = True
                if cd.get(t[3][1]) not in (turn, None) and same:
                    colour_ok = True
            inner_c, neg_c = (t[2], True) if (t[0] == "un" and t[1] == "Not") else (t, False)
            if inner_c[0] == "eq" and set((inner_c[1], inner_c[2])) == {("field", payload, 0), ("field", slf, "turn")} and ((v == 1) if neg_c else (v == 0)):
                colour_ok = True
            if t == ("discr", ("field", payload, 1)) and v == "Pawn":
                piece_ok = True
            if t == ("discr", ("field", payload, 0)) and isinstance(v, str) and v in ("White", "Black") and v != turn:
                colour_ok = True
            inner, neg = (t[2], True) if (t[0] == "un" and t[1] == "Not") else (t, False)
            if inner[0] == "eq" and set((inner[1], inner[2])) == {cadt(PIECE, "Pawn"), ("field", payload, 1)}:
                piece_ok |= (v == 0) if neg else (v == 1)
        label = f"accept[{marker},{turn}]"
        ctx.ob(f"{label} target empty", target_empty, f"en-passant marker on file {marker} ({turn} to move) is accepted without the target square ({marker}{cap_rank}) being empty", site=site)
        ctx.ob(f"{label} pawn present", pawn_there, f"en-passant marker on file {marker} ({turn} to move) is accepted without a piece on {marker}{pawn_rank}", site=site)
        ctx.ob(f"{label} opponent's", colour_ok, f"en-passant marker on file {marker} ({turn} to move) is accepted without checking that the piece on {marker}{pawn_rank} belongs to the opponent", site=site,
               sample={"marker": marker, "turn": turn, "pawn_square": f"{marker}{pawn_rank}"} if marker == "D" else None)
        ctx.ob(f"{label} is a pawn", piece_ok, f"en-passant marker on file {marker} ({turn} to move) is accepted without checking that the piece on {marker}{pawn_rank} is a pawn", site=site)
    want = {(f, t) for f in R.FILES for t in ("White", "Black")} | {("None", None)}
    ctx.ob("en-passant cases covered", seen == want, f"accepting paths cover markers x turns {sorted(map(str, seen))[:6]}..; expected all 8 files x 2 turns and None", site=site, sample={"cases": len(seen)})


@rule("C06.R6", "entry points: FromStr for Board is parse_fen; untrusted callers go through it")
def r6(ctx):
    P = ctx.P
    key = f"<{MG}Board as core::str::traits::FromStr>::from_str"
    ctx.used_body(key)
    calls = [t["f"].get("fn") for _, t in P.calls(key) if t["f"].get("k") == "fnref"]
    ws = [c for c in calls if c.startswith("chess_")]
    ctx.ob("FromStr for Board", ws == [MG + "fen::parse_fen"], f"Board::from_str calls {ws}; expected parse_fen only", site=P.body(key).get("def_span"), sample=ws)
    # wasm entry point (absent from single-package configurations)
    if "chess_wasm" not in P.crates:
        ctx.note("chess_wasm not part of this configuration")
        return
    hits = [k for k in P.fns if k.startswith("chess_wasm::") and "new_game_from_fen" in k and "::promoted" not in k and "{closure" not in k]
    ok = False
    for k in hits:
        for _, t in P.calls(k):
            fa = t["f"].get("fn_args", "") + t["f"].get("fn", "")
            if "parse::<chess_movegen::Board>" in fa or fa.endswith("fen::parse_fen") or "Board as core::str::traits::FromStr" in fa:
                ok = True
    ctx.ob("wasm new_game_from_fen", ok, f"chess_wasm new_game_from_fen ({hits[:2]}) does not parse through str::parse::<Board>/parse_fen", sample=hits[:2])


# ------------------------------------------------------------------ controls
@rule("C06.R7", "totality: every panic / assert / unsafe site reachable from parse_fen and BoardBuilder::build is discharged")
def r7(ctx):
    from rules import C07
    P = ctx.P
    roots = [f"<{MG}Board as core::str::traits::FromStr>::from_str", MG + "fen::parse_fen", MG + "BoardBuilder::build"]
    for r in roots:
        P.body(r)
    sites, fns, probs = C07.discharge_subset(ctx, roots, "C06")
    ctx.floor("functions reachable from the parser and the builder", len(fns), 15)
    checked = P.crates["chess_bitboard"]["cfg"].get("overflow_checks", True)
    ctx.floor("obligation sites below parse_fen / build", len(sites), 25 if checked else 10)
    ctx.bulk("parser/builder obligation sites", len(sites), [])
    for pr in probs:
        ctx.ob("totality:" + pr.split(":")[0][:80], False, "the parser/builder can reach an unchecked operation that is no longer discharged: " + pr[:300])


@rule("C06.W", "type-level: compile-fail witnesses with compiling twins (K6; thorough tier)")
def rw(ctx):
    from analysis import witness
    if ctx.config != "ws":
        return
    witness.check(ctx, {'c06_builder_board_private': "the builder's unvalidated board can be taken out without build()/validate()"})


rw.thorough_only = True


def _drop_validate(P):
    b = P.own("fns", MG + "BoardBuilder::build")
    for blk in b["blocks"]:
        t = blk["t"]
        if t["k"] == "call" and t["f"].get("fn") == VALIDATE:
            t["f"]["fn"] = MG + "Board::noop"


def _count_17(P):
    b = P.own("fns", VALIDATE)
    done = False
    for blk in b["blocks"]:
        for s in blk["s"]:
            r = s.get("r", {})
            if not done and r.get("k") == "bin" and r.get("op") == "Gt":
                r["b"]["c"]["int"] = r["b"]["c"]["bits"] = "17"
                done = True


def _h1_to_g1(P):
    b = P.own("fns", V_CR)
    for blk in b["blocks"]:
        for s in blk["s"]:
            r = s.get("r", {})
            if r.get("k") == "agg" and r.get("adt") == POS and r.get("vn") == "H1":
                r["vn"] = "G1"


def _ep_rank(P):
    b = P.own("fns", "chess_bitboard::color::Color::enpassant_pawn_rank")
    for blk in b["blocks"]:
        for s in blk["s"]:
            r = s.get("r", {})
            if r.get("k") == "agg" and r.get("vn") == "_5":
                r["vn"] = "_4"


CONTROLS = [
    ("build() without validate()", "C06.R2", _drop_validate),
    ("first piece-count bound is 17", "C06.R3", _count_17),
    ("white king-side rook looked for on g1", "C06.R4", _h1_to_g1),
    ("White's en-passant pawn rank is the 4th", "C06.R5", _ep_rank),
]
