"""C03 - check, mate and draw status are right; incremental state never goes stale."""
from analysis.runner import rule
from analysis.facts import AnchorError
from analysis import terms as T, k2
from analysis.cfg import cfg_of
from analysis.effects import canon, subterms

THOROUGH_CONFIGS = ['release', 'nobmi2', 'movegen-alone']
LEVEL = "other"
DECIDED = ("R1 Board::state is, exactly, the table (no legal move, in check) -> CheckMate; (no legal move, not in check) -> StaleMate; (moves, clock >= 100) -> StaleMate; "
           "(moves, in check, clock < 100) -> Check; otherwise Running, with the emptiness test taken on legals() of the same board and the threshold 100; "
           "R2 in_check() is exactly `checkers != empty`; R3 the from-scratch computation (update_pin_info) and the incremental tail of make-move consult the same attacker "
           "classes: knight and pawn attack tables at the king square, bishop/rook rays, `between`, Bishop|Queen and Rook|Queen of the mover, with the slider loop unconditional "
           "and both cached sets cleared before being rebuilt; R4 every successful return of the FEN parser and of the builder is dominated by the from-scratch refresh.")
DECIDED = DECIDED + ' R6 holds on EVERY way out of update_pin_info (an early return in front of the knight/pawn checkers is reported).'
DECIDED = DECIDED + ' R3/R4/R6: the from-scratch computation is found by role (the private function both constructors call, whose call tree consults `between` and which establishes pinned and checkers), as a `&mut Board` method or as a function returning the pair that both constructors store (which component is which is read off their stores; disagreeing callers are reported; the Ok return must be dominated by both stores).'
DECIDED = DECIDED + ' R90 premises re-run here: C01 C01.R1, C01.R2, C01.R3, C01.R5; C04 C04.R2; C05 C05.R4.'
NOT_DECIDED = ("equality of incrementally maintained and rebuilt state on actual histories (needs the semantics of the bitboard arithmetic on real positions); "
               "'in check exactly when the king is attacked' beyond the dependence clauses of R3")
EXPLANATION = "K4 decision table for state/in_check; K2 dominance for the constructors; K3 dependence signatures (set of lookups/fields reached) for the two computations of the cached sets."

MG = "chess_movegen::"
LEGALS = MG + "iter::<impl chess_movegen::Board>::legals"
IS_EMPTY = MG + "iter::MoveGen::is_empty"


@rule("C03.R1", "Board::state decision table")
def r1(ctx):
    P = ctx.P
    key = MG + "Board::state"
    ctx.used_body(key)
    eng = T.Engine(P, opaque={LEGALS, IS_EMPTY})
    leaves = eng.tabulate(key)
    slf = ("obj", ("param", 0, "self"))
    site = P.body(key).get("def_span")
    thresholds = set()

    def classify(t, v):
        if t[0] == "app" and t[1] == IS_EMPTY:
            arg = t[2][0]
            inner = arg[1] if arg[0] == "refv" else arg
            if inner[0] == "app" and inner[1] == LEGALS and inner[2] and inner[2][0] in (("refv", slf), ("ref", ("ext", ("param", 0, "self"), ()))):
                return ("no_moves", bool(v))
            return None
        if t == ("bin", "Ne", ("field", ("field", slf, "checkers"), "0"), T.I(0, "u64")):
            return ("in_check", bool(v))
        if t == ("bin", "Eq", ("field", ("field", slf, "checkers"), "0"), T.I(0, "u64")):
            return ("in_check", not bool(v))
        th = T.threshold(t, v)
        if th and th[0] == ("field", slf, "half_move_clock"):
            thresholds.add(th[1])
            return ("clock_expired", th[2])
        return None

    table, names, unknown = T.predicate_table(leaves, classify)
    ctx.ob("state inputs", not unknown and set(names) == {"no_moves", "in_check", "clock_expired"},
           f"Board::state branches on {[T.show(t)[:100] for t, _ in unknown]} / predicates {names}; expected emptiness of self.legals(), checkers != empty, half_move_clock >= 100",
           site=site, sample={"predicates": names})
    ctx.ob("fifty-move threshold", thresholds == {100}, f"the draw clock is compared against {sorted(thresholds)} (as `>=`), expected 100", site=site, sample={"threshold": sorted(thresholds)})
    if unknown or set(names) != {"no_moves", "in_check", "clock_expired"}:
        return
    GS = MG + "GameState"

    def spec(no_moves, in_check, expired):
        if no_moves:
            return "CheckMate" if in_check else "StaleMate"
        if expired:
            return "StaleMate"
        return "Check" if in_check else "Running"
    for vals, rets in table.items():
        a = dict(zip(names, vals))
        want = ("adt", GS, spec(a["no_moves"], a["in_check"], a["clock_expired"]), ())
        ctx.ob(f"state{tuple(a[k] for k in ('no_moves', 'in_check', 'clock_expired'))}", rets == {want},
               f"state() with no_moves={a['no_moves']}, in_check={a['in_check']}, clock>=100={a['clock_expired']} gives {[T.show(r) for r in rets]}, expected {want[2]}",
               site=site, sample={"case": a, "result": want[2]})


@rule("C03.R2", "in_check() == (checkers != empty)")
def r2(ctx):
    P = ctx.P
    key = MG + "Board::in_check"
    ctx.used_body(key)
    lv = T.Engine(P).tabulate(key)
    slf = ("obj", ("param", 0, "self"))
    want = ("bin", "Ne", ("field", ("field", slf, "checkers"), "0"), T.I(0, "u64"))
    ctx.ob("in_check", len(lv) == 1 and lv[0].ret == want, f"in_check() returns {[T.show(l.ret) for l in lv]}, expected checkers != 0", site=P.body(key).get("def_span"), sample=T.show(want))


CONSTRUCTORS = (MG + "fen::parse_fen", MG + "BoardBuilder::build")


def refresh_fn(P):
    """The from-scratch computation of (pinned, checkers), found by role rather than by name or signature: the non-pub function of chess_movegen that
    both constructors call and whose (private) call tree consults chess_lookup::between.  Forms: `&mut Board` (writes the two fields itself) or
    `&Board -> (BitBoard, BitBoard)` (each caller stores the pair; which component is which is read off the callers' assignments)."""
    def direct(k):
        return {t_["f"].get("fn") for _, t_ in P.calls(k) if t_["f"].get("k") == "fnref"}
    common = None
    for c_ in CONSTRUCTORS:
        ds = {f for f in direct(c_) if f in P.fns and P.fns[f]["crate"] == "chess_movegen" and P.fns[f].get("vis") != "pub" and "::{" not in f}
        common = ds if common is None else common & ds
    cands = sorted(f for f in (common or ()) if any(t_["f"].get("fn") == "chess_lookup::between" for g_ in k2.private_closure(P, f) for _, t_ in P.calls(g_)))
    def establishes(f):
        b = P.body(f)
        if b["locals"][0]["ty"] == "(chess_bitboard::BitBoard, chess_bitboard::BitBoard)":
            return True
        return b["argc"] >= 1 and b["locals"][1]["ty"].startswith("&mut") and all(k2.assigns_to_field(P, f, MG + "Board", n_) for n_ in ("pinned", "checkers"))
    cands = [f for f in cands if establishes(f)]
    if len(cands) != 1:
        raise AnchorError(f"expected exactly one private refresh of pinned/checkers called by both constructors; found {cands}")
    key = cands[0]
    body = P.body(key)
    ret = body["locals"][0]["ty"]
    info = {"key": key, "form": "mut" if body["locals"][1]["ty"].startswith("&mut") else "pair", "idx": {}, "stores": {}}
    if info["form"] == "pair":
        if ret != "(chess_bitboard::BitBoard, chess_bitboard::BitBoard)":
            raise AnchorError(f"{key}: neither `&mut Board` nor `-> (BitBoard, BitBoard)`")
        for c_ in CONSTRUCTORS:
            cb = P.body(c_)
            st = {}
            for bj, blk in enumerate(cb["blocks"]):
                for s in blk["s"]:
                    if s["k"] != "assign" or s["r"].get("k") != "use":
                        continue
                    fp = [e for e in s["p"]["pj"] if isinstance(e, dict) and e.get("a") == MG + "Board"]
                    if not fp or fp[-1].get("n") not in ("pinned", "checkers"):
                        continue
                    d = k2.describe_operand(P, cb, s["r"]["o"])        # follows the compiler's temporaries of a destructuring assignment
                    if d[0] == "proj" and d[1][0] == "call" and T.strip_generics(d[1][1]) == key and len(d[2]) == 1 and isinstance(d[2][0], int):
                        st.setdefault(0, {})[fp[-1]["n"]] = (d[2][0], bj)
            info["stores"][c_] = st
            for bi, m in st.items():
                for n_, (i_, _) in m.items():
                    if info["idx"].setdefault(n_, i_) != i_:
                        raise AnchorError(f"the constructors disagree on which component of {key}'s result is `{n_}`")
        if set(info["idx"]) != {"pinned", "checkers"} or info["idx"]["pinned"] == info["idx"]["checkers"]:
            raise AnchorError(f"{key}: the callers do not store both components of its result (found {info['idx']})")
    return info


def refreshed_field(P, eng, lf, info, name):
    """term of the `pinned` / `checkers` set a return leaf of the refresh function leaves behind"""
    if info["form"] == "mut":
        slf = ("param", 0, "self")
        final = eng.freeze(lf.state, lf.ext.get(slf, ("obj", slf)))
        names = [f["name"] for f in P.adt(MG + "Board")["variants"][0]["fields"]]
        return T.get_path(final, (("f", names.index(name), name, None),))
    r = lf.ret
    return r[1][info["idx"][name]] if r[0] == "tuple" else ("unreadable", r)


@rule("C03.R4", "constructors refresh the cached pin/check sets before returning a board")
def r4(ctx):
    P = ctx.P
    info = refresh_fn(P)
    upd = info["key"]
    for key in CONSTRUCTORS:
        ctx.used_body(key)
        body = P.body(key)
        oks = k2.result_blocks(body, "Ok")
        calls = [b for b, _ in k2.call_sites(P, key, upd)]
        if info["form"] == "pair":
            # the call only computes: it counts when both components are stored into the board (the later of the two stores is the refresh point)
            calls = [max(bj for _, bj in m.values()) for bi, m in info["stores"].get(key, {}).items() if set(m) == {"pinned", "checkers"}]
        ctx.floor(f"{key.rsplit('::',1)[1]}: Ok returns", len(oks), 1)
        for ob in oks:
            ctx.ob(f"{key.rsplit('::',1)[1]} Ok@bb{oks.index(ob)}", k2.dominated_by_any(body, ob, calls) or ob in calls,
                   f"{key} can return Ok(board) without having refreshed pinned/checkers ({T.short(upd)}): they would be stale (empty)", site=body.get("def_span"),
                   sample={"ok_block": ob, "refresh_calls": calls})
    # the refresh looks up the own king (unchecked): it may only run on a position validate() has accepted
    for key in CONSTRUCTORS:
        body = P.body(key)
        vcalls = [b for b, _ in k2.call_sites(P, key, "Board::validate")]
        rcalls = [b for b, _ in k2.call_sites(P, key, upd)]
        ctx.ob(f"{key.rsplit('::',1)[1]} validated first", bool(vcalls) and bool(rcalls) and all(k2.dominated_by_any(body, rb, vcalls) for rb in rcalls),
               f"{key} runs {T.short(upd)} (which looks up the king of the side to move without a check) before, or without, Board::validate", site=body.get("def_span"),
               sample={"validate_calls": vcalls, "refresh_calls": rcalls})
    # the refresh starts from empty sets (unconditionally): it does not build on what the board held before
    body = P.body(upd)
    ctx.used_body(upd)
    c = cfg_of(body)
    if info["form"] == "mut":
        for fld in ("pinned", "checkers"):
            ws = k2.assigns_to_field(P, upd, MG + "Board", fld)
            first = [b for b, s in ws if s["r"].get("k") in ("use", "agg")]
            ok = any(c.postdominates(b, 0) or b == 0 for b in first) and ws and min(b for b, _ in ws) in first
            ctx.ob(f"update_pin_info clears {fld}", ok, f"{T.short(upd)} does not unconditionally reset `{fld}` before rebuilding it", site=body.get("def_span"))
    else:
        reads = {e.get("n") for blk in body["blocks"] for s in blk["s"] + [blk["t"]] for pl in __import__("analysis.facts", fromlist=["x"]).walk_places(s) for e in pl["pj"]
                 if isinstance(e, dict) and e.get("a") == MG + "Board"}
        for fld in ("pinned", "checkers"):
            ctx.ob(f"update_pin_info clears {fld}", fld not in reads, f"{T.short(upd)} builds on the board's previous `{fld}` set instead of starting from empty", site=body.get("def_span"))


# R3: dependence signatures of the two computations of pinned/checkers
SIG = ["chess_lookup::knight_moves", "chess_lookup::pawn_attacks_moves", "chess_lookup::bishop_rays", "chess_lookup::rook_rays", "chess_lookup::between"]


private_closure = k2.private_closure


def callee_set(P, key):
    return {t["f"].get("fn") for k in private_closure(P, key) for _, t in P.calls(k) if t["f"].get("k") == "fnref"}


def piece_consts(P, key):
    """Piece variants used as constants in `key` (indexing raw[Piece::X])."""
    out = set()
    for k in private_closure(P, key):
        for blk in P.body(k)["blocks"]:
            for s in blk["s"]:
                r = s.get("r", {})
                if r.get("k") == "agg" and r.get("adt") == "chess_bitboard::piece::Piece":
                    out.add(r["vn"])
    return out


@rule("C03.R3", "from-scratch and incremental check/pin computation consult the same attacker classes")
def r3(ctx):
    P = ctx.P
    upd, mk = refresh_fn(P)["key"], MG + "Board::move_unchecked_into"
    for key in (upd, mk):
        ctx.used_body(key)
        cs = callee_set(P, key)
        body = P.body(key)
        for need in SIG:
            ctx.ob(f"{key.rsplit('::',1)[1]} consults {need.rsplit('::',1)[1]}", need in cs,
                   f"{key} never consults {need}: checks/pins by that attacker class are missed", site=body.get("def_span"), sample={"callee": need})
        pcs = piece_consts(P, key)
        for pc in ("Bishop", "Rook", "Queen"):
            ctx.ob(f"{key.rsplit('::',1)[1]} reads {pc}s", pc in pcs, f"{key} never reads the {pc} set", site=body.get("def_span"))
    for pc in ("Knight", "Pawn"):
        ctx.ob(f"update_pin_info reads {pc}s", pc in piece_consts(P, upd), f"update_pin_info never reads the {pc} set", site=P.body(upd).get("def_span"))
    # incremental version: the slider phase runs unconditionally (a loop in make-move itself, or one call that hands it to a private helper / a closure)
    body = P.body(mk)
    c = cfg_of(body)
    loops = c.loops()
    calls_between = lambda f: any(t_["f"].get("fn") == "chess_lookup::between" for _, t_ in P.calls(f))
    phase_fns = {f for f in private_closure(P, mk) if f != mk and any(calls_between(g_) for g_ in private_closure(P, f))}
    slider = []
    for h, bl in loops.items():
        calls = {body["blocks"][b_]["t"]["f"].get("fn") for b_ in bl if body["blocks"][b_]["t"]["k"] == "call" and body["blocks"][b_]["t"]["f"].get("k") == "fnref"}
        if "chess_lookup::between" in calls:
            slider.append(h)
    for bi, blk in enumerate(body["blocks"]):
        if (blk["t"]["k"] == "call" and blk["t"]["f"].get("fn") in phase_fns) or any(s_.get("r", {}).get("k") == "agg" and s_["r"].get("ak") == "closure" and s_["r"].get("fn") in phase_fns for s_ in blk["s"]):
            slider.append(bi)
    ctx.ob("make-move slider loop", len(slider) == 1 and c.postdominates(slider[0], 0),
           "the loop over the mover's sliders aligned with the enemy king is missing or conditional in move_unchecked_into: discovered, castling-rook, promotion and "
           "en-passant-discovered checks would be missed", site=body.get("def_span"), sample={"slider_phase_block": slider})
    for fld in ("pinned", "checkers"):
        ws = k2.assigns_to_field(P, mk, MG + "Board", fld)
        resets = [b for b, s in ws if s["r"].get("k") in ("use", "agg")]
        ok = bool(resets) and any(c.postdominates(b, 0) or b == 0 for b in resets) and min(b for b, _ in ws) in resets
        ctx.ob(f"make-move clears {fld}", ok, f"move_unchecked_into does not unconditionally reset `{fld}` before rebuilding it", site=body.get("def_span"))
    # in the slider loop both versions split on `between` empty (checker) vs exactly one blocker (pin)
    for key in (upd, mk):
      n_ok = 0
      for k_ in sorted(private_closure(P, key)):
        body = P.body(k_)
        c = cfg_of(body)
        # the unit that examines one slider: a loop body, or the whole body of a closure / helper called once per slider
        units = list(c.loops().values())
        if not units and k_ != key:
            units = [set(range(len(body["blocks"])))]
        for bl in units:
            names, consts, sw = set(), set(), set()
            for b_ in bl:
                t_ = body["blocks"][b_]["t"]
                if t_["k"] == "call" and t_["f"].get("k") == "fnref":
                    names.add(t_["f"]["fn"].rsplit("::", 1)[-1])
                if t_["k"] == "switch":
                    d = k2.describe_operand(P, body, t_["d"])
                    if d[0] == "call" and d[1].endswith("BitBoard::count"):
                        sw |= {int(v) for v, _ in t_["tg"]}
                for s in body["blocks"][b_]["s"]:
                    r = s.get("r", {})
                    if r.get("k") == "bin" and r.get("op") == "Eq":
                        for o in (r["a"], r["b"]):
                            if o.get("k") == "const" and "int" in o.get("c", {}):
                                consts.add(int(o["c"]["int"]))
            if {"between", "count"} <= names and (("none" in names and 1 in consts) or {0, 1} <= sw):
                n_ok += 1
      ctx.ob(f"{key.rsplit('::',1)[1]} checker/pin split", n_ok == 1, f"{key}: the slider loop does not classify `between` as empty (check) / exactly one blocker (pin)", site=P.body(key).get("def_span"))


@rule("C03.R90", 'premises shared with other properties: C01 (C01.R1, C01.R2, C01.R3, C01.R5); C04 (C04.R2); C05 (C05.R4)')
def r_premises_shared(ctx):
    """This property's argument rests on these rules of other properties (what it calls is assumed to behave); they are re-run here so that a
    breakage of one of them is reported by this property's own check as well."""
    from analysis.runner import premise
    premise(ctx, 'C01', ['C01.R1', 'C01.R2', 'C01.R3', 'C01.R5'] and set(['C01.R1', 'C01.R2', 'C01.R3', 'C01.R5']), 'state() decides mate / stalemate from the generated move list; the list is no longer exactly the legal moves')
    premise(ctx, 'C04', ['C04.R2'] and set(['C04.R2']), 'the incremental hash is part of the incrementally maintained state; a mutation is no longer paired with its key')
    premise(ctx, 'C02', {'C02.R3'}, "state() reports the fifty-move draw from the half-move clock; make-move no longer maintains the clocks as the rules prescribe")
    premise(ctx, 'C05', ['C05.R4'] and set(['C05.R4']), 'the castling field of the text form no longer names the rights the board holds')


# ------------------------------------------------------------------ controls
def _threshold(P):
    b = P.own("fns", MG + "Board::state")
    for blk in b["blocks"]:
        for s in blk["s"]:
            r = s.get("r", {})
            if r.get("k") == "bin" and r.get("op") == "Ge":
                r["op"] = "Gt"


def _swap_states(P):
    b = P.own("fns", MG + "Board::state")
    for blk in b["blocks"]:
        for s in blk["s"]:
            r = s.get("r", {})
            if r.get("k") == "agg" and r.get("vn") in ("Check", "Running"):
                r["vn"] = "Running" if r["vn"] == "Check" else "Check"


def _drop_refresh(P):
    rk = refresh_fn(P)["key"]
    b = P.own("fns", MG + "BoardBuilder::build")
    for blk in b["blocks"]:
        t = blk["t"]
        if t["k"] == "call" and t["f"].get("fn", "") == rk:
            t["f"]["fn"] = MG + "Board::noop"


def _no_pawn_checks(P):
    b = P.own("fns", refresh_fn(P)["key"])
    for blk in b["blocks"]:
        t = blk["t"]
        if t["k"] == "call" and t["f"].get("fn", "") == "chess_lookup::pawn_attacks_moves":
            t["f"]["fn"] = "chess_lookup::king_moves"



@rule("C03.W", "type-level: compile-fail witnesses with compiling twins (K6; thorough tier)")
def rw(ctx):
    from analysis import witness
    if ctx.config != "ws":
        return
    witness.check(ctx, {'c03_checkers_private': 'code outside chess-movegen could overwrite the cached `checkers` set', 'c03_pinned_private': 'code outside chess-movegen could overwrite the cached `pinned` set'})


rw.thorough_only = True

CONTROLS = [
    ("state(): clock > 100", "C03.R1", _threshold),
    ("state(): Check and Running swapped", "C03.R1", _swap_states),
    ("build() without update_pin_info", "C03.R4", _drop_refresh),
    ("update_pin_info without pawn attackers", "C03.R3", _no_pawn_checks),
]


# ------------------------------------------------------------------ R5: direct checks on every make-move path
from analysis import makemove as M
from analysis.effects import index_chain, strip_casts


@rule("C03.R5", "direct knight/pawn check contributions on every path of make-move; pinned cleared")
def r5(ctx):
    P = ctx.P
    r = M.analyse(P)
    site = P.body(M.KEY).get("def_span")
    mv = ("param", 1, "a1")
    n = 0
    for p in r["paths"]:
        n += 1
        me, opp = p.turn, ("Black" if p.turn == "White" else "White")
        kind = p.kind or "other"
        ch = M.field_at_loop(p, "checkers")
        w = ch[3][0] if ch[0] == "adt" else ch
        got = "none" if w == T.I(0, "u64") else "?"
        if w[0] == "bin" and w[1] == "BitAnd":
            for x, y in ((w[2], w[3]), (w[3], w[2])):
                ic = index_chain(x)
                dest_bit = y == ("bin", "Shl", T.I(1, "u64"), ("cast", "u8", ("discr", ("field", mv, "dest"))))
                if not ic or not dest_bit:
                    continue
                ksq = strip_casts(ic[1][0])
                ksq = ksq[1] if ksq[0] == "discr" else ksq
                king_ok = ksq[0] == "app" and ksq[1].endswith("Board::king_sq") and ksq[2][1] == ("adt", "chess_bitboard::color::Color", opp, ())
                if ic[0].endswith("knight_moves::MOVES") and len(ic[1]) == 1 and king_ok:
                    got = "knight"
                elif ic[0].endswith("pawn::PAWN_ATTACKS") and len(ic[1]) == 2 and king_ok and T.is_const(ic[1][1]):
                    # attacks of a pawn of colour c standing on the king square: squares from which a pawn of the other colour attacks it
                    col_discr = {d: nm for nm, d in P.enum_variants("chess_bitboard::color::Color")}
                    got = "pawn" if col_discr.get(ic[1][1][1]) == opp else "pawn(wrong colour)"
        promo_knight = getattr(p, "promo_knight", None)
        if kind == "Knight" or (kind == "Pawn" and p.promo == "Some" and promo_knight):
            want = "knight"
        elif kind == "Pawn" and p.promo == "None":
            want = "pawn"
        else:
            want = "none"
        label = f"{me} {kind} promo={p.promo}/{promo_knight} masks={sorted(getattr(p, 'masks', {}).values())} ep={p.ep}"
        ctx.ob(f"direct check[{label}]#{n}", got == want, f"make-move ({label}): direct-check contribution is `{got}` ({T.show(w)[:100]}); a {kind} move"
               f"{' promoting to a knight' if promo_knight else ''} must contribute `{want}` (attack table at the enemy king & destination)", site=site,
               sample={"case": label, "contribution": got} if n in (5, 50, 100) else None)
        pn = M.field_at_loop(p, "pinned")
        ctx.ob(f"pinned cleared[{label}]#{n}", pn == ("adt", "chess_bitboard::BitBoard", "BitBoard", (T.I(0, "u64"),)), f"make-move ({label}) enters the slider loop with pinned = {T.show(pn)[:60]}", site=site)
    ctx.floor("make-move paths", n, 100)


# ------------------------------------------------------------------ R6: from-scratch computation, exact (modulo AC)
from analysis.effects import acnorm
from analysis import chessref as R


@rule("C03.R6", "update_pin_info: sliders on the king's rays split into checkers / single blockers; knight and pawn checkers by the attack tables of the king square")
def r6(ctx):
    P = ctx.P
    from rules.C01 import Ctxt, LOOKUPS, KING_SQ, NEXT, COLOR, fld, word, iter_domain
    info = refresh_fn(P)
    key = info["key"]
    ctx.used_body(key)
    site = P.body(key).get("def_span")
    eng = T.Engine(P, opaque=LOOKUPS | {KING_SQ, NEXT})
    rets, loops, panics = eng.paths(key)
    slf = ("param", 0, "self")
    board = ("obj", slf)
    for turn in ("White", "Black"):
        oc = ("adt", COLOR, "Black" if turn == "White" else "White", ())
        C = Ctxt(P, board)
        opp = C.colors(oc)
        # the king square is read after pinned/checkers were reset: the board term is the reset object; match king_sq by callee and colour argument only
        def is_ksq(t):
            return t[0] == "app" and t[1] == KING_SQ and t[2][1] in (fld(board, "turn"), ("adt", COLOR, turn, ()))
        mine = [lf for lf in rets + loops if lf.known.get(fld(board, "turn")) == turn]
        # final checkers contribution on the return paths
        ok_final, shown = False, None
        finals = []
        for lf in [l for l in mine if l.ret[0] != "loopback"]:
            finals.append(False)
            ch = refreshed_field(P, eng, lf, info, "checkers")
            w = ch[3][0] if ch[0] == "adt" else ch
            shown = w
            n = acnorm(w)
            if n[0] != "ac" or n[1] != "BitOr":
                continue
            parts = list(n[2])
            kn = [p for p in parts if any(s_[0] == "app" and s_[1] == "chess_lookup::knight_moves" for s_ in subterms(p))]
            pw = [p for p in parts if any(s_[0] == "app" and s_[1] == "chess_lookup::pawn_attacks_moves" for s_ in subterms(p))]
            rest = [p for p in parts if p not in kn and p not in pw]
            def ok_part(p, lookup, piece, extra_arg):
                apps = [s_ for s_ in subterms(p) if s_[0] == "app" and s_[1] == "chess_lookup::" + lookup]
                if len(apps) != 1 or not is_ksq(apps[0][2][0]):
                    return False
                if extra_arg is not None and apps[0][2][1] not in extra_arg:
                    return False
                return p == acnorm(C.AND(word(apps[0]), C.pieces(piece), opp))
            finals[-1] = (len(kn) == 1 and len(pw) == 1 and ok_part(kn[0], "knight_moves", "Knight", None)
                          and ok_part(pw[0], "pawn_attacks_moves", "Pawn", (fld(board, "turn"), ("adt", COLOR, turn, ()))) and len(rest) == 1 and rest[0][0] in ("loopvar", "field", "int"))
        # EVERY way out of the function must have added the knight and pawn checkers (an early return in front of them loses them)
        ok_final = bool(finals) and all(finals)
        ctx.ob(f"direct checkers[{turn}]", ok_final, f"update_pin_info ({turn} to move) ends with checkers = {T.show(shown)[:260] if shown else None}; expected (slider checkers) | "
               "knight_moves(own king) & enemy knights | pawn_attacks_moves(own king, OWN colour) & enemy pawns", site=site, sample="checkers |= knights | pawns attacking the king")
        # slider loop domain and classification
        doms = set()
        for lf in mine:
            for t, v in lf.cond:
                if t[0] == "discr" and t[1][0] == "app" and t[1][1] == NEXT:
                    a = t[1][2][0]
                    doms.add(canon(iter_domain(a[1] if a[0] == "refv" else a)))
        q = C.pieces("Queen")
        ksqs = [s_ for d in doms for s_ in subterms(d) if is_ksq(s_)]
        ok_dom = False
        if ksqs:
            k0 = ksqs[0]
            ray = lambda n: word(("app", "chess_lookup::" + n, (k0,)))
            want = canon(C.AND(opp, C.OR(C.AND(C.OR(C.pieces("Bishop"), q), ray("bishop_rays")), C.AND(C.OR(C.pieces("Rook"), q), ray("rook_rays")))))
            ok_dom = doms == {want}
        ctx.ob(f"slider candidates[{turn}]", ok_dom, f"update_pin_info ({turn}) scans {[T.show(d)[:160] for d in doms]}; expected enemy & ((bishops|queens) & bishop_rays(king) | (rooks|queens) & rook_rays(king))",
               site=site, sample="enemy sliders on the king's rays")
        btw_ok = False
        for lf in mine:
            for t, v in lf.cond:
                x = None
                if t[0] == "bin" and t[1] == "Eq" and T.I(0, "u64") in (t[2], t[3]):
                    x = t[2] if t[3] == T.I(0, "u64") else t[3]
                else:
                    # ... or a case split on how many blockers there are (`match between.count() { 0 => .., 1 => .., _ => .. }`)
                    y = t
                    while y[0] == "cast":
                        y = y[2]
                    if y[0] == "count_ones":
                        x = y[1]
                if x is not None:
                    b = [s_ for s_ in subterms(x) if s_[0] == "app" and s_[1] == "chess_lookup::between"]
                    if len(b) == 1 and is_ksq(b[0][2][0]) and canon(x) == canon(C.AND(C.all(), word(b[0]))):
                        btw_ok = True
        ctx.ob(f"blockers on full occupancy[{turn}]", btw_ok, f"update_pin_info ({turn}): blockers are not computed as occupancy & between(king, slider)", site=site)
