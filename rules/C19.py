"""C19 - square, file, rank, piece and move text forms round-trip."""
from analysis.runner import rule
from analysis.facts import AnchorError
from analysis import terms as T, k2
from analysis import chessref as R

THOROUGH_CONFIGS = ['release', 'nobmi2', 'movegen-alone']
LEVEL = "other"
EXHAUSTIVE = True
DECIDED = ("R1 from_u8 of Pos/File/Rank/Piece/Color/Side maps v to the variant with discriminant v and everything from the variant count on to None (all 256 bytes); "
           "R2 Pos::new/file/rank/flip_rank, File/Rank shifts, Rank::flip, File::side agree with coordinates for every square/file/rank; "
           "R3 accepted sets of the byte parsers over all 256 bytes (files a-h either case, ranks 1-8, piece letters either case), the one-byte and two-byte slice "
           "parsers over every length 0..3 and all 65536 two-byte strings (thorough tier; quick tier checks the file and rank slot independently), and the move parser's "
           "shape: exactly lengths 4 and 5-with-'-'-at-index-2, squares taken from bytes (0,1) and (len-2,len-1), promotion None; "
           "R4 Display then parse is the identity for every file, rank, square, promotion piece and every non-promotion move (64x64), evaluated on the extracted writer and parser tables; "
           "R5 the enumerating iterators are built as 0..N with N the variant count and each of next/nth/next_back/nth_back/size_hint forwards to the same method of the inner Range<u8>, "
           "mapping k to the variant with discriminant k.")
DECIDED = DECIDED + ' The move parser is decided by evaluating its extracted summary on a corpus of strings (every length 0..7, every byte in the separator position, valid and invalid squares in both positions): it accepts exactly `<square><square>` and `<square>-<square>` with promotion None.'
NOT_DECIDED = ("random byte strings of other lengths are covered only through the length tests of the slice patterns (the tables have no other branch for them); "
               "the formatting machinery of core::fmt (decimal rendering of u8, char output) is trusted")
EXPLANATION = ("K4 tables are extracted from MIR with opaque inputs; the checker then evaluates the extracted summaries over the complete finite input domains "
               "(evaluation of the summary, not of the program) and compares with the coordinate definitions. Writers are extracted as ordered emit events "
               "through a model of core::fmt (format_args! template decoding, write_str, write_char).")

BB = "chess_bitboard::"
OPT_NONE = T.OPT_NONE


def some(v):
    return ("adt", "core::option::Option", "Some", (v,))


def unit_variant(adt, name):
    return ("adt", adt, name, ())


def table(ctx, eng, key, **kw):
    ctx.used_body(key)
    return eng.tabulate(key, keep_panics=True, **kw)


def param(P, key, i):
    return ("param", i, P.body(key)["locals"][i + 1].get("n", f"arg{i}"))


ENUMS = [("pos::Pos", 64), ("pos::File", 8), ("pos::Rank", 8), ("piece::Piece", 6), ("color::Color", 2), ("side::Side", 2)]


@rule("C19.R1", "from_u8 tables: v -> variant with discriminant v, None from the variant count on (all 256 values)")
def r1(ctx):
    P = ctx.P
    eng = T.Engine(P)
    for suffix, n in ENUMS:
        adt = P.find_adt(suffix, "chess_bitboard")
        variants = {d: nm for nm, d in P.enum_variants(adt)}
        ctx.ob(f"{suffix} variant count", len(variants) == n and sorted(variants) == list(range(n)), f"{adt} has discriminants {sorted(variants)[:10]}.., expected 0..{n-1}")
        key = P.find_fn(suffix + "::from_u8", "chess_bitboard")
        leaves = table(ctx, eng, key)
        x = param(P, key, 0)
        bad = []
        for v in range(256):
            got = T.eval_table(eng, leaves, {x: T.I(v, "u8")})
            want = some(unit_variant(adt, variants[v])) if v in variants else OPT_NONE
            if got != want:
                bad.append((str(v), f"{suffix}::from_u8({v}) = {T.show(got)}, expected {T.show(want)}"))
        ctx.bulk(f"{suffix}::from_u8", 256, bad, f"{suffix}::from_u8 is not the inverse of `as u8`", sample={"3": T.show(T.eval_table(eng, leaves, {x: T.I(3, "u8")}))})


def coords_env(g, P):
    pos_adt, file_adt, rank_adt = g.pos_key, P.find_adt("pos::File", "chess_bitboard"), P.find_adt("pos::Rank", "chess_bitboard")
    pos_name = {d: n for n, d in P.enum_variants(pos_adt)}
    file_name = {g.file[i]: n for n, i in [(n, R.FILES.index(n)) for n in R.FILES]}
    fv = lambda f: unit_variant(file_adt, R.FILES[f])
    rv = lambda r: unit_variant(rank_adt, f"_{r+1}")
    pv = lambda f, r: unit_variant(pos_adt, pos_name[g.sq[(f, r)]])
    return fv, rv, pv


@rule("C19.R2", "coordinate functions agree with (file, rank) geometry for every input")
def r2(ctx):
    P = ctx.P
    g = R.Geo(P)
    eng = T.Engine(P)
    fv, rv, pv = coords_env(g, P)
    side_adt = P.find_adt("side::Side", "chess_bitboard")

    def check(name, key, inputs, want_fn):
        leaves = table(ctx, eng, key)
        ps = [param(P, key, i) for i in range(P.body(key)["argc"])]
        # `&self` receivers: the parameter is a reference to the value
        by_ref = [P.body(key)["locals"][i + 1]["ty"].startswith("&") for i in range(len(ps))]
        bad, n = [], 0
        for args, label in inputs:
            env = {}
            for p, a, br in zip(ps, args, by_ref):
                env[p] = ("refv", a) if br else a
                if br:
                    env[("obj", p)] = a
            got = T.eval_table(eng, leaves, env)
            want = want_fn(*label)
            n += 1
            if got != want:
                bad.append((str(label), f"{name}{label} = {T.show(got)}, expected {T.show(want)}"))
        ctx.bulk(name, n, bad, f"{name} disagrees with coordinates", sample={"cases": n})

    sq = [(f, r) for f in range(8) for r in range(8)]
    check("Pos::new", P.find_fn("pos::Pos::new"), [((fv(f), rv(r)), (f, r)) for f, r in sq], lambda f, r: pv(f, r))
    check("Pos::file", P.find_fn("pos::Pos::file"), [((pv(f, r),), (f, r)) for f, r in sq], lambda f, r: fv(f))
    check("Pos::rank", P.find_fn("pos::Pos::rank"), [((pv(f, r),), (f, r)) for f, r in sq], lambda f, r: rv(r))
    check("Pos::flip_rank", P.find_fn("pos::Pos::flip_rank"), [((pv(f, r),), (f, r)) for f, r in sq], lambda f, r: pv(f, 7 - r))
    check("Pos::shift_up", P.find_fn("pos::Pos::shift_up"), [((pv(f, r),), (f, r)) for f, r in sq], lambda f, r: some(pv(f, r + 1)) if r < 7 else OPT_NONE)
    check("Pos::shift_down", P.find_fn("pos::Pos::shift_down"), [((pv(f, r),), (f, r)) for f, r in sq], lambda f, r: some(pv(f, r - 1)) if r > 0 else OPT_NONE)
    check("Pos::shift_left", P.find_fn("pos::Pos::shift_left"), [((pv(f, r),), (f, r)) for f, r in sq], lambda f, r: some(pv(f - 1, r)) if f > 0 else OPT_NONE)
    check("Pos::shift_right", P.find_fn("pos::Pos::shift_right"), [((pv(f, r),), (f, r)) for f, r in sq], lambda f, r: some(pv(f + 1, r)) if f < 7 else OPT_NONE)
    check("Rank::flip", P.find_fn("pos::Rank::flip"), [((rv(r),), (r,)) for r in range(8)], lambda r: rv(7 - r))
    check("Rank::shift_up", P.find_fn("pos::Rank::shift_up"), [((rv(r),), (r,)) for r in range(8)], lambda r: some(rv(r + 1)) if r < 7 else OPT_NONE)
    check("Rank::shift_down", P.find_fn("pos::Rank::shift_down"), [((rv(r),), (r,)) for r in range(8)], lambda r: some(rv(r - 1)) if r > 0 else OPT_NONE)
    check("File::shift_left", P.find_fn("pos::File::shift_left"), [((fv(f),), (f,)) for f in range(8)], lambda f: some(fv(f - 1)) if f > 0 else OPT_NONE)
    check("File::shift_right", P.find_fn("pos::File::shift_right"), [((fv(f),), (f,)) for f in range(8)], lambda f: some(fv(f + 1)) if f < 7 else OPT_NONE)
    check("File::side", P.find_fn("pos::File::side"), [((fv(f),), (f,)) for f in range(8)], lambda f: unit_variant(side_adt, "Queen" if f < 4 else "King"))


def byte_parser(ctx, eng, key):
    P = ctx.P
    leaves = table(ctx, eng, key)
    x = param(P, key, 0)
    return {b: T.eval_table(eng, leaves, {x: T.I(b, "u8")}) for b in range(256)}


@rule("C19.R3", "parsers accept exactly the intended spellings")
def r3(ctx):
    P = ctx.P
    g = R.Geo(P)
    eng = T.Engine(P)
    fv, rv, pv = coords_env(g, P)
    piece_adt = P.find_adt("piece::Piece", "chess_bitboard")
    promo_adt = P.find_adt("piece::PromotionPiece", "chess_bitboard")
    specs = {
        "pos::File::from_ascii_byte": {ord(c): fv(i) for i, c in enumerate("abcdefgh")} | {ord(c): fv(i) for i, c in enumerate("ABCDEFGH")},
        "pos::Rank::from_ascii_byte": {ord(c): rv(i) for i, c in enumerate("12345678")},
        "piece::Piece::from_ascii_byte": {ord(c): unit_variant(piece_adt, n) for cs, n in (("pP", "Pawn"), ("nN", "Knight"), ("bB", "Bishop"), ("rR", "Rook"), ("qQ", "Queen"), ("kK", "King")) for c in cs},
        "piece::PromotionPiece::from_ascii_byte": {ord(c): unit_variant(promo_adt, n) for cs, n in (("nN", "Knight"), ("bB", "Bishop"), ("rR", "Rook"), ("qQ", "Queen")) for c in cs},
    }
    byte_tables = {}
    for suffix, spec in specs.items():
        key = P.find_fn(suffix, "chess_bitboard")
        tab = byte_parser(ctx, eng, key)
        byte_tables[suffix] = tab
        bad = []
        for b in range(256):
            want = some(spec[b]) if b in spec else OPT_NONE
            if tab[b] != want:
                bad.append((str(b), f"{suffix}({b} {chr(b)!r}) = {T.show(tab[b])}, expected {T.show(want)}"))
        ctx.bulk(suffix, 256, bad, f"{suffix} accepts the wrong set of bytes", sample={"accepted": "".join(chr(b) for b in range(256) if tab[b] != OPT_NONE)})

    # one-byte slice parsers: exactly length 1, then the byte parser
    for suffix in ("pos::File", "pos::Rank", "piece::Piece", "piece::PromotionPiece"):
        key = P.find_fn(suffix + "::from_ascii_bytes", "chess_bitboard")
        leaves = table(ctx, eng, key)
        s = param(P, key, 0)
        bt = byte_tables[suffix + "::from_ascii_byte"]
        bad, n = [], 0
        for ln in range(0, 4):
            for b in (range(256) if ln == 1 else (ord("a"), ord("1"), ord("q"))):
                arr = ("array", tuple(T.I(b, "u8") for _ in range(ln)))
                got = T.eval_table(eng, leaves, {s: ("refv", arr), ("obj", s): arr})
                want = bt[b] if ln == 1 else OPT_NONE
                n += 1
                if got != want:
                    bad.append((f"len{ln}:{b}", f"{suffix}::from_ascii_bytes({[b]*ln}) = {T.show(got)}, expected {T.show(want)}"))
        ctx.bulk(suffix + "::from_ascii_bytes", n, bad, "one-byte slice parser does not accept exactly length 1", sample={"cases": n})

    # Pos::from_ascii_bytes: exactly two bytes, file then rank
    key = P.find_fn("pos::Pos::from_ascii_bytes", "chess_bitboard")
    leaves = table(ctx, eng, key)
    s = param(P, key, 0)
    ft, rt = byte_tables["pos::File::from_ascii_byte"], byte_tables["pos::Rank::from_ascii_byte"]

    def pos_of(fb, rb):
        if ft[fb] == OPT_NONE or rt[rb] == OPT_NONE:
            return OPT_NONE
        f, r = R.FILES.index(ft[fb][3][0][2]), int(rt[rb][3][0][2][1:]) - 1
        return some(pv(f, r))

    bad, n = [], 0
    if ctx.tier == "thorough":
        pairs = [(a, b) for a in range(256) for b in range(256)]
    else:
        pairs = [(a, ord("4")) for a in range(256)] + [(ord("e"), b) for b in range(256)] + [(ord(f), ord(r)) for f in "abcdefghABCDEFGH" for r in "12345678"]
    for a, b in pairs:
        arr = ("array", (T.I(a, "u8"), T.I(b, "u8")))
        got = T.eval_table(eng, leaves, {s: ("refv", arr), ("obj", s): arr})
        n += 1
        if got != pos_of(a, b):
            bad.append((f"{a},{b}", f"Pos::from_ascii_bytes({chr(a)!r}{chr(b)!r}) = {T.show(got)}, expected {T.show(pos_of(a, b))}"))
    for ln in (0, 1, 3, 4):
        arr = ("array", tuple(T.I(ord("e"), "u8") if i % 2 == 0 else T.I(ord("4"), "u8") for i in range(ln)))
        got = T.eval_table(eng, leaves, {s: ("refv", arr), ("obj", s): arr})
        n += 1
        if got != OPT_NONE:
            bad.append((f"len{ln}", f"Pos::from_ascii_bytes accepts a {ln}-byte string: {T.show(got)}"))
    ctx.bulk("Pos::from_ascii_bytes", n, bad, "square parser accepts the wrong set of strings", sample={"strings": n, "exhaustive_two_byte": ctx.tier == "thorough"})

    # move parser: the extracted summary (square parser inlined) evaluated on strings of every length 0..7, on every byte in the separator
    # position, and on valid / invalid squares in both positions; compared with the definition "e2e4" | "e2-e4"
    mkey = P.find_fn("ChessMove::from_ascii_bytes", "chess_movegen")
    ctx.used_body(mkey)
    pkey = key
    eng2 = T.Engine(P, opaque={pkey})           # the square parser stays a symbol; its table was decided just above and is substituted below
    mleaves = table(ctx, eng2, mkey)
    ms = param(P, mkey, 0)
    move_adt = P.find_adt("ChessMove", "chess_movegen")

    def apps(name, args):
        if name == pkey and len(args) == 1:
            a_ = args[0][1] if args[0][0] == "refv" else args[0]
            if a_[0] == "array" and all(T.is_const(e) for e in a_[1]):
                return pos_of(a_[1][0][1], a_[1][1][1]) if len(a_[1]) == 2 else OPT_NONE
        return None

    def want_move(bs):
        if len(bs) == 4:
            sq = (bs[0:2], bs[2:4])
        elif len(bs) == 5 and bs[2] == 45:
            sq = (bs[0:2], bs[3:5])
        else:
            return OPT_NONE
        a_, b_ = pos_of(*sq[0]), pos_of(*sq[1])
        if a_ == OPT_NONE or b_ == OPT_NONE:
            return OPT_NONE
        return some(("adt", move_adt, "ChessMove", (a_[3][0], b_[3][0], OPT_NONE)))
    tests = []
    good = [b"e2", b"a1", b"h8", b"C7", b"g1"]
    junk = [b"i2", b"e9", b"e0", b"\x00\x00", b"2e", b"--", b"e-"]
    for ln in range(0, 8):
        tests.append(bytes((b"e2e4e5e6")[:ln]))
    for x in good + junk:
        for y in good + junk:
            tests.append(x + y)
            tests.append(x + b"-" + y)
    for sep in range(256):
        tests.append(b"e2" + bytes([sep]) + b"e4")
    tests += [b"e2e4q", b"e7e8q", b"e2-e4q", b"e2--e4", b"-e2e4", b"e2e4-"]
    bad, n = [], 0
    for bs in tests:
        arr = ("array", tuple(T.I(c, "u8") for c in bs))
        got = T.eval_table(eng2, mleaves, {ms: ("refv", arr), ("obj", ms): arr, "__apps__": apps})
        n += 1
        w_ = want_move(list(bs))
        if got != w_ and len(bad) < 8:
            bad.append((repr(bs), f"ChessMove::from_ascii_bytes({bs!r}) = {T.show(got)[:100]}, expected {T.show(w_)[:100]}"))
    ctx.bulk("move parser", n, bad, "the move parser does not accept exactly `<square><square>` and `<square>-<square>`", sample={"strings": n})
    fs = P.find_fn("ChessMove as core::str::traits::FromStr>::from_str", "chess_movegen")
    calls = [t["f"].get("fn") for _, t in P.calls(fs)]
    ctx.ob("FromStr for ChessMove", mkey in calls, f"ChessMove::from_str does not go through from_ascii_bytes: {calls}")
    for suffix in ("pos::Pos", "pos::File", "pos::Rank", "piece::Piece", "piece::PromotionPiece"):
        fs = P.find_fn(f"{suffix} as core::str::traits::FromStr>::from_str", "chess_bitboard")
        calls = [t["f"].get("fn") for _, t in P.calls(fs)]
        ctx.ob(f"FromStr for {suffix}", P.find_fn(suffix + "::from_ascii_bytes", "chess_bitboard") in calls, f"{suffix}::from_str does not go through from_ascii_bytes: {calls}")


def display_text(ctx, eng, ty, value):
    key = f"<{ty} as core::fmt::Display>::fmt"
    ctx.used_body(key)
    leaves = eng.tabulate(key, args=[("refv", value), ("param", 1, "a1")])
    if len(leaves) != 1:
        return None
    return T.emitted_text(leaves[0].trace)


@rule("C19.R4", "Display then parse is the identity (files, ranks, squares, promotion pieces, non-promotion moves)")
def r4(ctx):
    P = ctx.P
    g = R.Geo(P)
    eng = T.Engine(P)
    fv, rv, pv = coords_env(g, P)
    promo_adt = P.find_adt("piece::PromotionPiece", "chess_bitboard")

    def parse(suffix, text, crate="chess_bitboard"):
        key = P.find_fn(suffix + "::from_ascii_bytes", crate)
        if (key, text) in parse.memo:
            return parse.memo[(key, text)]
        leaves = parse.cache.get(key)
        if leaves is None:
            leaves = parse.cache[key] = table(ctx, eng, key)
        s = param(P, key, 0)
        arr = ("array", tuple(T.I(b, "u8") for b in text.encode()))
        r = parse.memo[(key, text)] = T.eval_table(eng, leaves, {s: ("refv", arr), ("obj", s): arr})
        return r
    parse.cache, parse.memo = {}, {}

    def roundtrip(name, ty, suffix, values, want_text):
        bad, texts = [], {}
        for label, v in values:
            txt = display_text(ctx, eng, ty, v)
            texts[label] = txt
            if txt is None:
                bad.append((label, f"Display for {ty} could not be reduced to text for {label}"))
                continue
            if want_text is not None and txt != want_text(label):
                bad.append((label, f"{ty} {label} is written as {txt!r}, expected {want_text(label)!r}"))
            back = parse(suffix, txt)
            if back != some(v):
                bad.append((label, f"{ty} {label} is written as {txt!r}, which parses back to {T.show(back)}"))
        ctx.bulk(name, len(values), bad, f"text form of {ty} does not round-trip", sample=dict(list(texts.items())[:4]))

    roundtrip("File", BB + "pos::File", "pos::File", [(R.FILES[f].lower(), fv(f)) for f in range(8)], lambda l: l)
    roundtrip("Rank", BB + "pos::Rank", "pos::Rank", [(str(r + 1), rv(r)) for r in range(8)], lambda l: l)
    roundtrip("Pos", BB + "pos::Pos", "pos::Pos", [(f"{R.FILES[f].lower()}{r+1}", pv(f, r)) for f in range(8) for r in range(8)], lambda l: l)
    roundtrip("PromotionPiece", BB + "piece::PromotionPiece", "piece::PromotionPiece",
              [(n[0] if n != "Knight" else "N", unit_variant(promo_adt, n)) for n in ("Knight", "Bishop", "Rook", "Queen")], lambda l: l)

    # non-promotion moves: the writer's shape on an opaque move, then squares through the tables above
    mkey = "<chess_movegen::ChessMove as core::fmt::Display>::fmt"
    ctx.used_body(mkey)
    leaves = eng.tabulate(mkey)
    slf = ("obj", ("param", 0, "self"))
    none_leaf = [lf for lf in leaves if lf.known.get(("field", slf, "piece")) == "None"]
    want_trace = [("emit", "disp", ("field", slf, "source"), BB + "pos::Pos"), ("emit", "lit", "-"), ("emit", "disp", ("field", slf, "dest"), BB + "pos::Pos")]
    ok = len(none_leaf) == 1 and [t for t in none_leaf[0].trace if t[0] == "emit"] == want_trace
    ctx.ob("ChessMove writer shape", ok, f"a non-promotion move is not written as <source>-<dest>: {[t[1:] for lf in none_leaf for t in lf.trace][:6]}",
           site=P.body(mkey).get("def_span"), sample={"shape": "{source}-{dest}"})
    if ok:
        mp = P.find_fn("ChessMove::from_ascii_bytes", "chess_movegen")
        mleaves = table(ctx, eng, mp) if False else None
        # the 5-byte form `<sq>-<sq>` is accepted with source = bytes (0,1), dest = bytes (3,4) (R3) and squares round-trip (above):
        # compose the two facts for all 64x64 pairs on the tables
        bad, n = [], 0
        sq_text = {c: display_text(ctx, eng, BB + "pos::Pos", pv(*c)) for c in g.sq}
        for a in g.sq:
            for b in g.sq:
                n += 1
                txt = f"{sq_text[a]}-{sq_text[b]}"
                if len(txt) != 5 or txt[2] != "-" or parse("pos::Pos", txt[0:2]) != some(pv(*a)) or parse("pos::Pos", txt[3:5]) != some(pv(*b)):
                    bad.append((txt, f"move {a}->{b} is written {txt!r}, which the parser's 5-byte shape does not map back"))
        ctx.bulk("ChessMove round trip", n, bad, "non-promotion move text does not parse back", sample={"moves": n})


ITERS = [("color::AllColorIter", "color::Color", 2), ("side::AllSideIter", "side::Side", 2), ("piece::AllPieceIter", "piece::Piece", 6),
         ("pos::AllFileIter", "pos::File", 8), ("pos::AllRankIter", "pos::Rank", 8)]
METHODS = [("core::iter::traits::iterator::Iterator", "next", "Iterator"), ("core::iter::traits::iterator::Iterator", "nth", "Iterator"),
           ("core::iter::traits::double_ended::DoubleEndedIterator", "next_back", "DoubleEndedIterator"),
           ("core::iter::traits::double_ended::DoubleEndedIterator", "nth_back", "DoubleEndedIterator")]


@rule("C19.R6", "the enumerating iterators override no Iterator method beyond the audited ones")
def r6(ctx):
    types = ["chess_bitboard::color::AllColorIter", "chess_bitboard::piece::AllPieceIter", "chess_bitboard::pos::AllFileIter", "chess_bitboard::pos::AllRankIter",
             "chess_bitboard::side::AllSideIter", "chess_bitboard::pos::AllPosIter", "chess_bitboard::pos::FileIter", "chess_bitboard::pos::RankIter"]
    new = k2.unaudited_overrides(ctx.P, types)
    ctx.ob("no unaudited Iterator override", not new, f"an enumerating iterator now overrides {new}: R5 (every audited method forwards to Range<u8>) does not cover it", sample={"types": len(types)})


@rule("C19.R5", "enum iterators: range 0..N, every method forwards to the same method of Range<u8>")
def r5(ctx):
    P = ctx.P
    eng = T.Engine(P)
    for it, en, n in ITERS:
        it_adt = P.find_adt(it, "chess_bitboard")
        en_adt = P.find_adt(en, "chess_bitboard")
        variants = {d: nm for nm, d in P.enum_variants(en_adt)}
        # constructor
        allk = P.find_fn(en + "::all", "chess_bitboard")
        lv = table(ctx, eng, allk)
        want = ("adt", it_adt, it_adt.rsplit("::", 1)[1], (("adt", "core::ops::range::Range", "Range", (T.I(0, "u8"), T.I(n, "u8"))),))
        ctx.ob(f"{en}::all", len(lv) == 1 and lv[0].ret == want and len(variants) == n, f"{en}::all() builds {T.show(lv[0].ret) if lv else None}, expected the range 0..{n} (= number of variants {len(variants)})",
               site=P.body(allk).get("def_span"), sample=T.show(lv[0].ret) if lv else None)
        for trait, m, short in METHODS:
            key = f"<{it_adt} as {trait}>::{m}"
            leaves = table(ctx, eng, key)
            rng = ("refv", None)
            fwd_ok, map_ok, seen_vals = True, True, set()
            for lf in leaves:
                apps = [t for t in T_flatten(lf.cond) if t[0] == "app"]
                for a in apps:
                    nm = T.strip_generics(a[1])
                    if not (nm.endswith(f"::{m}") and "Range<" in a[1] and short in a[1]):
                        fwd_ok = False
                    arg0 = a[2][0]
                    is_ref = arg0[0] == "ref" and arg0[1][0] == "ext" and arg0[1][1] == ("param", 0, "self") and arg0[1][2] and arg0[1][2][0][2] == "range"
                    is_refv = arg0[0] == "refv" and arg0[1] == ("field", ("obj", ("param", 0, "self")), "range")
                    if not (is_ref or is_refv):
                        fwd_ok = False
                    if m in ("nth", "nth_back") and (len(a[2]) < 2 or a[2][1] != ("param", 1, "a1")):
                        fwd_ok = False
                if not apps:
                    fwd_ok = False
                # value mapping: inner Some(k) -> Some(variant k); None -> None; k >= N -> panic/UB path
                k = [v for t, v in lf.cond if t[0] == "vfield" and isinstance(v, int)]
                inner_none = any(t[0] == "discr" and v == "None" for t, v in lf.cond)
                if inner_none:
                    map_ok &= lf.ret == OPT_NONE
                elif k:
                    seen_vals.add(k[0])
                    map_ok &= lf.ret == some(unit_variant(en_adt, variants.get(k[0], "?")))
                else:
                    # an inner value outside 0..N (never produced by the range 0..N): must not be turned into a variant
                    map_ok &= lf.ret[0] == "panic" or lf.ret == OPT_NONE
            ctx.ob(f"{it}::{m}", fwd_ok and map_ok and seen_vals == set(range(n)),
                   f"{it}::{m}: forwards to Range::{m} on self.range: {fwd_ok}; maps k to variant k and None to None: {map_ok}; values covered {sorted(seen_vals)}",
                   site=P.body(key).get("def_span"), sample={"forwards_to": f"Range<u8>::{m}", "values": sorted(seen_vals)})
        key = f"<{it_adt} as core::iter::traits::iterator::Iterator>::size_hint"
        leaves = table(ctx, eng, key)
        ok = len(leaves) == 1 and leaves[0].ret[0] == "app" and "Range<" in leaves[0].ret[1] and T.strip_generics(leaves[0].ret[1]).endswith("::size_hint")
        ctx.ob(f"{it}::size_hint", ok, f"{it}::size_hint does not forward to Range::size_hint: {T.show(leaves[0].ret) if leaves else None}", site=P.body(key).get("def_span"),
               sample="Range<u8>::size_hint(&self.range)")


def T_flatten(cond):
    out = []

    def walk(t):
        if isinstance(t, tuple):
            out.append(t)
            for x in t:
                walk(x)
    for t, _ in cond:
        walk(t)
    return out


# ------------------------------------------------------------------ controls
def _file_no_fold(P):
    # drop the `| 0x20` case folding: upper-case files are rejected
    b = P.own("fns", BB + "pos::File::from_ascii_byte")
    for blk in b["blocks"]:
        for s in blk["s"]:
            r = s.get("r", {})
            if r.get("k") == "bin" and r.get("op") == "BitOr":
                r["b"]["c"]["int"] = "0"
                r["b"]["c"]["bits"] = "0"


def _rank_flip_off(P):
    b = P.own("fns", BB + "pos::Rank::flip")
    for blk in b["blocks"]:
        for s in blk["s"]:
            r = s.get("r", {})
            if r.get("k") == "bin" and r.get("op", "").startswith("Sub"):
                r["a"]["c"]["int"] = "6"
                r["a"]["c"]["bits"] = "6"


def _swap_from_u8(P):
    b = P.own("fns", BB + "piece::Piece::from_u8")
    for blk in b["blocks"]:
        for s in blk["s"]:
            r = s.get("r", {})
            if r.get("k") == "agg" and r.get("vn") in ("Rook", "Bishop"):
                r["vn"] = "Rook" if r["vn"] == "Bishop" else "Bishop"


def _promo_letter(P):
    b = P.own("fns", f"<{BB}piece::PromotionPiece as core::fmt::Display>::fmt")
    for blk in b["blocks"]:
        for s in blk["s"]:
            o = s.get("r", {}).get("o", {})
            if o.get("k") == "const" and o.get("ty") == "char" and o["c"].get("int") == str(ord("N")):
                o["c"]["int"] = o["c"]["bits"] = str(ord("K"))


def _iter_range(P):
    b = P.own("fns", BB + "pos::File::all")
    for blk in b["blocks"]:
        for s in blk["s"]:
            for o in [x for x in __import__("analysis.facts", fromlist=["walk_operands"]).walk_operands(s) if x.get("k") == "const"]:
                if o.get("c", {}).get("int") == "8":
                    o["c"]["int"] = o["c"]["bits"] = "7"


CONTROLS = [
    ("File::from_ascii_byte without case folding", "C19.R3", _file_no_fold),
    ("Rank::flip computes 6 - r", "C19.R2", _rank_flip_off),
    ("Piece::from_u8 swaps Rook/Bishop", "C19.R1", _swap_from_u8),
    ("PromotionPiece::Knight displayed as 'K'", "C19.R4", _promo_letter),
    ("File::all() = 0..7", "C19.R5", _iter_range),
]
