"""C11 - search returns a legal move whenever the time limit may expire."""
from analysis.runner import rule
from analysis.facts import AnchorError
from analysis import terms as T, k2
from analysis.cfg import cfg_of

THOROUGH_CONFIGS = ['release', 'nobmi2', 'engine-alone']
LEVEL = "other"
DECIDED = ("R1 every value that can reach the move component of search_with's result is None or was produced by MoveGen::next on a generator created by legals() of the "
           "function's own board parameter (directly or carried over from the previous pass); R2 Engine::search dispatches White->search_with::<White>, Black->search_with::<Black> "
           "on board.turn() and the policies' COLOR constants match, so the colour assertion cannot fire; R4 every cycle of the deepening loop polls timeout.is_complete() on an edge "
           "that leaves the loop (no pass can complete without the limit being consulted); R5 the result is only returned from behind the deepening loop (no early exit that skips "
           "the search while legal moves may exist); R3 (no panic) is the C07 obligation set restricted to Engine::search's call tree and is reported there.")
DECIDED = DECIDED + ' R90 premises re-run here: C14 C14.R2, C14.R5; C16 C16.R2; C03 C03.R4, C03.R6.'
DECIDED = DECIDED + ' R6 every exit of the deepening loop that is not a timeout exit (the stop on a mate score) is dominated by the store of the finished pass best move into the returned value.'
DECIDED = DECIDED + ' R7 every panic / assert / unsafe site reachable from Engine::search is discharged (the C07 ledger restricted to the call tree of the search).'
NOT_DECIDED = "termination of each pass as such (depends on the move generator being finite: C10) and 'returns a move whenever the first pass finished' beyond R5 (depends on scores)"
EXPLANATION = "K2: reaching-definition closure (origins) of the returned move; loop/exit structure of the deepening loop; K4 table for the dispatch."

ENG = "chess_engine::"
LEGALS = "chess_movegen::iter::<impl chess_movegen::Board>::legals"


def return_sites(body):
    return [(bi, s) for bi, blk in enumerate(body["blocks"]) for s in blk["s"] if s["k"] == "assign" and s["p"]["l"] == 0 and not s["p"]["pj"]]


@rule("C11.R1", "provenance of the returned move")
def r1(ctx):
    P = ctx.P
    key = P.find_fn("Engine::search_with", "chess_engine")
    ctx.used_body(key)
    body = P.body(key)
    site = body.get("def_span")
    rs = return_sites(body)
    board_params = {l["n"] for l in body["locals"][1:body["argc"] + 1] if l["ty"].lstrip("&").replace("mut ", "").strip() == "chess_movegen::Board"}
    ctx.floor("return sites", len(rs), 1)
    for bi, s in rs:
        r = s["r"]
        if not (r.get("k") == "agg" and r.get("ak") == "tuple" and len(r["ops"]) == 2):
            ctx.ob(f"return@{bi} shape", False, "search_with's result is not built as a (move, score) pair", site=site)
            continue
        o = r["ops"][0]
        src = k2.origins(P, body, o["p"]["l"]) if o.get("k") in ("copy", "move") else {("const", str(k2.describe_operand(P, body, o)))}
        bad = []
        for x in src:
            if x[0] == "const" and x[1].endswith("Option::None"):
                continue
            if x[0] == "call" and "MoveGen as core::iter::traits::iterator::Iterator>::next" in x[1]:
                # the generator: next(&mut gen) where gen comes (through into_iter / &mut) from legals(board param)
                def from_legals(os, depth=0):
                    for y in os:
                        if y[0] == "call" and y[1] == LEGALS:
                            return all(z[0] == "param" and z[1] in board_params for a in y[2] for z in a)
                        if y[0] == "call" and ("IntoIterator>::into_iter" in y[1]) and depth < 4:
                            if from_legals([z for a in y[2] for z in a], depth + 1):
                                return True
                    return False
                if from_legals([z for a in x[2] for z in a]):
                    continue
            bad.append(str(x)[:200])
        ctx.ob(f"return@{rs.index((bi, s))} move provenance", not bad, f"the returned move can originate from {bad}: not from MoveGen::next of board.legals()", site=site,
               sample={"origins": len(src)})


@rule("C11.R2", "dispatch on the side to move; policy colours")
def r2(ctx):
    P = ctx.P
    key = P.find_fn("Engine::search", "chess_engine")
    ctx.used_body(key)
    sw = [k for k in P.fns if k.startswith(ENG + "Engine::search_with") and "{closure" not in k and "promoted" not in k]
    lv = T.Engine(P, opaque=set(sw)).tabulate(key)
    got = {}
    for lf in lv:
        turn = None
        for t, v in lf.cond:
            if t[0] == "discr":
                inner = t[1]
                if inner == ("field", ("obj", ("param", 1, "a1")), "turn") or (inner[0] == "app" and inner[1].endswith("Board::turn")):
                    turn = v
        if lf.ret[0] == "app":
            got[turn] = lf.ret[1].split("search_with::<")[1].split(",")[0] if "search_with::<" in lf.ret[1] else lf.ret[1]
            ok_args = lf.ret[2][1] in (("refv", ("obj", ("param", 1, "a1"))), ("param", 1, "a1"))
            ctx.ob(f"dispatch[{turn}] passes the same board", ok_args, "search passes a different board to search_with", site=P.body(key).get("def_span"))
    ctx.ob("dispatch table", got == {"White": ENG + "White", "Black": ENG + "Black"}, f"Engine::search dispatches {got}; expected White->White, Black->Black",
           site=P.body(key).get("def_span"), sample=got)
    for pol, col in (("White", "White"), ("Black", "Black")):
        ck = f"<{ENG}{pol} as {ENG}Policy>::COLOR"
        v = T.Engine(P).eval_closed(T.State(), ck)
        ctx.ob(f"{pol}::COLOR", v == ("adt", "chess_bitboard::color::Color", col, ()), f"{ck} = {T.show(v)}", sample=T.show(v))


@rule("C11.R4", "every deepening pass polls the timeout on a loop-exit edge")
def r4(ctx):
    P = ctx.P
    key = P.find_fn("Engine::search_with", "chess_engine")
    body = P.body(key)
    site = body.get("def_span")
    c = cfg_of(body)
    loops = c.loops()
    if not loops:
        raise AnchorError("search_with has no loop")
    outer = max(loops, key=lambda h: len(loops[h]))
    bl = loops[outer]
    polls = set()
    for x in bl:
        t = body["blocks"][x]["t"]
        if t["k"] != "switch":
            continue
        d = k2.describe_operand(P, body, t["d"])
        if d[0] == "call" and "is_complete" in d[1]:
            exits = [s for s in c.succ[x] if s not in bl]
            true_targets = [b for v, b in t["tg"] if int(v) != 0] + ([t["o"]] if all(int(v) == 0 for v, _ in t["tg"]) else [])
            if any(s in exits for s in true_targets):
                polls.add(x)
    ctx.floor("timeout polls that leave the deepening loop", len(polls), 1)
    # can the header reach itself inside the loop avoiding every such poll block?
    seen, st = set(), [s for s in c.succ[outer] if s in bl]
    cyc = False
    while st:
        x = st.pop()
        if x in seen or x in polls or x not in bl:
            continue
        seen.add(x)
        for s in c.succ[x]:
            if s == outer:
                cyc = True
            st.append(s)
    ctx.ob("every pass polls the timeout", not cyc, "the deepening loop has a cycle that never consults timeout.is_complete() on an exit edge: with no legal move (or an unlucky path) "
           "the search can outlive the limit or overflow the depth counter", site=site, sample={"exit_polls": len(polls)})


@rule("C11.R5", "the result is returned only from behind the deepening loop")
def r5(ctx):
    P = ctx.P
    key = P.find_fn("Engine::search_with", "chess_engine")
    body = P.body(key)
    site = body.get("def_span")
    c = cfg_of(body)
    loops = c.loops()
    outer = max(loops, key=lambda h: len(loops[h]))
    for bi, s in return_sites(body):
        ok = c.dominates(outer, bi)
        if not ok:
            g = k2.guard_calls(k2.guards_of(P, key, bi))
            ok = any("MoveGen::is_empty" in k_ and v[0] is True for k_, v in g.items())
        ctx.ob(f"return@{bi} after the loop", ok, "search_with returns a result on a path that never enters the deepening loop: legal moves may exist and none is returned", site=site)


def _best_from_param(P):
    key = P.find_fn("Engine::search_with", "chess_engine")
    b = P.own("fns", key)
    # make the move loop's `mv` come from an unrelated call
    for blk in b["blocks"]:
        t = blk["t"]
        if t["k"] == "call" and "MoveGen as core::iter::traits::iterator::Iterator>::next" in t["f"].get("fn_args", ""):
            t["f"]["fn_args"] = t["f"]["fn"] = "chess_engine::random_move"
            break


def _dispatch_swapped(P):
    b = P.own("fns", ENG + "Engine::search")
    for blk in b["blocks"]:
        t = blk["t"]
        if t["k"] == "switch" and len(t["tg"]) == 2:
            t["tg"][0][1], t["tg"][1][1] = t["tg"][1][1], t["tg"][0][1]


@rule("C11.R6", "a finished pass is committed before the deepening loop can be left for any reason other than the timeout")
def r6(ctx):
    """`it returns a move whenever legal moves exist and its first pass finished`: the only way out of the deepening loop that does not come from
    the timeout (the stop on a mate score) must lie behind the statements that copy the pass's best move into what is returned."""
    P = ctx.P
    key = P.find_fn("Engine::search_with", "chess_engine")
    ctx.used_body(key)
    body = P.body(key)
    site = body.get("def_span")
    c = cfg_of(body)
    loops = c.loops()
    if not loops:
        raise AnchorError("search_with has no loop")
    outer = max(loops, key=lambda h: len(loops[h]))
    bl = loops[outer]
    # the locals the returned pair is read from: follow single-definition copies (compiler temporaries, `let S { a, b } = acc`) back to the
    # local(s) that are assigned more than once - the accumulator(s) of the result - by index, not by name
    def base(l, depth=0):
        defs = k2.local_defs(body, l)
        if depth < 6 and len(defs) == 1 and defs[0][0] == "stmt":
            r = defs[0][2]["r"]
            if r.get("k") == "use" and r["o"].get("k") in ("copy", "move"):
                return base(r["o"]["p"]["l"], depth + 1)
        return l
    res = set()
    for bi, s in return_sites(body):
        for o in __import__("analysis.facts", fromlist=["x"]).walk_operands(s):
            if o.get("k") in ("copy", "move"):
                res.add(base(o["p"]["l"]))
    def holds_move(l):
        ty = body["locals"][l]["ty"]
        return "ChessMove" in ty or "ChessMove" in str(P.adts.get(ty, ""))
    mv_locals = {l for l in res if holds_move(l)}
    commits = [bi for bi in bl for s in body["blocks"][bi]["s"] if s["k"] == "assign" and s["p"]["l"] in mv_locals]
    ctx.floor("commit sites of the returned move inside the deepening loop", len(commits), 1)
    wr = k2.ab_wrappers(P)
    n = 0
    for x in bl:
        for s_ in c.succ[x]:
            if s_ in bl or body["blocks"][s_]["t"]["k"] == "unreachable" or body["blocks"][s_].get("cleanup"):
                continue
            t_ = body["blocks"][x]["t"]
            if t_["k"] in ("assert",) or (t_["k"] == "call" and s_ != t_.get("t")):
                continue
            d = k2.describe_operand(P, body, t_["d"]) if t_["k"] == "switch" else None
            timeout = bool(d) and ((d[0] == "call" and "is_complete" in d[1]) or (d[0] == "discr" and d[1][0] == "call" and wr.get(T.strip_generics(d[1][1]), {}).get("form") == "option"))
            if not timeout:
                gs = k2.guard_calls(k2.guards_of(P, key, x))
                timeout = any("is_complete" in c_ and v[0] is True for c_, v in gs.items())
            if timeout:
                continue
            n += 1
            ok = any(c.dominates(cb, x) for cb in commits)
            ctx.ob(f"exit@bb{n} behind the commit", ok, f"search_with can leave the deepening loop on {str(d)[:100]} (not the timeout) before the finished pass's best move was stored into the result: "
                   "the search returns no move although a pass completed", site=site, sample={"exit": str(d)[:60]})
    ctx.floor("non-timeout exits of the deepening loop", n, 1)


@rule("C11.R7", "it never panics: every panic / assert / unsafe site reachable from Engine::search is discharged (C07 ledger restricted to the search's call tree)")
def r7(ctx):
    from rules import C07
    P = ctx.P
    roots = [P.find_fn("Engine::search", "chess_engine")]
    sites, fns, probs = C07.discharge_subset(ctx, roots, "C11")
    ctx.floor("functions reachable from Engine::search", len(fns), 20)
    ctx.bulk("obligation sites below Engine::search", len(sites), [])
    for pr in probs:
        ctx.ob("totality:" + pr.split(":")[0][:80], False, "the search can reach an unchecked operation that is no longer discharged: " + pr[:300])


@rule("C11.R90", 'premises shared with other properties: C14 (C14.R2, C14.R5); C16 (C16.R2); C03 (C03.R4, C03.R6)')
def r_premises_shared(ctx):
    """This property's argument rests on these rules of other properties (what it calls is assumed to behave); they are re-run here so that a
    breakage of one of them is reported by this property's own check as well."""
    from analysis.runner import premise
    premise(ctx, 'C14', ['C14.R2', 'C14.R5'] and set(['C14.R2', 'C14.R5']), 'the root keeps a move only when the score order says it is better; the order is no longer the stated one')
    premise(ctx, 'C16', ['C16.R2'] and set(['C16.R2']), 'the move the plugin hands out crosses the ABI encoding; an optional move no longer decodes to itself')
    premise(ctx, 'C03', ['C03.R4', 'C03.R6'] and set(['C03.R4', 'C03.R6']), 'the search trusts the cached check information of the root; its from-scratch computation is no longer exact')


CONTROLS = [
    ("a root move drawn from something else than MoveGen::next", "C11.R1", _best_from_param),
    ("dispatch swapped", "C11.R2", _dispatch_swapped),
]
