"""C01 - generated moves are exactly the legal moves of chess (structural clauses)."""
from analysis.runner import rule
from analysis.facts import AnchorError
from analysis import terms as T, k2
from analysis import chessref as R
from analysis.cfg import cfg_of
from analysis.effects import canon, subterms, acnorm, strip_casts

THOROUGH_CONFIGS = ['release', 'nobmi2', 'movegen-alone']
LEVEL = "other"
DECIDED = ("R1 dispatch: no checker -> all six piece generators without check restriction; exactly one checker -> the same six with the check mask (king: evasion); otherwise king only; "
           "R2 every non-king generator loops over (own pieces of its type minus pinned) with destinations pseudo_legals(src, turn, occupancy, mask) & check_mask and, only when not in check "
           "and the piece type can move when pinned (knights cannot), over (own pinned pieces) with destinations restricted to the line through the king; empty entries are skipped; "
           "check_mask is between(king, the single checker) | checkers; R3 king: king_moves & mask minus every destination where is_legal_king_position fails, castling added only when not in "
           "check, the right is held, the squares between are empty and both transit squares are safe; is_legal_king_position is exactly: no enemy bishop/queen (rook/queen) on a ray with nothing "
           "between on the occupancy WITH THE KING LIFTED, no enemy king/knight adjacent by their tables, no enemy pawn on the squares from which it attacks; "
           "R4 pseudo_legals of each piece type is its lookup & mask; R5 en passant: the capture is generated iff the target is in the mask and, with both pawns removed and the target filled, "
           "no enemy rook/queen or bishop/queen attacks the king through rook_moves/bishop_moves of that occupancy and no enemy knight or other pawn attacks it; candidates are the mover's pawns "
           "on the capture rank and adjacent files, pinned or not; R6 the promotion flag is `source rank == the mover's seventh rank`.")
DECIDED = DECIDED + ' R6 (numbered apart from the clause above) premise re-run here: the cached `checkers` / `pinned` sets the generator filters by are computed exactly, from scratch and incrementally (C03.R3, R5, R6).'
DECIDED = DECIDED + ' R3 also: the king-step filter may be an explicit loop or `.filter(|d| board.is_legal_king_position(d)).collect()` (closure evaluated); the ray scan of is_legal_king_position may be a loop or `.any(closure)`; the castling (side, files, safe files) table is compared by value wherever it is written; the final emptiness tests are decided over the 8 emptiness combinations of the three attacker sets. R2: check_mask takes the king square or looks it up itself (own king of the side to move). R5: `x == 0` / `x != 0` tests normalised.'
DECIDED = DECIDED + ' R90 premises re-run here: C09 C09.R1, C09.R2, C09.R3; C08 C08.R1, C08.R2; C02 C02.R9.'
DECIDED = DECIDED + ' R7 every loop over candidate pieces in the generators (pawn, generic, king; and their private helpers) is left only by exhausting its iterator (no break / early return that would drop the remaining candidates).'
NOT_DECIDED = ("which squares actually come out on a given position: the meaning of the bitboard formulas on real boards is not decided statically (the lookups themselves are C08/C09); "
               "'each exactly once' relies on C10's entry list semantics")
EXPLANATION = ("K4 path summaries with the generic-iteration abstraction: for each generator the iteration domain, the pushed entry and its guards are extracted as terms and compared, "
               "modulo associativity/commutativity, with the formulas the rules of chess prescribe for that case. These are necessary conditions stated on the program's own dataflow.")

PT = "chess_movegen::iter::pieces::"
MG = "chess_movegen::"
LOOKUPS = {"chess_lookup::" + n for n in ("knight_moves", "king_moves", "pawn_moves", "pawn_attacks_moves", "bishop_moves", "rook_moves", "bishop_rays", "rook_rays", "between", "line")}
NEXT = "<chess_bitboard::BitBoardIter as core::iter::traits::iterator::Iterator>::next"
KING_SQ = MG + "Board::king_sq"
CHECK_MASK = PT + "check_mask"
LEGAL_KING = PT + "<impl chess_movegen::Board>::is_legal_king_position"
PUSH = "arrayvec::arrayvec::ArrayVec::<T, CAP>::push_unchecked"
PIECE, COLOR = "chess_bitboard::piece::Piece", "chess_bitboard::color::Color"


def fld(b, *names):
    for n in names:
        b = ("field", b, n)
    return b


def word(b):
    return ("field", b, "0")


class Ctxt:
    """Term builders for a generator body whose board parameter is `board`."""

    def __init__(self, P, board, turn=None):
        self.P = P
        self.g = R.Geo(P)
        self.B = board
        self.turn = turn if turn is not None else fld(board, "turn")
        self.eng = T.Engine(P)

    def cidx(self, color_term):
        if color_term[0] == "adt":
            return T.I(self.g.color[0 if color_term[2] == "White" else 1], "usize")
        return ("cast", "usize", ("discr", color_term))

    def colors(self, color_term):
        return word(("index", fld(self.B, "raw", "colors"), self.cidx(color_term)))

    def pieces(self, name):
        return word(("index", fld(self.B, "raw", "pieces"), T.I(self.g.piece[name], "usize")))

    def all(self):
        return self.eng.binop("BitOr", self.colors(("adt", COLOR, "White", ())), self.colors(("adt", COLOR, "Black", ())))

    def AND(self, *xs):
        r = xs[0]
        for x in xs[1:]:
            r = self.eng.binop("BitAnd", r, x)
        return r

    def OR(self, *xs):
        r = xs[0]
        for x in xs[1:]:
            r = self.eng.binop("BitOr", r, x)
        return r

    def NOT(self, x):
        return self.eng.unop("Not", x)


def bb(w):
    return ("adt", "chess_bitboard::BitBoard", "BitBoard", (w,))


def unbb(t):
    return t[3][0] if t[0] == "adt" and t[2] == "BitBoard" else word(t) if t[0] == "app" else t


def loop_records(eng, key, subst_conds=None):
    """Per loop iteration that pushes an entry: domain, entry fields, path conditions."""
    rets, loops, panics = eng.paths(key)
    recs = []
    for lf in loops + rets:
        pushes = [tr for tr in lf.trace if tr[0] == "call" and tr[1] == PUSH]
        dom = None
        for t, v in lf.cond:
            if t[0] == "discr" and t[1][0] == "app" and t[1][1] == NEXT and v == "Some":
                a = t[1][2][0]
                a = a[1] if a[0] == "refv" else a
                dom = a      # BitBoardIter(BitBoard(D)) -- the last `Some` is the innermost loop
        recs.append({"leaf": lf, "pushes": pushes, "domain": dom, "kind": lf.ret[0]})
    return recs, rets, loops, panics


def entry_fields(P, tr):
    v = tr[2][1]
    names = [f["name"] for f in P.adt(MG + "iter::LegalMovesAt")["variants"][0]["fields"]]
    return dict(zip(names, v[3])) if v[0] == "adt" else {}


def iter_domain(dom):
    """BitBoardIter(BitBoard(D)) or BitBoardIter(x) -> word term D."""
    if dom is None:
        return None
    d = dom
    while d[0] == "loopvar":
        d = d[3]        # the iterator's value on loop entry
    if d[0] == "refv":
        d = d[1]
    if d[0] == "adt" and d[2] == "BitBoardIter":
        d = d[3][0]
    return unbb(d)


def assoc_const(P, ty, name):
    k = f"<{ty} as {PT}PieceType>::{name}"
    if k in P.const_bodies:
        return T.Engine(P).eval_closed(T.State(), k)
    return T.Engine(P).eval_closed(T.State(), f"{PT}PieceType::{name}")


@rule("C01.R4", "pseudo_legals of each piece type is its lookup & mask")
def r4(ctx):
    P = ctx.P
    eng = T.Engine(P, opaque=LOOKUPS)
    src, color, comb, mask = ("param", 0, "a0"), None, None, None
    want = {
        "Knight": lambda a: [("app", "chess_lookup::knight_moves", (a[0],))],
        "King": lambda a: [("app", "chess_lookup::king_moves", (a[0],))],
        "Bishop": lambda a: [("app", "chess_lookup::bishop_moves", (a[0], a[2]))],
        "Rook": lambda a: [("app", "chess_lookup::rook_moves", (a[0], a[2]))],
        "Queen": lambda a: [("app", "chess_lookup::rook_moves", (a[0], a[2])), ("app", "chess_lookup::bishop_moves", (a[0], a[2]))],
        "Pawn": lambda a: [("app", "chess_lookup::pawn_moves", (a[0], a[1], a[2]))],
    }
    for ty, mk in want.items():
        key = f"<{PT}{ty} as {PT}PieceType>::pseudo_legals"
        ctx.used_body(key)
        body = P.body(key)
        a = [("param", i, body["locals"][i + 1].get("n", f"arg{i}")) for i in range(4)]
        lv = eng.tabulate(key)
        ws = [word(x) for x in mk(a)]
        inner = ws[0]
        for w in ws[1:]:
            inner = eng.binop("BitOr", inner, w)
        exp = canon(bb(eng.binop("BitAnd", inner, word(a[3]))))
        got = {canon(lf.ret) for lf in lv}
        ctx.ob(f"{ty}::pseudo_legals", got == {exp}, f"{ty}::pseudo_legals computes {[T.show(l.ret)[:120] for l in lv]}; expected its attack lookup(s) & mask", site=body.get("def_span"),
               sample=T.show(lv[0].ret)[:100] if lv else None)
        pc = assoc_const(P, PT + ty, "PIECE")
        ctx.ob(f"{ty}::PIECE", pc == ("adt", PIECE, ty, ()), f"<{ty} as PieceType>::PIECE = {T.show(pc)}", sample=T.show(pc))
    cm = {ty: assoc_const(P, PT + ty, "CAN_MOVE_IF_PINNED") for ty in want}
    ctx.ob("CAN_MOVE_IF_PINNED", all((cm[t] == T.FALSE) == (t == "Knight") for t in ("Knight", "Bishop", "Rook", "Queen")), f"CAN_MOVE_IF_PINNED: {[(t, T.show(v)) for t, v in cm.items()]}; "
           "only knights can never move while pinned", sample={t: T.show(v) for t, v in cm.items()})


@rule("C01.R1", "dispatch on the number of checkers")
def r1(ctx):
    P = ctx.P
    key = MG + "iter::<impl chess_movegen::Board>::collect_moves"
    ctx.used_body(key)
    body = P.body(key)
    # evaluate the extracted dispatch on the number of checkers n = |self.checkers| (the only input the branches may read)
    gen_fns = {k for k in P.fns if "::legals" in k and "PieceType" in k}
    eng = T.Engine(P, opaque=gen_fns)
    eng.trace_calls = set(gen_fns)
    lv = eng.tabulate(key)
    slf = ("obj", ("param", 0, "self"))
    ch = word(fld(slf, "checkers"))

    def ev(t_, n):
        if t_[0] == "int":
            return t_[1]
        if t_[0] == "cast":
            return ev(t_[2], n)
        if t_[0] == "count_ones" and t_[1] == ch:
            return n
        if t_[0] == "bin" and t_[1] in ("Eq", "Ne") and ch in t_[2:] and any(x[0] == "int" and x[1] == 0 for x in t_[2:]):
            return int((n == 0) == (t_[1] == "Eq"))
        if t_[0] == "bin" and t_[1] in ("Eq", "Ne", "Lt", "Le", "Gt", "Ge"):
            a_, b_ = ev(t_[2], n), ev(t_[3], n)
            return int({"Eq": a_ == b_, "Ne": a_ != b_, "Lt": a_ < b_, "Le": a_ <= b_, "Gt": a_ > b_, "Ge": a_ >= b_}[t_[1]])
        if t_[0] == "un" and t_[1] == "Not":
            return 1 - ev(t_[2], n)
        raise AnchorError(f"collect_moves branches on {T.show(t_)[:100]}, which is not a function of the number of checkers")

    def holds(lf, n):
        for t_, v in lf.cond:
            if t_[0] == "assert":
                continue
            x = ev(t_, n)
            if isinstance(v, tuple) and v and v[0] == "not":
                if x in v[1]:
                    return False
            elif x != v:
                return False
        return True

    def gens_of(lf):
        out = []
        for tr in lf.trace:
            if tr[0] == "call" and tr[1] in gen_fns:
                fa = tr[3]
                ty = fa.split(PT)[1].split(" as")[0] if fa.startswith("<") else fa.split(PT)[1].split("::")[0]
                out.append((ty, fa.rsplit("::<", 1)[1].rstrip(">")))
        return out
    six = {"Pawn", "Knight", "Bishop", "Rook", "Queen", "King"}
    want = {0: sorted((t_, "false") for t_ in six), 1: sorted((t_, "true") for t_ in six), 2: [("King", "true")]}
    names = {0: "no checker", 1: "one checker", 2: "two or more checkers"}
    for n in (0, 1, 2, 3, 5, 16):
        hit = [lf for lf in lv if holds(lf, n)]
        if len(hit) != 1:
            raise AnchorError(f"collect_moves: {len(hit)} paths for {n} checkers")
        got = sorted(gens_of(hit[0]))
        w = want[min(n, 2)]
        ctx.ob(f"{names[min(n, 2)]} (n={n})", got == w, f"with {n} checker(s) collect_moves runs {got}; expected {w} "
               "(no check: all six generators unrestricted; single check: every piece may answer; double check: king moves only)", site=body.get("def_span"), sample={"n": n, "generators": got})
    # own pieces are excluded from every destination set: every generator receives !raw[turn] & mask and the board itself
    prm = [("param", i, body["locals"][i + 1].get("n", f"arg{i}")) for i in range(body["argc"])]
    own = word(("index", fld(fld(slf, "raw"), "colors"), ("cast", "usize", ("discr", fld(slf, "turn")))))
    want_mask = canon(("bin", "BitAnd", ("field", prm[1], "0"), ("un", "Not", own)))
    bad = []
    n_calls = 0
    for lf in lv:
        for tr in lf.trace:
            if tr[0] == "call" and tr[1] in gen_fns:
                n_calls += 1
                m = tr[2][2]
                got = canon(m[3][0]) if m[0] == "adt" and m[2] == "BitBoard" else None
                if got != want_mask or tr[2][1] != ("refv", slf):
                    bad.append(T.show(m)[:160])
    ctx.floor("generator calls over all dispatch paths", n_calls, 13)
    ctx.ob("own squares excluded", not bad, f"a generator is called with destination mask {bad[:1]}; expected !raw[turn] & mask on this very board", site=body.get("def_span"),
           sample={"generator calls": n_calls})


@rule("C01.R2", "check mask; non-king generators: domains, destinations, pinned restriction")
def r2(ctx):
    P = ctx.P
    g = R.Geo(P)
    # ---- check_mask
    ctx.used_body(CHECK_MASK)
    eng = T.Engine(P, opaque=LOOKUPS | {"chess_bitboard::BitBoard::pop_unchecked", KING_SQ})
    lv = eng.tabulate(CHECK_MASK)
    board, ksq = ("obj", ("param", 0, "a0")), ("param", 1, "a1")
    # the king square: handed in by the caller, or looked up by check_mask itself (own king of the side to move)
    kings = ([ksq] if P.body(CHECK_MASK)["argc"] == 2 else []) + [("app", KING_SQ, (("refv", board), fld(board, "turn")))]
    ch = fld(board, "checkers")
    got = {}
    for lf in lv:
        flag = [v for t, v in lf.cond if t == ("cparam", "IS_IN_CHECK")]
        if flag:
            got[flag[0]] = lf.ret
    want_true = None
    ok_true = False
    r = got.get(1)
    if r is not None:
        w = unbb(r)
        parts = acnorm(w)
        btw = [x for x in subterms(w) if x[0] == "app" and x[1] == "chess_lookup::between"]
        ok_true = (parts[0] == "ac" and parts[1] == "BitOr" and acnorm(word(ch)) in parts[2] and len(btw) == 1 and btw[0][2][0] in kings
                   and btw[0][2][1][0] == "app" and btw[0][2][1][1].endswith("pop_unchecked"))
    ctx.ob("check_mask in check", ok_true, f"check_mask::<true> = {T.show(r)[:160] if r else None}; expected between(king, the checker) | checkers", site=P.body(CHECK_MASK).get("def_span"))
    ctx.ob("check_mask not in check", got.get(0) == bb(T.I((1 << 64) - 1, "u64")), f"check_mask::<false> = {T.show(got.get(0))[:80] if got.get(0) else None}; expected the full board",
           site=P.body(CHECK_MASK).get("def_span"))
    # ---- generic generator for Knight, Bishop, Rook, Queen; own generator for Pawn
    for ty in ("Knight", "Bishop", "Rook", "Queen", "Pawn"):
        own = f"<{PT}{ty} as {PT}PieceType>::legals"
        key = own if own in P.fns else PT + "PieceType::legals"
        ctx.used_body(key)
        eng = T.Engine(P, opaque=LOOKUPS | {KING_SQ, NEXT, CHECK_MASK, "chess_bitboard::pos::Pos::rank", "chess_bitboard::pos::Pos::new", MG + "Board::ep"}, subst={"Self": PT + ty})
        eng.trace_calls = {PUSH}
        recs, rets, loops, panics = loop_records(eng, key)
        site = P.body(key).get("def_span")
        board = ("obj", ("param", 1, "a1"))
        C = Ctxt(P, board)
        mask = ("param", 2, "a2")
        ksq = ("app", KING_SQ, (("refv", board), C.turn))
        own_set = C.AND(C.colors(C.turn), C.pieces(ty))
        cm_app = None
        can_pin = assoc_const(P, PT + ty, "CAN_MOVE_IF_PINNED") != T.FALSE
        seen = {"unpinned": 0, "pinned": 0}
        for rec in recs:
            if not rec["pushes"]:
                continue
            lf = rec["leaf"]
            ef = entry_fields(P, rec["pushes"][-1])
            dom = iter_domain(rec["domain"])
            if ef.get("moves") is None or dom is None:
                continue
            mv = unbb(ef["moves"])
            if any(x[0] == "app" and x[1].endswith("Board::ep") for t, _ in lf.cond for x in subterms(t)) and ty == "Pawn" and not any(x[0] == "app" and x[1] == "chess_lookup::pawn_moves" for x in subterms(mv)):
                continue        # the en-passant entry: R5
            src = ef["src"]
            in_check = [v for t, v in lf.cond if t == ("cparam", "IS_IN_CHECK")]
            pseudo = C.AND(word(("app", "chess_lookup::pawn_moves", (src, C.turn, bb(C.all())))), word(mask)) if ty == "Pawn" else None
            if ty != "Pawn":
                lk = {"Knight": [("app", "chess_lookup::knight_moves", (src,))], "Bishop": [("app", "chess_lookup::bishop_moves", (src, bb(C.all())))],
                      "Rook": [("app", "chess_lookup::rook_moves", (src, bb(C.all())))],
                      "Queen": [("app", "chess_lookup::rook_moves", (src, bb(C.all()))), ("app", "chess_lookup::bishop_moves", (src, bb(C.all())))]}[ty]
                inner = word(lk[0])
                for x in lk[1:]:
                    inner = C.OR(inner, word(x))
                pseudo = C.AND(inner, word(mask))
            is_pinned_loop = canon(dom) == canon(C.AND(own_set, word(fld(board, "pinned"))))
            is_unpinned_loop = canon(dom) == canon(C.AND(own_set, C.NOT(word(fld(board, "pinned")))))
            cms = [x for x in subterms(mv) if x[0] == "app" and x[1].startswith(CHECK_MASK)]
            lines = [x for x in subterms(mv) if x[0] == "app" and x[1] == "chess_lookup::line"]
            nonempty = any(t[0] == "bin" and t[1] == "Eq" and canon(t[2]) == canon(mv) and t[3] == T.I(0, "u64") and v == 0 for t, v in lf.cond) or \
                any(t[0] == "bin" and t[1] == "Eq" and canon(t[3]) == canon(mv) and t[2] == T.I(0, "u64") and v == 0 for t, v in lf.cond)
            if is_unpinned_loop:
                seen["unpinned"] += 1
                cm_ok = len(cms) == 1 and cms[0][2][0] in (("refv", board), board) and (len(cms[0][2]) == 1 or cms[0][2][1] == ksq)
                ok = cm_ok and canon(mv) == canon(C.AND(pseudo, word(cms[0]))) and not lines and src[0] == "vfield" and nonempty
                ctx.ob(f"{ty} unpinned#{seen['unpinned']}", ok, f"{ty} (not pinned): destinations {T.show(mv)[:200]}; expected pseudo_legals(src, turn, occupancy, mask) & check_mask(board, own king), "
                       f"skipped when empty (non-empty test present: {nonempty})", site=site, sample={"domain": "own & !pinned", "moves": "pseudo & check_mask"})
            elif is_pinned_loop:
                seen["pinned"] += 1
                line_ok = len(lines) == 1 and set(lines[0][2]) == {src, ksq}
                guard_ok = in_check == [0]
                ok = line_ok and canon(mv) == canon(C.AND(pseudo, word(lines[0]))) and guard_ok and can_pin and nonempty
                ctx.ob(f"{ty} pinned#{seen['pinned']}", ok, f"{ty} (pinned): destinations {T.show(mv)[:200]} under IS_IN_CHECK={in_check}; expected pseudo_legals & line(src, own king), only when not in check"
                       f"{'' if can_pin else ' -- and this piece type must not move at all when pinned'}", site=site, sample={"domain": "own & pinned", "moves": "pseudo & line(src, king)"})
            else:
                ctx.ob(f"{ty} loop domain", False, f"{ty}: a generator loop runs over {T.show(dom)[:160]}; expected own pieces of this type split by `pinned`", site=site)
            if ty == "Pawn":
                pr = ef.get("promotion")
                turn = lf.known.get(fld(board, "turn"))
                want_rank = {"White": "_7", "Black": "_2"}.get(turn)
                rk = ("app", "chess_bitboard::pos::Pos::rank", (src,))
                rd = {n_: d_ for n_, d_ in P.enum_variants("chess_bitboard::pos::Rank")}.get(want_rank)
                okp = pr is not None and ((pr[0] == "eq" and set((pr[1], pr[2])) == {rk, ("adt", "chess_bitboard::pos::Rank", want_rank, ())})
                                          or (pr[0] == "bin" and pr[1] == "Eq" and set((pr[2], pr[3])) == {("discr", rk), ("int", rd, "isize")}))
                ctx.ob(f"Pawn promotion flag[{turn}]#{seen['unpinned'] + seen['pinned']}", okp, f"Pawn entry promotion flag is {T.show(pr)[:100] if pr else None} ({turn} to move); expected src.rank() == {want_rank}",
                       site=site, sample={"turn": turn, "rank": want_rank})
            else:
                ctx.ob(f"{ty} promotion flag#{seen['unpinned'] + seen['pinned']}", ef.get("promotion") == T.FALSE, f"{ty} entries carry promotion = {T.show(ef.get('promotion'))}", site=site)
        ctx.ob(f"{ty} has an unpinned loop", seen["unpinned"] >= 1, f"{ty}: no loop over unpinned pieces found", site=site)
        ctx.ob(f"{ty} pinned loop {'present' if can_pin else 'absent'}", (seen["pinned"] >= 1) == can_pin, f"{ty}: pinned-piece loop found {seen['pinned']} time(s); expected {'one' if can_pin else 'none (CAN_MOVE_IF_PINNED = false)'}", site=site)


@rule("C01.R3", "king: safety filter, castling conditions, attacked-square test with the king lifted")
def r3(ctx):
    P = ctx.P
    g = R.Geo(P)
    # ---- is_legal_king_position (exact, modulo AC)
    ctx.used_body(LEGAL_KING)
    eng = T.Engine(P, opaque=LOOKUPS | {KING_SQ, NEXT})
    rets, loops, panics = eng.paths(LEGAL_KING)
    site = P.body(LEGAL_KING).get("def_span")
    board, kp = ("obj", ("param", 0, "self")), ("param", 1, "a1")
    for turn in ("White", "Black"):
        tc = ("adt", COLOR, turn, ())
        oc = ("adt", COLOR, "Black" if turn == "White" else "White", ())
        C = Ctxt(P, board)
        opp = C.colors(oc)
        q = C.pieces("Queen")
        ray = lambda n: word(("app", "chess_lookup::" + n, (kp,)))
        pinners = C.AND(opp, C.OR(C.AND(C.OR(C.pieces("Bishop"), q), ray("bishop_rays")), C.AND(C.OR(C.pieces("Rook"), q), ray("rook_rays"))))
        own_king = ("app", KING_SQ, (("refv", board), fld(board, "turn")))
        bit = lambda s: eng.binop("Shl", T.I(1, "u64"), ("cast", "u8", ("discr", s)))
        lifted = eng.binop("BitXor", C.all(), eng.binop("BitXor", bit(own_king), bit(kp)))
        final = eng.binop("Eq", C.OR(C.AND(word(("app", "chess_lookup::king_moves", (kp,))), C.pieces("King"), opp),
                                     C.AND(word(("app", "chess_lookup::knight_moves", (kp,))), C.pieces("Knight"), opp),
                                     C.AND(word(("app", "chess_lookup::pawn_attacks_moves", (kp, fld(board, "turn")))), C.pieces("Pawn"), opp)), T.I(0, "u64"))
        mine = [lf for lf in rets + loops if lf.known.get(fld(board, "turn")) == turn]
        doms = {canon(iter_domain(a)) for lf in mine for t, v in lf.cond if t[0] == "discr" and t[1][0] == "app" and t[1][1] == NEXT for a in [t[1][2][0][1] if t[1][2][0][0] == "refv" else t[1][2][0]]}
        ctx.ob(f"attackers on rays[{turn}]", doms == {canon(pinners)}, f"is_legal_king_position ({turn} to move) scans {[T.show(d)[:150] for d in doms]}; expected enemy & ((bishops|queens) & bishop_rays | "
               "(rooks|queens) & rook_rays)", site=site, sample="enemy sliders on the square's rays")
        # blocked test: (occupancy with king lifted) & between(king_pos, attacker) == 0 -> false
        blk = []
        for lf in mine:
            for t, v in lf.cond:
                if t[0] == "bin" and t[1] == "Eq" and T.I(0, "u64") in (t[2], t[3]):
                    x = t[2] if t[3] == T.I(0, "u64") else t[3]
                    if any(s_[0] == "app" and s_[1] == "chess_lookup::between" for s_ in subterms(x)):
                        blk.append((x, v, lf.ret))
        ok_blk = bool(blk)
        for x, v, ret in blk:
            btw = [s_ for s_ in subterms(x) if s_[0] == "app" and s_[1] == "chess_lookup::between"]
            ok_blk &= len(btw) == 1 and btw[0][2][0] == kp and canon(x) == canon(C.AND(lifted, word(btw[0])))
            if v == 1:
                ok_blk &= ret == T.FALSE
        ctx.ob(f"ray blocked test[{turn}]", ok_blk, f"is_legal_king_position ({turn}): the slider test is {[T.show(x)[:160] for x, _, _ in blk[:1]]}; expected "
               "(occupancy ^ own king ^ candidate square) & between(candidate, attacker) == empty -> attacked (the king must be lifted off the board)", site=site,
               sample="occupancy with the king lifted")
        fin = {canon(lf.ret) for lf in mine if lf.ret[0] == "bin"}
        fin_ok = fin == {canon(final)}
        if not fin_ok:
            # any arrangement of the three emptiness tests (`a.none() && b.none() && c.none()`, early returns, ...): after the ray scan the
            # function must answer true exactly when all three attacker sets are empty - decided over the 8 emptiness combinations
            import itertools
            parts = [C.AND(word(("app", "chess_lookup::king_moves", (kp,))), C.pieces("King"), opp),
                     C.AND(word(("app", "chess_lookup::knight_moves", (kp,))), C.pieces("Knight"), opp),
                     C.AND(word(("app", "chess_lookup::pawn_attacks_moves", (kp, fld(board, "turn")))), C.pieces("Pawn"), opp)]
            subsets = {canon(C.OR(*[parts[i] for i in s_]) if len(s_) > 1 else parts[s_[0]]): s_ for r_ in (1, 2, 3) for s_ in itertools.combinations(range(3), r_)}
            # every way out except "a slider has an open line to the square" (that answer does not depend on the adjacent attackers): the paths
            # that finished the ray scan, and early answers given before it
            open_line = lambda lf: lf.ret == T.FALSE and any(t[0] == "bin" and t[1] in ("Eq", "Ne") and any(s_[0] == "app" and s_[1] == "chess_lookup::between" for s_ in subterms(t)) for t, v in lf.cond)
            post = [lf for lf in rets if lf.known.get(fld(board, "turn")) == turn and lf.ret[0] != "loopback" and not open_line(lf)]
            def ztest(t, v):
                """(subset of the three attacker sets, expected emptiness) of a condition / result `x == 0`, or None"""
                zt = zero_test(t, v)
                return (subsets[zt[0]], zt[1] == "zero") if zt[1] in ("zero", "nonzero") and zt[0] in subsets else None
            fin_ok = bool(post)
            for z in itertools.product((True, False), repeat=3):          # z[i]: attacker set i is empty
                answers = []
                for lf in post:
                    tests = [ztest(t, v) for t, v in lf.cond if t[0] == "bin" and t[1] in ("Eq", "Ne") and T.I(0, "u64") in (t[2], t[3]) and zero_test(t, v)[0] in subsets]
                    if any(all(z[i] for i in s_) != e_ for s_, e_ in tests):
                        continue
                    if T.is_const(lf.ret):
                        answers.append(bool(lf.ret[1]))
                    else:
                        r_ = ztest(lf.ret, 1) if lf.ret[0] == "bin" else None
                        answers.append(None if r_ is None else (all(z[i] for i in r_[0]) == r_[1]))
                fin_ok = fin_ok and bool(answers) and all(a_ is not None and a_ == all(z) for a_ in answers)
        ctx.ob(f"adjacent attackers[{turn}]", fin_ok, f"is_legal_king_position ({turn}) ends with {[T.show(f_)[:200] for f_ in fin]}; expected no enemy king/knight/pawn on "
               "king_moves/knight_moves/pawn_attacks_moves(candidate, own colour)", site=site, sample="(king|knight|pawn attackers) == 0")
    # ---- king_legals
    key = PT + "King::king_legals"
    ctx.used_body(key)
    CONTAINS = MG + "castle_rights::CastleRights::contains"
    eng = T.Engine(P, opaque=LOOKUPS | {KING_SQ, NEXT, LEGAL_KING, CONTAINS, "<chess_bitboard::BitBoardIter as core::iter::traits::iterator::Iterator>::all"})
    eng.trace_calls = {PUSH}
    eng.unroll_arrays = False       # the per-side castling data is read as a table (one generic iteration), not side by side
    rets, loops, panics = eng.paths(key)
    site = P.body(key).get("def_span")
    board, turn, mask = ("obj", ("param", 1, "a1")), ("param", 2, "a2"), ("param", 3, "a3")
    ksq = ("app", KING_SQ, (("refv", board), turn))
    km = word(("app", "chess_lookup::king_moves", (ksq,)))
    # filter loop: iterates king_moves(ksq) & mask, clears dest when !is_legal_king_position(dest)
    filt = False
    for lf in loops:
        for t, v in lf.cond:
            if t[0] == "app" and t[1] == LEGAL_KING:
                dest = t[2][1]
                dom_ok = any(tt[0] == "discr" and tt[1][0] == "app" and tt[1][1] == NEXT and canon(iter_domain(tt[1][2][0][1] if tt[1][2][0][0] == "refv" else tt[1][2][0])) ==
                             canon(eng.binop("BitAnd", km, word(mask))) for tt, vv in lf.cond)
                filt = filt or (dom_ok and t[2][0] in (("refv", board), board))
    if not filt:
        # adaptor form: moves = (king_moves(king) & mask).iter().filter(|dest| board.is_legal_king_position(dest)).collect::<BitBoard>()
        for lf in rets + loops:
            for t, v in lf.cond:
                for s_ in subterms(t):
                    if not (s_[0] == "app" and "Iterator>::collect::<chess_bitboard::BitBoard>" in s_[1] and len(s_[2]) == 1):
                        continue
                    f_ = s_[2][0]
                    if not (f_[0] == "app" and "Iterator>::filter::<" in f_[1] and len(f_[2]) == 2 and f_[2][1][0] == "closure"):
                        continue
                    it, cl_ = f_[2]
                    caps = cl_[2]
                    try:
                        dom_ok = canon(iter_domain(it)) == canon(eng.binop("BitAnd", km, word(mask)))
                        clv = T.Engine(P, opaque={LEGAL_KING}).tabulate(cl_[1])
                    except (T.NotTabulable, KeyError, IndexError, TypeError):
                        continue
                    env_, item = ("obj", ("param", 0, "a0")), ("param", 1, "a1")
                    cap_board = [i for i, c in enumerate(caps) if c in (("refv", board), board)]
                    pred_ok = (len(clv) == 1 and not clv[0].cond and clv[0].ret[0] == "app" and clv[0].ret[1] == LEGAL_KING and len(cap_board) == 1
                               and clv[0].ret[2][0] in (("refv", ("obj", ("field", env_, cap_board[0]))), ("obj", ("field", env_, cap_board[0])), ("field", env_, cap_board[0]))
                               and clv[0].ret[2][1] in (("obj", item), item))
                    filt = filt or (dom_ok and pred_ok)
    ctx.ob("king step filter", filt, "king_legals does not test is_legal_king_position(board, dest) for every dest of king_moves(king) & mask", site=site, sample="for dest in king_moves & mask")
    # castling: every path that adds CASTLE_MOVES is guarded
    cm_const = P.value_u64s("chess_lookup::CASTLE_MOVES")[0]
    castle_paths = 0
    ok_c = True
    details = []
    for lf in loops + rets:
        # a castling addition shows up as a loop-carried/returned `moves` xor'ed with (castle_tiles & CASTLE_MOVES)
        in_check = [v for t, v in lf.cond if t == ("cparam", "IS_IN_CHECK")]
        held = [(t, v) for t, v in lf.cond if t[0] == "app" and t[1] == CONTAINS]
        empty_tests = [(t, v) for t, v in lf.cond if t[0] == "bin" and t[1] == "Eq" and T.I(0, "u64") in (t[2], t[3]) and any(x == C_all(P, board) for x in subterms(t))] if False else []
        alls = [(t, v) for t, v in lf.cond if t[0] == "app" and "Iterator>::all" in t[1]]
        if alls and any(v == 1 for _, v in alls):
            castle_paths += 1
            g_held = any(v == 1 and t[2][0] == fld(board, "castle_rights") and t[2][2] == turn for t, v in held)
            g_chk = in_check == [0]
            g_empty = any(t[0] == "bin" and t[1] == "Eq" and v == 1 and T.I(0, "u64") in (t[2], t[3]) and "colors" in T.show(t) for t, v in lf.cond)
            ok_c &= g_held and g_chk and g_empty
            details.append((g_held, g_chk, g_empty))
    ctx.ob("castling guards", castle_paths >= 1 and ok_c, f"castling is added on {castle_paths} path(s) with (right held, not in check, squares between empty) = {details[:3]}", site=site,
           sample={"paths": castle_paths})
    # the safety closure of the castling test calls is_legal_king_position on the squares of SAFE_FILES & backrank
    cl = [k for k in P.fns if k.startswith(key + "::{closure")]
    ok_cl = any(any(t["f"].get("fn") == LEGAL_KING for _, t in P.calls(k)) for k in cl)
    ctx.ob("castling transit squares safe", ok_cl, "the castling path-safety test does not call is_legal_king_position", site=site)
    # constants used: CASTLE_MOVES, and per side the (files, safe files) data - compared by value, wherever the table is written
    body = P.body(key)
    walk = __import__("analysis.facts", fromlist=["x"]).walk_operands
    consts = sorted({o.get("from", "") for blk in body["blocks"] for s in (blk["s"] + [blk["t"]]) for o in walk(s) if o.get("k") == "const" and o.get("from", "").startswith("chess_lookup::")})
    cm_used = "chess_lookup::CASTLE_MOVES" in consts or any(s_ == T.I(cm_const, "u64") for lf in rets + loops for x in [lf.ret] + [t for t, _ in lf.cond] for s_ in subterms(x))
    ctx.ob("castling constants", cm_used, f"king_legals does not use chess_lookup::CASTLE_MOVES (constants used: {consts}); values checked by C09.R2", site=site, sample=consts)
    # the (side, files, safe) triples pair king side with king-side files
    val = lambda n: P.value_u64s("chess_lookup::" + n)[0]
    bbc = lambda v: ("adt", "chess_bitboard::BitBoard", "BitBoard", (T.I(v, "u64"),))
    sd = lambda n: ("adt", "chess_bitboard::side::Side", n, ())
    want_pairs = {(sd("King"), bbc(val("KINGSIDE_CASTLE_FILES")), bbc(val("KINGSIDE_CASTLE_SAFE_FILES"))),
                  (sd("Queen"), bbc(val("QUEENSIDE_CASTLE_FILES")), bbc(val("QUEENSIDE_CASTLE_SAFE_FILES")))}
    pairs = set()
    for lf in rets + loops:
        for t, v in lf.cond:
            for s_ in subterms(t):
                if s_[0] == "tuple" and len(s_[1]) == 3 and s_[1][0][0] == "adt" and s_[1][0][1] == "chess_bitboard::side::Side":
                    pairs.add(tuple(s_[1]))
    ctx.ob("castling side/files pairing", pairs == want_pairs, f"castling data triples {[tuple(T.show(x)[:40] for x in p_) for p_ in sorted(pairs)]}; expected (King, KINGSIDE_CASTLE_FILES, KINGSIDE_CASTLE_SAFE_FILES) and "
           "(Queen, QUEENSIDE_CASTLE_FILES, QUEENSIDE_CASTLE_SAFE_FILES) by value", site=site, sample=len(pairs))


def C_all(P, board):
    return None


@rule("C01.R7", "the piece loops of the generators run to exhaustion: a loop over candidate pieces is left only when its iterator is empty")
def r7(ctx):
    """`if attacked { continue }` skips one candidate; `break` (or an early `return`) in its place also drops every later candidate - the second
    pawn that could capture en passant, the pieces after a pinned one."""
    P = ctx.P
    keys = [f"<{PT}Pawn as {PT}PieceType>::legals", PT + "PieceType::legals", PT + "King::king_legals"]
    n = 0
    for key in keys:
        if key not in P.fns:
            continue
        fam = [k for k in k2.private_closure(P, key) if "{closure" not in k and P.fns[k]["crate"] == "chess_movegen" and (k == key or P.fns[k].get("vis") != "pub")]
        for k in sorted(fam):
            body = P.body(k)
            c = cfg_of(body)
            for h, bl in c.loops().items():
                if not any(body["blocks"][b]["t"]["k"] == "call" and body["blocks"][b]["t"]["f"].get("fn", "").endswith("Iterator>::next") for b in bl):
                    continue
                # only loops that produce move-list entries (a scan that answers a yes/no question may stop at the first hit)
                def pushes(fn_, depth=0):
                    if "push_unchecked" in fn_ or (fn_.endswith("::push") and "ArrayVec" in fn_):
                        return True
                    k_ = T.strip_generics(fn_)
                    return depth < 3 and k_ in P.fns and P.fns[k_]["crate"] == "chess_movegen" and any(pushes(t2["f"].get("fn", ""), depth + 1) for _, t2 in P.calls(k_))
                if not any(body["blocks"][b]["t"]["k"] == "call" and pushes(body["blocks"][b]["t"]["f"].get("fn", "")) for b in bl):
                    continue
                n += 1
                bad = []
                for x in bl:
                    for s_ in c.succ[x]:
                        if s_ in bl or body["blocks"][s_]["t"]["k"] == "unreachable" or body["blocks"][s_].get("cleanup"):
                            continue
                        t_ = body["blocks"][x]["t"]
                        d = k2.describe_operand(P, body, t_["d"]) if t_["k"] == "switch" else None
                        exhausted = bool(d) and d[0] == "discr" and d[1][0] == "call" and d[1][1].endswith("Iterator>::next")
                        panics = body["blocks"][s_]["t"]["k"] == "call" and body["blocks"][s_]["t"].get("t") is None
                        if not exhausted and not panics and t_["k"] != "assert" and not (t_["k"] == "call" and s_ != t_.get("t")):
                            bad.append((x, s_))
                ctx.ob(f"{T.short(k)[:60]} loop@{sorted(c.loops()).index(h)}", not bad, f"{k}: a loop over candidate pieces can be left at {bad[:2]} before its iterator is exhausted (break / early return): "
                       "the remaining candidates get no moves", site=body.get("def_span"), sample={"loop_header": h})
    ctx.floor("piece loops", n, 4)


@rule("C01.R6", "premise: the cached checkers / pinned sets the generator reads are computed exactly (C03.R3, C03.R5, C03.R6 re-run)")
def r6(ctx):
    import importlib
    from analysis.runner import Ctx, run_rule, _RULES
    importlib.import_module("rules.C03")
    c = Ctx("C03", ctx.tier, shadow=True)
    c.P = ctx.P
    ran = 0
    for fn in _RULES.get("C03", []):
        if fn.rule_id in ("C03.R3", "C03.R5", "C03.R6"):
            run_rule(c, fn)
            ran += 1
    ctx.floor("premise rules run", ran, 3)
    ctx.bulk("premise obligations (pin/check cache)", c.obligations, [])
    for v in c.violations:
        ctx.ob(f"premise {v.rule}:{v.key}"[:120], False, "move generation filters by `checkers` and `pinned`; their computation is no longer exact: " + v.what[:300], site=getattr(v, "site", None))


def zero_test(t, v):
    """a path condition normalised: `x == 0` / `x != 0` / `0 == x`, taken or not, as (canonical x, "zero" | "nonzero"); anything else as it is"""
    if t[0] == "bin" and t[1] in ("Eq", "Ne") and v in (0, 1) and T.I(0, "u64") in (t[2], t[3]):
        x = t[2] if t[3] == T.I(0, "u64") else t[3]
        return (canon(x), "zero" if (t[1] == "Eq") == bool(v) else "nonzero")
    return (canon(t), v)


@rule("C01.R5", "en passant: legality decided on the position after the capture")
def r5(ctx):
    P = ctx.P
    g = R.Geo(P)
    key = f"<{PT}Pawn as {PT}PieceType>::legals"
    ctx.used_body(key)
    EP = MG + "Board::ep"
    eng = T.Engine(P, opaque=LOOKUPS | {KING_SQ, NEXT, CHECK_MASK, "chess_bitboard::pos::Pos::rank", "chess_bitboard::pos::Pos::new", EP,
                                        "chess_bitboard::color::Color::enpassant_pawn_rank", "chess_bitboard::color::Color::enpassant_capture_rank"})
    eng.trace_calls = {PUSH}
    recs, rets, loops, panics = loop_records(eng, key)
    site = P.body(key).get("def_span")
    board, mask = ("obj", ("param", 1, "a1")), ("param", 2, "a2")
    C = Ctxt(P, board)
    turn = fld(board, "turn")
    ksq = ("app", KING_SQ, (("refv", board), turn))
    epf = ("vfield", ("app", EP, (("refv", board),)), "Some", 0)
    NEW = "chess_bitboard::pos::Pos::new"
    cap_sq = ("app", NEW, (epf, ("app", "chess_bitboard::color::Color::enpassant_pawn_rank", (turn,))))
    tgt_sq = ("app", NEW, (epf, ("app", "chess_bitboard::color::Color::enpassant_capture_rank", (turn,))))
    bit = lambda s: eng.binop("Shl", T.I(1, "u64"), ("cast", "u8", ("discr", s)))
    n = 0
    for rec in recs:
        if not rec["pushes"]:
            continue
        lf = rec["leaf"]
        ef = entry_fields(P, rec["pushes"][-1])
        mv = unbb(ef.get("moves", ("x",)))
        if any(x[0] == "app" and x[1] == "chess_lookup::pawn_moves" for x in subterms(mv)):
            continue
        if not any(x[0] == "app" and x[1] == EP for t, _ in lf.cond for x in subterms(t)):
            continue
        n += 1
        tname = lf.known.get(turn)
        oc = ("adt", COLOR, "Black" if tname == "White" else "White", ())
        src = ef["src"]
        opp = C.AND(C.colors(oc), C.NOT(bit(cap_sq)))
        rooks = C.AND(C.OR(C.pieces("Rook"), C.pieces("Queen")), opp)
        bishops = C.AND(C.OR(C.pieces("Bishop"), C.pieces("Queen")), opp)
        occ = C.OR(C.AND(C.all(), C.NOT(bit(src)), C.NOT(bit(cap_sq))), bit(tgt_sq))
        want_tests = {
            "target in mask": (eng.binop("Ne", C.AND(bit(tgt_sq), word(mask)), T.I(0, "u64")), 1),
            "no knight/pawn attacker": (eng.binop("Eq", C.OR(C.AND(word(("app", "chess_lookup::knight_moves", (ksq,))), C.pieces("Knight"), opp),
                                                             C.AND(word(("app", "chess_lookup::pawn_attacks_moves", (ksq, turn))), C.pieces("Pawn"), opp)), T.I(0, "u64")), 1),
            "no rook/queen attacker": (eng.binop("Ne", C.AND(word(("app", "chess_lookup::rook_moves", (ksq, bb(occ)))), rooks), T.I(0, "u64")), 0),
            "no bishop/queen attacker": (eng.binop("Ne", C.AND(word(("app", "chess_lookup::bishop_moves", (ksq, bb(occ)))), bishops), T.I(0, "u64")), 0),
        }
        have = {zero_test(t, v) for t, v in lf.cond}
        for nm, (t, v) in want_tests.items():
            ok = zero_test(t, v) in have
            ctx.ob(f"ep[{tname}] {nm}#{n}", ok, f"en-passant capture ({tname} to move) is generated without the test `{nm}` in the form the rules require "
                   f"(attackers exclude the captured pawn; occupancy has both pawns removed and the target filled): missing {T.show(t)[:220]} == {v}", site=site,
                   sample={"test": nm} if n == 1 else None)
        # candidates: own pawns on the capture rank and adjacent files, pinned or not
        dom = iter_domain(rec["domain"])
        rank_bb = [x for x in subterms(dom) if x[0] == "bin" and x[1] == "Shl" and x[2] == T.I(g.bb([(f, 0) for f in range(8)]), "u64")]
        adj = [x for x in subterms(dom) if x[0] == "index" and x[1] == ("obj", ("static", "chess_lookup::ADJACENT_FILES"))]
        pinned_used = any(x == fld(board, "pinned") for x in subterms(dom))
        own_pawns = C.AND(C.colors(turn), C.pieces("Pawn"))
        has_own = bool(rank_bb) and bool(adj) and canon(dom) == canon(C.AND(C.AND(rank_bb[0], ("field", adj[0], "0")), own_pawns))
        ctx.ob(f"ep[{tname}] candidates#{n}", bool(rank_bb) and bool(adj) and has_own and not pinned_used,
               f"en-passant candidates ({tname}): {T.show(dom)[:200]}; expected rank(pawn rank) & ADJACENT_FILES[ep file] & own pawns, NOT filtered by `pinned` (a pawn pinned along the capture diagonal may capture)",
               site=site, sample={"pinned_filter": pinned_used})
        ctx.ob(f"ep[{tname}] entry#{n}", canon(mv) == canon(bit(tgt_sq)) and ef.get("promotion") == T.FALSE, f"en-passant entry destinations {T.show(mv)[:120]}; expected exactly the target square",
               site=site)
    ctx.floor("en-passant push paths", n, 2)


@rule("C01.R90", 'premises shared with other properties: C09 (C09.R1, C09.R2, C09.R3); C08 (C08.R1, C08.R2); C02 (C02.R9)')
def r_premises_shared(ctx):
    """This property's argument rests on these rules of other properties (what it calls is assumed to behave); they are re-run here so that a
    breakage of one of them is reported by this property's own check as well."""
    from analysis.runner import premise
    premise(ctx, 'C09', ['C09.R1', 'C09.R2', 'C09.R3'] and set(['C09.R1', 'C09.R2', 'C09.R3']), 'the generator reads these geometry tables and pawn helpers; one of them no longer equals its definition')
    premise(ctx, 'C08', ['C08.R1', 'C08.R2'] and set(['C08.R1', 'C08.R2']), 'slider moves come from the magic lookups; the lookup no longer equals ray casting')
    premise(ctx, 'C02', ['C02.R9'] and set(['C02.R9']), 'is_legal(mv) is membership of mv in the generated list under ChessMove equality; that equality is no longer field-by-field')


# ------------------------------------------------------------------ controls
def _retarget(key, old_suffix, new):
    def m(P):
        b = P.own("fns", key)
        for blk in b["blocks"]:
            t = blk["t"]
            if t["k"] == "call" and t["f"].get("fn", "").endswith(old_suffix):
                t["f"]["fn"] = new
                t["f"]["fn_args"] = new
                return
    return m


def _swap_flags(P):
    key = MG + "iter::<impl chess_movegen::Board>::collect_moves"
    b = P.own("fns", key)
    for blk in b["blocks"]:
        t = blk["t"]
        if t["k"] == "call" and "Rook as" in t["f"].get("fn_args", "") and t["f"]["fn_args"].endswith("::<true>"):
            t["f"]["fn_args"] = t["f"]["fn_args"][:-6] + "false>"


def _king_not_lifted(P):
    b = P.own("fns", LEGAL_KING)
    for blk in b["blocks"]:
        t = blk["t"]
        if t["k"] == "call" and t["f"].get("fn", "").endswith("BitXor>::bitxor") and "BitBoard" in t["f"].get("fn", ""):
            t["f"]["fn"] = t["f"]["fn"].replace("BitXor>::bitxor", "BitAnd>::bitand")
            return


CONTROLS = [
    ("queen pseudo-legals without bishop moves", "C01.R4", _retarget(f"<{PT}Queen as {PT}PieceType>::pseudo_legals", "chess_lookup::bishop_moves", "chess_lookup::rook_moves")),
    ("Rook generator called with NO_CHECK in the evasion branch", "C01.R1", _swap_flags),
    ("king position test without pawn attackers", "C01.R3", _retarget(LEGAL_KING, "chess_lookup::pawn_attacks_moves", "chess_lookup::king_moves")),
]
