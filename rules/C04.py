"""C04 - position hash is a pure function of the position."""
from analysis.runner import rule
from analysis.facts import AnchorError
from analysis import terms as T, cfg, k2
from analysis import chessref as R
from analysis.effects import upd_entries, xor_terms, strip_casts, subterms, index_chain, fields_read

THOROUGH_CONFIGS = ['release', 'nobmi2', 'engine-alone']
LEVEL = "other"
DECIDED = ("R1 all 794 key words (768 piece + 16 castling + 8 en-passant + 2 turn) are non-zero and pairwise distinct, and the accessors index "
           "[color][pos][piece] / [rights] / [file] / [color]; R2 every mutation of the piece/colour bitboards of a Board is paired, on the same path, "
           "with an xor of the piece key for the same (colour, square, piece): Board::xor (per square of the same diff), BoardBuilder::place (and not on its "
           "failing path), BoardBuilder::remove, the FEN parser's loop; nobody else in the workspace calls a RawBoard mutator on a board; "
           "R3 Board::zobrist() is exactly piece-hash ^ turn key ^ (en-passant key of the marker's file, if any) ^ castling key of the rights value; "
           "R4 Hash feeds exactly that folded value to the hasher and Eq compares exactly {turn, castle_rights, enpassant_target, raw} (RawBoard's Eq is the derived one); "
           "R5 the repetition table's identity hasher receives exactly one write_u64 and finish() returns it; R6 the hash literal of Board::standard() equals the xor of the "
           "piece keys of RawBoard::standard().")
DECIDED = DECIDED + ' R2 fold form: the new hash read as a term is old ^ fold(squares of diff, 0 or old, |h, pos| h ^ KEY[color][pos][piece]), in Board::xor or in a private helper.'
DECIDED = DECIDED + ' R4 also: Board::eq compares each of those fields between self and other and is true exactly when all agree (evaluated over all field-equality combinations). R7 RawBoard::set refuses every occupied square and stores on an empty one (evaluated over empty + 12 (colour, piece) occupancy cases).'
NOT_DECIDED = ("that make-move calls the xor helper for the right squares (that is C02's behaviour); equality of incremental and from-scratch hashes on actual histories follows "
               "from R2 only under that premise and is not itself decided")
EXPLANATION = ("Key tables are constant data (K1). Update sites are read as per-path effect summaries by K4 propagation (loops by the generic-iteration abstraction) and the "
               "pairing is checked structurally on the summaries; who-may-call rules scan the resolved call graph of the whole workspace.")

ZOB = "chess_lookup::zobrist::"
RAW = "chess_movegen::raw::RawBoard"
MUTATORS = ["xor", "set", "set_unchecked", "remove", "move_piece"]


@rule("C04.R1", "794 hash keys are non-zero and pairwise distinct; accessors index the tables by their own arguments")
def r1(ctx):
    P = ctx.P
    words = {}
    for name, n in (("PIECE_ZOBRIST", 768), ("CASTLE_ZOBRIST", 16), ("EN_PASSANT_ZOBRIST", 8), ("TURN_ZOBRIST", 2)):
        ctx.used_static(ZOB + name)
        v = P.value_u64s(ZOB + name)
        ctx.ob(f"{name} size", len(v) == n, f"{name} has {len(v)} words, expected {n}", sample={"words": len(v)})
        for i, w in enumerate(v):
            words.setdefault(w, []).append(f"{name}[{i}]")
    zero = words.get(0, [])
    dup = [(w, ks) for w, ks in words.items() if len(ks) > 1]
    total = sum(len(k) for k in words.values())
    ctx.bulk("keys non-zero", total, [(k, f"{k} is zero: that component does not influence the hash") for k in zero], "zero hash key")
    ctx.bulk("keys pairwise distinct", total, [("=".join(ks), f"{' and '.join(ks)} share the key {w:#x}") for w, ks in dup], "duplicate hash key", sample={"distinct": len(words)})
    ctx.floor("hash keys", total, 794)
    eng = T.Engine(P)
    BB_ = "chess_bitboard::"
    want = {"zobrist": ("PIECE_ZOBRIST", [BB_ + "color::Color", BB_ + "pos::Pos", BB_ + "piece::Piece"]), "castle_rights_zobrist": ("CASTLE_ZOBRIST", ["usize"]),
            "en_passant_zobrist": ("EN_PASSANT_ZOBRIST", [BB_ + "pos::File"]), "turn_zobrist": ("TURN_ZOBRIST", [BB_ + "color::Color"])}
    for fn, (tab, order) in want.items():
        key = "chess_lookup::" + fn
        ctx.used_body(key)
        lv = eng.tabulate(key)
        got = None
        if len(lv) == 1:
            ic = index_chain(lv[0].ret)
            if ic:
                names = []
                for ix in ic[1]:
                    x = strip_casts(ix)
                    x = x[1] if x[0] == "discr" else x
                    # each index is one of the accessor's parameters, identified by its type (colour, square, piece / rights / file)
                    names.append(P.body(key)["locals"][x[1] + 1]["ty"] if x[0] == "param" else T.show(x))
                got = (ic[0], names)
        ctx.ob(f"accessor {fn}", got == (ZOB + tab, order), f"{fn} returns {T.show(lv[0].ret) if lv else None}; expected {tab} indexed by parameters of types {order}",
               site=P.body(key).get("def_span"), sample={"term": T.show(lv[0].ret)[:160] if lv else None})


def key_triple(term):
    """PIECE_ZOBRIST[c][s][p] -> (c, s, p) with casts and discriminant reads stripped; None otherwise."""
    ic = index_chain(term)
    if not ic or ic[0] != ZOB + "PIECE_ZOBRIST" or len(ic[1]) != 3:
        return None
    def norm(x):
        x = strip_casts(x)
        return x[1] if x[0] == "discr" else x
    return tuple(norm(x) for x in ic[1])


def bb_update(value, old):
    """Classify BitBoard(new) against the old word: ('set'|'clear'|'toggle', operand term) or None."""
    if value[0] == "adt" and value[2] == "BitBoard":
        value = value[3][0]
    if value[0] != "bin":
        return None
    op, a, b = value[1], value[2], value[3]
    for x, y in ((a, b), (b, a)):
        if y == old:
            if op == "BitOr":
                return ("set", x)
            if op == "BitXor":
                return ("toggle", x)
            if op == "BitAnd" and x[0] == "un" and x[1] == "Not":
                return ("clear", x[2])
    return None


def square_of_bit(x):
    """Shl(1, (discr(pos) as u8)) -> pos ; otherwise the term itself (a whole bitboard operand)."""
    if x[0] == "bin" and x[1] == "Shl" and T.is_const(x[2]) and x[2][1] == 1:
        s = strip_casts(x[3])
        return ("square", s[1] if s[0] == "discr" else s)
    if x[0] == "field" and x[2] in (0, "0"):
        return ("board", x[1])
    return ("term", x)


def raw_effects(entries, prefix):
    """From upd entries under `prefix` (path to the RawBoard): {('colors', idx): (kind, operand)}."""
    out = {}
    for path, val in entries:
        if path[:len(prefix)] != prefix:
            continue
        rest = path[len(prefix):]
        if len(rest) >= 2 and rest[0][0] == "f" and rest[0][2] in ("colors", "pieces") and rest[1][0] == "i":
            idx = strip_casts(rest[1][1])
            idx = idx[1] if idx[0] == "discr" else idx
            out[(rest[0][2], idx)] = val
    return out


def check_pairing(ctx, name, site, raw_base, raw_entries, prefix, zob_old, zob_new, expect_change=None):
    eff = raw_effects(raw_entries, prefix)
    cols = {k[1]: v for k, v in eff.items() if k[0] == "colors"}
    pcs = {k[1]: v for k, v in eff.items() if k[0] == "pieces"}
    keys = []
    if zob_new is not None and zob_new != zob_old:
        ts = xor_terms(zob_new)
        if zob_old not in ts:
            ctx.ob(name, False, f"{name}: the hash is overwritten rather than xor-updated: {T.show(zob_new)[:200]}", site=site)
            return
        ts.remove(zob_old)
        keys = [key_triple(t) for t in ts]
        if any(k is None for k in keys):
            ctx.ob(name, False, f"{name}: the hash is xor-ed with something that is not a piece key: {[T.show(t)[:80] for t in ts]}", site=site)
            return

    def operand(val, base_path_val):
        return val

    ok = len(cols) == len(pcs) == len(keys)
    detail = {"colour_sets_changed": len(cols), "piece_sets_changed": len(pcs), "keys_xored": len(keys)}
    if ok and keys:
        (ci, cv), (pi, pv), (kc, ks, kp) = list(cols.items())[0], list(pcs.items())[0], keys[0]
        old_c = T.get_path(raw_base, prefix + (("f", 0, "colors", None), ("i", [p for p in eff if p[0] == "colors"][0][1])))
        # operands of the two bitboard updates must be the same square, and equal to the key's square
        def upd_op(v):
            w = v[3][0] if v[0] == "adt" else v
            if w[0] == "bin":
                for x in (w[2], w[3]):
                    y = x[2] if (x[0] == "un" and x[1] == "Not") else x
                    sq = square_of_bit(y)
                    if sq[0] == "square":
                        return sq[1]
            return None
        sc, sp = upd_op(cv), upd_op(pv)
        ok = ci == kc and pi == kp and sc is not None and sc == sp == ks
        detail.update({"colour": T.show(ci), "piece": T.show(pi), "square(raw)": T.show(sc) if sc else None, "key": [T.show(x) for x in (kc, ks, kp)]})
    if expect_change is not None and ok:
        ok = (len(keys) > 0) == expect_change
    ctx.ob(name, ok, f"{name}: bitboard mutation and hash update are not paired: {detail}", site=site, sample=detail)


@rule("C04.R2", "every piece/colour bitboard mutation of a Board is paired with the matching piece-key xor; who-may-call")
def r2(ctx):
    P = ctx.P
    # --- BoardBuilder::place / remove (loop-free, exact per-path effects)
    eng = T.Engine(P)
    for fn, expect in (("BoardBuilder::place", None), ("BoardBuilder::remove", None)):
        key = P.find_fn(fn, "chess_movegen")
        ctx.used_body(key)
        site = P.body(key).get("def_span")
        leaves = eng.tabulate(key)
        slf = ("param", 0, "self")
        n_changed = 0
        for lf in leaves:
            final = lf.ext.get(slf)
            base, entries = upd_entries(eng.freeze(lf.state, final)) if final is not None else (("obj", slf), [])
            prefix = (("f", 0, "board", None), ("f", 8, "raw", None))
            prefix = tuple(e for e in prefix)
            # field index of raw inside Board from the facts (layout independent: match by name)
            ents = [(tuple(("f", e[1], e[2], e[3]) if e[0] == "f" else e for e in p), v) for p, v in entries]
            raw_prefix = None
            for p, v in ents:
                names = [e[2] for e in p if e[0] == "f"]
                if names[:2] == ["board", "raw"]:
                    raw_prefix = p[:2]
            zob_path = [p for p, v in ents if [e[2] for e in p if e[0] == "f"] == ["board", "zobrist"]]
            zob_new = dict(ents).get(zob_path[0]) if zob_path else None
            zob_old = ("field", ("field", ("obj", slf), "board"), "zobrist")
            is_err = lf.ret[0] == "adt" and lf.ret[2] == "Err"
            label = f"{fn}[{'Err' if is_err else 'path ' + str(leaves.index(lf))}]"
            if raw_prefix is None:
                ctx.ob(label, zob_new is None or zob_new == zob_old, f"{label}: the hash changes ({T.show(zob_new)[:120]}) although no bitboard does", site=site,
                       sample={"raw_changed": False, "hash_changed": zob_new is not None})
                continue
            n_changed += 1
            check_pairing(ctx, label, site, ("obj", slf), ents, raw_prefix, zob_old, zob_new, expect_change=True)
        ctx.floor(f"{fn}: mutating paths", n_changed, 1 if fn.endswith("place") else 12)

    # --- Board::xor: raw.xor(color, piece, diff) + loop over the same diff
    key = P.find_fn("Board::xor", "chess_movegen")
    ctx.used_body(key)
    site = P.body(key).get("def_span")
    eng2 = T.Engine(P, opaque={"<chess_bitboard::BitBoardIter as core::iter::traits::iterator::Iterator>::next"})
    rets, loops, _ = eng2.paths(key)
    slf, diff = ("param", 0, "self"), ("param", 3, "a3")
    ok_ret = False
    for lf in rets:
        base, entries = upd_entries(eng2.freeze(lf.state, lf.ext.get(slf, ("obj", slf))))
        got = {}
        for path, v in entries:
            names = [e[2] for e in path if e[0] == "f"]
            if len(names) == 2 and names[0] == "raw" and names[1] in ("colors", "pieces") and path[-1][0] == "i":
                idx = strip_casts(path[-1][1])
                idx = idx[1] if idx[0] == "discr" else idx
                w = v[3][0] if v[0] == "adt" else v
                old = ("field", T.get_path(("obj", slf), path), "0")
                toggled = w[0] == "bin" and w[1] == "BitXor" and {w[2], w[3]} == {old, ("field", diff, "0")}
                got[names[1]] = (idx, toggled)
        ok_ret = got == {"colors": (("param", 1, "a1"), True), "pieces": (("param", 2, "a2"), True)}
    ctx.ob("Board::xor bitboards", ok_ret, "Board::xor does not toggle colors[color] and pieces[piece] by `diff`", site=site, sample={"toggles": "colors[color] ^= diff; pieces[piece] ^= diff"})
    if not loops:
        # fold form, wherever it is written (in Board::xor or in a private helper, starting from the old hash or from 0 and xor-ed in afterwards):
        # the new hash, read as a term, is  old hash ^ fold(squares of diff, 0, |h, pos| h ^ KEY[color][pos][piece])
        ok_fold = len(rets) == 1
        old_hash = ("field", ("obj", slf), "zobrist")
        for lf in rets:
            f_ = eng2.freeze(lf.state, lf.ext.get(slf, ("obj", slf)))
            zob = T.get_path(f_, (("f", 0, "zobrist", None),))
            others, fparts, work = [], [], list(xor_terms(zob))
            while work:
                x = work.pop()
                if x[0] == "app" and "Iterator>::fold::<" in x[1] and len(x[2]) == 3:
                    fparts.append(x)
                    work += [y for y in xor_terms(x[2][1]) if not (T.is_const(y) and y[1] == 0)]
                else:
                    others.append(x)
            ok_fold &= others == [old_hash] and len(fparts) == 1
            if not ok_fold:
                break
            it, _, clo = fparts[0][2]
            ok_fold &= diff in subterms(it) and any(x[0] == "adt" and "BitBoardIter" in x[1] or x[0] == "app" and "BitBoardIter" in x[1] for x in subterms(it)) and clo[0] in ("closure", "fn")
            if not ok_fold:
                break
            # the combining step is `acc ^ f(item)`: f is the key lookup itself, or the items were mapped to their keys first (`.map(key).fold(0, ^)`)
            plain_xor = clo[0] == "fn" and "BitXor" in clo[1]
            if clo[0] == "closure":
                clv0 = T.Engine(P).tabulate(clo[1])
                cb0 = P.body(clo[1])
                e0, a0_, i0 = [("param", i, cb0["locals"][i + 1]["n"]) for i in range(3)]
                plain_xor = len(clv0) == 1 and sorted(map(str, xor_terms(clv0[0].ret))) == sorted(map(str, [a0_, i0]))
            if plain_xor:
                ok_fold &= it[0] == "app" and "Iterator>::map::<" in it[1] and len(it[2]) == 2 and it[2][1][0] == "closure"
                if not ok_fold:
                    break
                clo = it[2][1]
                clv = T.Engine(P).tabulate(clo[1])
                cb = P.body(clo[1])
                env, pos_p = [("param", i, cb["locals"][i + 1]["n"]) for i in range(2)]
                acc = ("acc",)
                for cl in clv:
                    cl.ret = ("bin", "BitXor", acc, cl.ret)
            else:
                clv = T.Engine(P).tabulate(clo[1])
                cb = P.body(clo[1])
                env, acc, pos_p = [("param", i, cb["locals"][i + 1]["n"]) for i in range(3)]
            ok_fold &= len(clv) == 1
            for cl in clv:
                ts = xor_terms(cl.ret)
                keys = [key_triple(x) for x in ts if x != acc]
                ok_fold &= acc in ts and len(ts) == 2 and len(keys) == 1 and keys[0] is not None
                if ok_fold:
                    c_, s_, p_ = keys[0]
                    def cap_of(x):
                        y = x
                        while isinstance(y, tuple) and y and y[0] == "obj":
                            y = y[1]
                        if isinstance(y, tuple) and y and y[0] == "field" and y[1] in (env, ("obj", env)) and isinstance(y[2], int) and y[2] < len(clo[2]):
                            z = clo[2][y[2]]
                            while isinstance(z, tuple) and z and z[0] in ("refv", "obj", "ref"):
                                z = z[1]
                            return z
                        return None
                    ok_fold &= cap_of(c_) == ("param", 1, "a1") and cap_of(p_) == ("param", 2, "a2") and s_ == pos_p
        ctx.ob("Board::xor hash", ok_fold, "Board::xor does not xor the piece key of (color, each square of diff, piece) into the hash (fold form)", site=site,
               sample={"per-item": "hash ^ PIECE_ZOBRIST[color][pos in diff][piece]"})
        ctx.ob("Board::xor loop unconditional", ok_fold, "the hash fold of Board::xor is conditional", site=site)
        loops = None
    ok_loop = bool(loops)
    for lf in (loops or []):
        final = eng2.freeze(lf.state, lf.ext.get(slf, ("obj", slf)))
        zob = T.get_path(final, (("f", 0, "zobrist", None),))
        ts = xor_terms(zob)
        carried = [t for t in ts if t[0] == "loopvar"]
        keys = [key_triple(t) for t in ts if t[0] != "loopvar"]
        good = len(carried) == 1 and len(keys) == 1 and keys[0] is not None
        if good:
            c, s, p = keys[0]
            good = c == ("param", 1, "a1") and p == ("param", 2, "a2") and diff in subterms(s) and any(x[0] == "app" and "BitBoardIter" in x[1] for x in subterms(s))
        ok_loop &= good
    if loops is not None:
        ctx.ob("Board::xor hash", ok_loop, "Board::xor does not xor the piece key of (color, each square of diff, piece) into the hash in its loop", site=site,
               sample={"per-iteration": "zobrist ^= PIECE_ZOBRIST[color][pos in diff][piece]"})
        # the loop runs unconditionally: its header post-dominates the entry
        c = cfg.cfg_of(P.body(key))
        hs = list(c.loops())
        ctx.ob("Board::xor loop unconditional", len(hs) == 1 and c.postdominates(hs[0], 0), "the hash loop of Board::xor is conditional", site=site)

    # --- parse_fen: the placement loop
    key = P.find_fn("fen::parse_fen", "chess_movegen")
    ctx.used_body(key)
    body = P.body(key)
    site = body.get("def_span")
    c = cfg.cfg_of(body)
    # the two accumulators are identified by dataflow, not by name: the locals the Board literal takes `raw` and `zobrist` from
    zl = rl = None
    for blk in body["blocks"]:
        for s in blk["s"]:
            r = s.get("r", {})
            if r.get("k") == "agg" and r.get("adt") == "chess_movegen::Board":
                ops = dict(zip(r["fields"], r["ops"]))
                zl, rl = resolve_copy(body, ops["zobrist"].get("p", {}).get("l")), resolve_copy(body, ops["raw"].get("p", {}).get("l"))
    ctx.ob("parse_fen board literal", zl is not None and rl is not None and body["locals"][zl]["ty"] == "u64" and body["locals"][rl]["ty"] == RAW,
           "the Board built by parse_fen does not take its hash and bitboards from two local accumulators", site=site)
    if zl is None or rl is None:
        return
    eng3 = T.Engine(P, opaque={"chess_movegen::fen::parse_piece", "chess_bitboard::pos::Pos::new", "chess_bitboard::pos::File::from_u8"})
    found = 0
    for h, bl in c.loops().items():
        exits = {s for x in bl for s in c.succ[x] if s not in bl}
        for lf in eng3.region(key, h, exits):
            fr = lf.state.frames[0]
            bv, zv = fr.locals.get(rl), fr.locals.get(zl)
            if bv is None or zv is None:
                continue
            base, entries = upd_entries(eng3.freeze(lf.state, bv))
            # the generic-iteration abstraction marks loop-carried fields with `loopvar` values: those entries are not modifications
            entries = [(pth, v) for pth, v in entries if not (v[0] == "loopvar" and v[1] == h and not any(e[0] == "i" for e in pth))]
            zob_new = eng3.freeze(lf.state, zv)
            carried = [t_ for t_ in xor_terms(zob_new) if t_[0] == "loopvar" and t_[1] == h and t_[2] == (zl, ())]
            # unchanged: the loop-carried symbol of this loop, or (a loop that never assigns it) whatever it was on entry
            hash_changed = not (zob_new[0] in ("loopvar", "init") or T.is_const(zob_new))
            if not entries and not hash_changed:
                continue
            found += 1
            label = f"parse_fen loop[{T.show(lf.ret)}#{found}]"
            if not entries or not hash_changed:
                ctx.ob(label, False, f"{label}: bitboards updated: {bool(entries)}, hash updated: {hash_changed}", site=site)
                continue
            check_pairing(ctx, label, site, base, entries, (), carried[0] if carried else None, zob_new, expect_change=True)
    ctx.floor("parse_fen placement paths", found, 1)

    # --- who-may-call: RawBoard mutators
    allowed = {
        RAW + "::xor": {"chess_movegen::Board::xor"},
        RAW + "::set": {"chess_movegen::BoardBuilder::place"},
        RAW + "::set_unchecked": {"chess_movegen::fen::parse_fen", RAW + "::set", RAW + "::move_piece"},
        RAW + "::remove": {"chess_movegen::BoardBuilder::remove", RAW + "::move_piece"},
        RAW + "::move_piece": set(),
    }
    callers = P.callers()
    for m, ok_set in allowed.items():
        if m not in P.fns:
            raise AnchorError(f"{m} missing")
        cs = {k for k, _ in callers.get(m, [])}
        extra = sorted(cs - ok_set)
        ctx.ob(f"who-may-call {m.rsplit('::',1)[1]}", not extra, f"{m} is called from {extra}: a bitboard mutation outside the paired update sites leaves the hash stale",
               sample={"callers": sorted(cs)})
    # direct writes of RawBoard fields outside RawBoard's own methods
    writers = set()
    for k, b in P.fns.items():
        if b["crate"] not in ("chess_movegen", "chess_engine", "chess_api", "chess_bot", "chess_cli-bin", "chess_wasm") or k.startswith(RAW) or k.startswith(f"<{RAW}"):
            continue
        for blk in b["blocks"]:
            for s in blk["s"]:
                if s["k"] == "assign" and any(isinstance(e, dict) and e.get("a") == RAW for e in s["p"]["pj"]):
                    writers.add(k)
            for s in blk["s"]:
                r = s.get("r", {})
                if r.get("k") == "ref" and r.get("bk") == "mut" and any(isinstance(e, dict) and e.get("a") == RAW for e in r["p"]["pj"]):
                    writers.add(k)
    ctx.ob("who-may-write RawBoard fields", not writers, f"RawBoard.colors/pieces are written or mutably borrowed outside RawBoard's methods in {sorted(writers)}", sample={"writers": sorted(writers)})
    # writers of Board.zobrist
    zw = set()
    for k, b in P.fns.items():
        for blk in b["blocks"]:
            for s in blk["s"]:
                if s["k"] == "assign" and s["p"]["pj"] and isinstance(s["p"]["pj"][-1], dict) and s["p"]["pj"][-1].get("n") == "zobrist" and s["p"]["pj"][-1].get("a") == "chess_movegen::Board":
                    zw.add(k)
    okw = {"chess_movegen::Board::xor", "chess_movegen::BoardBuilder::place", "chess_movegen::BoardBuilder::remove"}

    def wrapper_of_paired_sites(k, depth=0):
        """a non-public helper all of whose callers are paired update sites (or such helpers): its write is analysed inlined at those sites"""
        if k in okw:
            return True
        if depth > 3 or P.fns[k].get("vis") == "pub":
            return False
        cs = {c_ for c_, _ in callers.get(k, [])}
        return bool(cs) and all(wrapper_of_paired_sites(c_, depth + 1) for c_ in cs)
    stray = sorted(k for k in zw if not wrapper_of_paired_sites(k))
    roots = {k for k in okw if k in zw or any(k in {c_ for c_, _ in callers.get(w, [])} for w in zw)}
    ctx.ob("who-may-write Board.zobrist", not stray and len(zw) >= 1 and roots == okw, f"Board.zobrist is assigned in {stray} besides the paired update sites (or the paired sites {sorted(okw - roots)} no longer update it)",
           sample={"writers": sorted(zw)})


def resolve_copy(body, local):
    """Follow `tmp = copy/move x` chains of compiler temporaries back to a named local."""
    for _ in range(8):
        if local is None or body["locals"][local].get("n"):
            return local
        defs = [s for blk in body["blocks"] for s in blk["s"] if s["k"] == "assign" and not s["p"]["pj"] and s["p"]["l"] == local]
        if len(defs) != 1 or defs[0]["r"]["k"] != "use" or defs[0]["r"]["o"].get("k") not in ("copy", "move") or defs[0]["r"]["o"]["p"]["pj"]:
            return local
        local = defs[0]["r"]["o"]["p"]["l"]
    return local


def fold_spec(eng, P, g):
    """Expected Board::zobrist() per en-passant marker variant."""
    pass


@rule("C04.R3", "Board::zobrist() = piece hash ^ turn key ^ en-passant key (if any) ^ castling key")
def r3(ctx):
    P = ctx.P
    g = R.Geo(P)
    key = P.find_fn("Board::zobrist", "chess_movegen")
    ctx.used_body(key)
    eng = T.Engine(P)
    leaves = eng.tabulate(key)
    slf = ("obj", ("param", 0, "self"))
    site = P.body(key).get("def_span")
    seen = set()
    for lf in leaves:
        ep = lf.known.get(("field", slf, "enpassant_target"))
        seen.add(ep)
        parts = xor_terms(lf.ret)
        got = {"piece": 0, "turn": 0, "ep": [], "castle": 0, "other": []}
        for t in parts:
            if t == ("field", slf, "zobrist"):
                got["piece"] += 1
                continue
            ic = index_chain(t)
            if ic and ic[0] == ZOB + "TURN_ZOBRIST" and len(ic[1]) == 1 and strip_casts(ic[1][0]) == ("discr", ("field", slf, "turn")):
                got["turn"] += 1
            elif ic and ic[0] == ZOB + "CASTLE_ZOBRIST" and len(ic[1]) == 1 and strip_casts(ic[1][0]) in (("field", ("field", slf, "castle_rights"), 0), ("field", ("field", slf, "castle_rights"), "0")):
                got["castle"] += 1
            elif ic and ic[0] == ZOB + "EN_PASSANT_ZOBRIST" and len(ic[1]) == 1 and T.is_const(ic[1][0]):
                got["ep"].append(ic[1][0][1])
            else:
                got["other"].append(T.show(t)[:80])
        want_ep = [] if ep == "None" else [g.file[R.FILES.index(ep)]] if ep in R.FILES else ["?"]
        ok = got["piece"] == 1 and got["turn"] == 1 and got["castle"] == 1 and got["ep"] == want_ep and not got["other"]
        ctx.ob(f"fold[ep={ep}]", ok, f"Board::zobrist() with en-passant marker {ep} folds {got}; expected piece hash, TURN[turn], CASTLE[rights] and EN_PASSANT{want_ep}", site=site,
               sample={"ep": ep, "terms": len(parts)})
    ctx.ob("fold covers all markers", seen == set(R.FILES) | {"None"}, f"en-passant marker cases seen: {sorted(map(str, seen))}", site=site)


@rule("C04.R4", "Hash feeds the folded hash; Eq compares exactly the position fields")
def r4(ctx):
    P = ctx.P
    hk = "<chess_movegen::Board as core::hash::Hash>::hash"
    ctx.used_body(hk)
    zk = P.find_fn("Board::zobrist", "chess_movegen")
    calls = [(t["f"].get("fn"), t["f"].get("fn_args", "")) for _, t in P.calls(hk)]
    names = [c[0] for c in calls]
    # the folded hash reaches the hasher once, as one u64: `zobrist().hash(state)` or `state.write_u64(zobrist())` (what u64::hash does)
    hashed = [c for c in calls if (("core::hash::Hash" in c[1] or "hash::impls" in c[0]) and "u64" in c[1]) or c[0].endswith("Hasher::write_u64") or c[1].endswith("Hasher>::write_u64")]
    ok = names.count(zk) == 1 and len(hashed) == 1 and len(calls) == 2
    # the value hashed is the call result of zobrist()
    b = P.body(hk)
    zdst = [t["d"]["l"] for _, t in P.calls(hk) if t["f"].get("fn") == zk]
    eng = T.Engine(P, opaque={zk})
    lv = eng.tabulate(hk)
    arg_ok = len(lv) == 1 and any(s[0] == "app" and s[1].endswith("Board::zobrist") for s in subterms(lv[0].ext.get(("param", 1, "a1"), lv[0].ret)) + subterms(lv[0].ret))
    ctx.ob("Hash::hash", ok and arg_ok, f"<Board as Hash>::hash calls {names}: expected exactly Board::zobrist() fed to <u64 as Hash>::hash", site=b.get("def_span"),
           sample={"calls": [T.short(n) for n in names]})
    ek = "<chess_movegen::Board as core::cmp::PartialEq>::eq"
    ctx.used_body(ek)
    eb = P.body(ek)
    ctx.ob("Eq not derived -> read its fields", True, "")
    read = set()
    from analysis.facts import walk_operands
    for blk in eb["blocks"]:
        for s in blk["s"] + [blk["t"]]:
            places = [o["p"] for o in walk_operands(s) if o.get("k") in ("copy", "move")]
            if isinstance(s.get("r"), dict) and isinstance(s["r"].get("p"), dict):
                places.append(s["r"]["p"])
            for pl in places:
                for e in pl.get("pj", []):
                    if isinstance(e, dict) and e.get("a") == "chess_movegen::Board":
                        read.add(e["n"])
    want = {"turn", "castle_rights", "enpassant_target", "raw"}
    ctx.ob("Eq fields", read == want, f"<Board as PartialEq>::eq reads fields {sorted(read)}; the hash is a function of {sorted(want)} (raw through the piece hash): "
           f"missing {sorted(want - read)}, extra {sorted(read - want)}", site=eb.get("def_span"), sample={"fields": sorted(read)})
    # every field comparison must be able to make eq false: the result is the conjunction (each false branch returns false)
    eng2 = T.Engine(P)
    lv = eng2.tabulate(ek)
    bad = [lf for lf in lv if any(v == 0 and t[0] in ("eq", "bin") for t, v in lf.cond) and lf.ret != T.FALSE]
    ctx.ob("Eq is a conjunction", not bad and len(lv) >= 2, f"<Board as PartialEq>::eq returns non-false on a path where a field comparison failed: {[T.show_cond(l.cond)[:120] for l in bad]}",
           site=eb.get("def_span"), sample={"paths": len(lv)})
    # ... and each comparison is between the same field of the two operands (`self.x == self.x` compares nothing), true exactly when all agree
    okq, why = k2.structural_eq(P, ek, "chess_movegen::Board", only=want)
    ctx.ob("Eq compares both operands", okq, f"<Board as PartialEq>::eq is not `all of {sorted(want)} equal between self and other`: {why}", site=eb.get("def_span"), sample=why)
    for adt in ("chess_movegen::raw::RawBoard", "chess_movegen::castle_rights::CastleRights", "chess_movegen::OptionalFile"):
        b2 = P.body(f"<{adt} as core::cmp::PartialEq>::eq")
        ctx.ob(f"{adt.rsplit('::',1)[1]} Eq derived", bool(b2.get("derived")), f"PartialEq for {adt} is hand-written", site=b2.get("def_span"))


@rule("C04.R7", "RawBoard::set refuses every occupied square (the colour sets and the piece sets stay partitions)")
def r7_set(ctx):
    """place() pairs the hash update with set(); set() is what keeps a square in at most one colour set and one piece set. A guard that looks at
    the mover's colour only, or at one piece set only, lets a second piece onto an occupied square: equal boards with different hashes after a
    later remove, and move generation with more entries than the list holds."""
    P = ctx.P
    k = "chess_movegen::raw::RawBoard::set"
    CONT, SU = "chess_bitboard::BitBoard::contains", "chess_movegen::raw::RawBoard::set_unchecked"
    ctx.used_body(k)
    eng = T.Engine(P, opaque={CONT, SU})
    eng.trace_calls = {SU}
    lv = eng.tabulate(k)
    slf, pos = ("param", 0, "self"), ("param", 3, "a3")

    def members(bbterm):
        w = bbterm[3][0] if bbterm[0] == "adt" else ("field", bbterm, "0")
        out, work = set(), [w]
        while work:
            x = work.pop()
            if x[0] == "bin" and x[1] == "BitOr":
                work += [x[2], x[3]]
            elif x[0] == "field" and x[2] in ("0", 0) and x[1][0] == "index" and x[1][1][0] == "field" and x[1][1][1] == ("obj", slf) and x[1][1][2] in ("colors", "pieces") and T.is_const(x[1][2]):
                out.add((x[1][1][2], x[1][2][1]))
            else:
                return None
        return out
    bad = []
    cases = [None] + [(c, p_) for c in range(2) for p_ in range(6)]
    for case in cases:
        inset = set() if case is None else {("colors", case[0]), ("pieces", case[1])}
        hits = []
        for lf in lv:
            ok = True
            for t_, v in lf.cond:
                if t_[0] == "app" and t_[1] == CONT and t_[2][1] == pos:
                    ms = members(t_[2][0])
                    if ms is None:
                        ok = None
                        break
                    if bool(ms & inset) != bool(v):
                        ok = False
                        break
                else:
                    ok = None
                    break
            if ok is None:
                bad.append((str(case), f"a path of set() tests {T.show_cond(lf.cond)[:140]}: not membership of the square in constant colour / piece sets"))
                break
            if ok:
                hits.append(lf)
        else:
            want_err = case is not None
            good = len(hits) == 1 and (hits[0].ret[0] == "adt" and hits[0].ret[2] == ("Err" if want_err else "Ok")) and (want_err == (not any(tr[0] == "call" for tr in hits[0].trace)))
            if not good:
                bad.append((str(case), f"square {'held by (colour, piece) ' + str(case) if case else 'empty'}: set() answers {[T.show(h.ret)[:40] for h in hits]} (stores: {[len([1 for tr in h.trace if tr[0] == 'call']) for h in hits]})"))
    ctx.bulk("RawBoard::set on every occupancy case", len(cases), bad, "set() stores a piece on an occupied square, or refuses an empty one", sample={"cases": len(cases)})


@rule("C04.R5", "identity hasher contract: exactly one write_u64, finish returns it, no other write reaches it")
def r5(ctx):
    P = ctx.P
    eng = T.Engine(P)
    H = "chess_engine::IntHasher"
    wk = f"<{H} as core::hash::Hasher>::write_u64"
    fk = f"<{H} as core::hash::Hasher>::finish"
    bk = "<chess_engine::IntHashBuilder as core::hash::BuildHasher>::build_hasher"
    for k in (wk, fk, bk):
        ctx.used_body(k)
    lv = eng.tabulate(wk)
    slf = ("param", 0, "self")
    ok = len(lv) == 1 and T.get_path(eng.freeze(lv[0].state, lv[0].ext.get(slf, ("obj", slf))), (("f", 0, None, None),)) in (
        ("adt", "core::option::Option", "Some", (("param", 1, "a1"),)),) 
    if not ok and len(lv) == 1:
        v = eng.freeze(lv[0].state, lv[0].ext.get(slf, ("obj", slf)))
        base, ents = upd_entries(v)
        ok = any(val == ("adt", "core::option::Option", "Some", (("param", 1, "a1"),)) for _, val in ents)
    ctx.ob("write_u64 stores Some(i)", ok, "IntHasher::write_u64 does not store its argument", site=P.body(wk).get("def_span"), sample="self.0 = Some(i)")
    lv = eng.tabulate(fk, keep_panics=True)
    rets = [l for l in lv if l.ret[0] != "panic"]
    ok = len(rets) == 1 and rets[0].ret in (("vfield", ("field", ("obj", slf), 0), "Some", 0), ("unwrap", ("field", ("obj", slf), 0)), ("unwrap", ("field", ("obj", slf), "0")))
    ctx.ob("finish returns the stored value", ok, f"IntHasher::finish returns {[T.show(l.ret) for l in rets]}", site=P.body(fk).get("def_span"), sample="self.0.unwrap()")
    lv = eng.tabulate(bk)
    ok = len(lv) == 1 and lv[0].ret == ("adt", H, "IntHasher", (T.OPT_NONE,))
    ctx.ob("build_hasher starts empty", ok, f"build_hasher returns {[T.show(l.ret) for l in lv]}", site=P.body(bk).get("def_span"))
    # the map is keyed by Board with this builder
    tf = P.adt("chess_engine::ThreeFold")
    ty = tf["variants"][0]["fields"][0]["ty"]
    ctx.ob("ThreeFold map type", ty.startswith("std::collections::hash::map::HashMap<chess_movegen::Board, u8, chess_engine::IntHashBuilder"), f"ThreeFold.boards has type {ty}", sample=ty)


@rule("C04.R6", "the hash literal of Board::standard() is the xor of the piece keys of RawBoard::standard()")
def r6(ctx):
    P = ctx.P
    g = R.Geo(P)
    eng = T.Engine(P)
    key = P.find_fn("Board::standard", "chess_movegen")
    ctx.used_body(key)
    lv = eng.tabulate(key)
    if len(lv) != 1 or lv[0].ret[0] != "adt":
        raise AnchorError("Board::standard is not a closed constructor")
    b = lv[0].ret
    fields = [f["name"] for f in P.adt("chess_movegen::Board")["variants"][0]["fields"]]
    vals = dict(zip(fields, b[3]))
    raw = vals["raw"]
    rf = [f["name"] for f in P.adt(RAW)["variants"][0]["fields"]]
    rv = dict(zip(rf, raw[3]))

    def word(t):
        while t[0] in ("adt", "app"):
            t = t[3][0] if t[0] == "adt" else t[2][0]
        return t[1] if T.is_const(t) else None
    colors = [word(x) for x in rv["colors"][1]]
    pieces = [word(x) for x in rv["pieces"][1]]
    keys = P.value_u64s(ZOB + "PIECE_ZOBRIST")
    acc = 0
    inv_piece = {d: n for n, d in g.piece.items()}
    consistent = (colors[0] | colors[1]) == 0
    allp = 0
    for pi, pw in enumerate(pieces):
        consistent &= (allp & pw) == 0
        allp |= pw
        for ci, cw in enumerate(colors):
            for s in range(64):
                if pw >> s & 1 and cw >> s & 1:
                    acc ^= keys[(ci * 64 + s) * 6 + pi]
    consistent = (colors[0] & colors[1]) == 0 and (colors[0] | colors[1]) == allp
    lit = word(vals["zobrist"])
    ctx.ob("standard hash literal", lit == acc, f"Board::standard() carries hash {lit}, the xor of its pieces' keys is {acc}", site=P.body(key).get("def_span"), sample={"literal": lit})
    ctx.ob("standard partition", consistent, "RawBoard::standard(): colour sets and piece sets are not a consistent partition", site=P.body(key).get("def_span"))



@rule("C04.W", "type-level: compile-fail witnesses with compiling twins (K6; thorough tier)")
def rw(ctx):
    from analysis import witness
    if ctx.config != "ws":
        return
    witness.check(ctx, {'c04_zobrist_field_private': 'code outside chess-movegen could overwrite Board.zobrist', 'c04_raw_field_private': 'code outside chess-movegen could replace the piece sets without touching the hash', 'c04_raw_shared_only': 'Board::raw() hands out a mutable reference to the piece sets'})


rw.thorough_only = True

# ------------------------------------------------------------------ controls
def _dup_key(P):
    v = P.own("values", ZOB + "EN_PASSANT_ZOBRIST")
    h = v["hex"]
    v["hex"] = h[:16] + h[:16] + h[32:]


def _fold_drop_castle(P):
    b = P.own("fns", "chess_movegen::Board::zobrist")
    for blk in b["blocks"]:
        t = blk["t"]
        if t["k"] == "call" and t["f"].get("fn", "").endswith("castle_rights_zobrist"):
            t["f"]["fn"] = "chess_lookup::turn_zobrist_missing"
            t["f"]["fn_args"] = "chess_lookup::turn_zobrist_missing"


def _extra_caller(P):
    # move_unchecked_into calls RawBoard::remove directly
    b = P.own("fns", "chess_movegen::Board::move_unchecked_into")
    for blk in b["blocks"]:
        t = blk["t"]
        if t["k"] == "call" and t["f"].get("fn") == "chess_movegen::Board::xor":
            t["f"]["fn"] = RAW + "::remove"
            break


def _hash_raw_field(P):
    b = P.own("fns", "<chess_movegen::Board as core::hash::Hash>::hash")
    for blk in b["blocks"]:
        t = blk["t"]
        if t["k"] == "call" and t["f"].get("fn", "").endswith("Board::zobrist"):
            t["f"]["fn"] = "chess_movegen::Board::half_move_clock"


def _std_literal(P):
    b = P.own("fns", "chess_movegen::Board::standard")
    for blk in b["blocks"]:
        for s in blk["s"]:
            for o in __import__("analysis.facts", fromlist=["x"]).walk_operands(s):
                if o.get("k") == "const" and o.get("c", {}).get("int") == "9406092833587483707":
                    o["c"]["int"] = o["c"]["bits"] = "9406092833587483706"


CONTROLS = [
    ("two en-passant files share a key", "C04.R1", _dup_key),
    ("zobrist() forgets the castling key", "C04.R3", _fold_drop_castle),
    ("make-move calls RawBoard::remove directly", "C04.R2", _extra_caller),
    ("Hash hashes a clock instead of zobrist()", "C04.R4", _hash_raw_field),
    ("standard() hash literal off by one", "C04.R6", _std_literal),
]
