"""C13 - search is colour-symmetric (necessary condition: every colour-dependent constant, match and policy pair is mirror-invariant)."""
from analysis.runner import rule
from analysis.facts import AnchorError
from analysis import terms as T, k2
from analysis import chessref as R
from analysis.cfg import cfg_of
from analysis.effects import subterms

THOROUGH_CONFIGS = ['release', 'nobmi2', 'engine-alone']
LEVEL = "other"
DECIDED = ("R1 the White/Black policy pair is a mirror pair: COLOR swapped, (WORST, BEST) = (Min, Max)/(Max, Min), Flip types crossed, is_better = `<`/`>` on the same operands, "
           "update_cutoff = alpha=max(score,alpha) / beta=min(score,beta); R2 every branch on a Color value in the core crates (including `match P::COLOR`) has mirror-image arms "
           "under: ranks r<->9-r, White<->Black, shift_up<->shift_down, BlackMateIn<->WhiteMateIn, policy White<->Black (named exemptions listed with reasons); "
           "R3 colour-indexed constant data satisfy T[Black] = mirror(T[White]); R4 the static evaluation is antisymmetric in the shipped configuration: "
           "eval = (pieces(White)+endgame_w) - (pieces(Black)+endgame_b), and on every pair of material values the endgame terms of (w,b) are the colour-swapped ones of (b,w) "
           "(same thresholds on both sides), no colour-specific table is read unless `positional`; R5 score mirror: cmp(mirror a, mirror b) = cmp(b, a) on the extracted order.")
DECIDED = DECIDED + ' R6 premise re-run here: the king-distance helper read by the endgame evaluation is the mirror-invariant Chebyshev distance (C09.R3). R7 root search window: inside the deepening loop alpha and beta are reset together (White only tightens alpha, Black only beta: one stale bound makes the colours search differently).'
DECIDED = DECIDED + ' R2 also: a method of the Policy trait implemented once per colour whose two implementations are mirror images counts as a colour switch.'
DECIDED = DECIDED + ' R90 premises re-run here: C10 C10.R9; C12 C12.R3; C02 C02.R3.'
NOT_DECIDED = "equality of the reported scores on actual positions (needs the search and move generator as behaviours); positional evaluation (off in the shipped configuration) is exempt"
EXPLANATION = "K4 tables for the policy functions and eval; K2 scan of every SwitchInt on a Color discriminant with an arm-summary mirror comparison; K1 for the data."

ENG = "chess_engine::"
COLOR = "chess_bitboard::color::Color"
SCORE = ENG + "score::Score"
CORE = ("chess_bitboard", "chess_lookup", "chess_movegen", "chess_engine", "chess_api", "chess_bot")


def cadt(a, n):
    return ("adt", a, n, ())


@rule("C13.R1", "policy pair White/Black is a mirror pair")
def r1(ctx):
    P = ctx.P
    eng = T.Engine(P)
    want = {"White": {"COLOR": cadt(COLOR, "White"), "WORST_SCORE": cadt(SCORE, "Min"), "BEST_SCORE": cadt(SCORE, "Max"), "Flip": ENG + "Black"},
            "Black": {"COLOR": cadt(COLOR, "Black"), "WORST_SCORE": cadt(SCORE, "Max"), "BEST_SCORE": cadt(SCORE, "Min"), "Flip": ENG + "White"}}
    for pol, w in want.items():
        for c in ("COLOR", "WORST_SCORE", "BEST_SCORE"):
            key = f"<{ENG}{pol} as {ENG}Policy>::{c}"
            v = eng.eval_closed(T.State(), key)
            ctx.ob(f"{pol}::{c}", v == w[c], f"{key} = {T.show(v)}, expected {T.show(w[c])}", sample=T.show(v))
        imp = [i for i in P.impls if i.get("self") == ENG + pol and i.get("trait") == ENG + "Policy"]
        flip = imp[0]["assoc_types"].get("Flip") if imp else None
        ctx.ob(f"{pol}::Flip", flip == w["Flip"], f"<{pol} as Policy>::Flip = {flip}, expected {w['Flip']}", sample=flip)
    def as_lt(term):
        """score-order comparison as ("lt"|"le", x, y): a > b is b < a, a >= b is b <= a"""
        if term[0] == "app" and term[1].startswith(f"<{SCORE} as core::cmp::PartialOrd>::") and len(term[2]) == 2:
            op = term[1].rsplit("::", 1)[1]
            a, b = [x[1] if x[0] == "refv" else x for x in term[2]]
            if op in ("lt", "le"):
                return (op, a, b)
            if op in ("gt", "ge"):
                return ({"gt": "lt", "ge": "le"}[op], b, a)
        return None
    # is_better(score, new): White prefers larger (score < new), Black smaller (new < score)
    for pol in ("White", "Black"):
        key = f"<{ENG}{pol} as {ENG}Policy>::is_better"
        ctx.used_body(key)
        lv = eng.tabulate(key)
        s_, n_ = ("param", 0, "a0"), ("param", 1, "a1")
        want = ("lt", s_, n_) if pol == "White" else ("lt", n_, s_)
        ok = len(lv) == 1 and as_lt(lv[0].ret) == want
        ctx.ob(f"{pol}::is_better", ok, f"{key} = {[T.show(l.ret) for l in lv]}; expected score {'<' if pol == 'White' else '>'} new", site=P.body(key).get("def_span"), sample=str(want[0]))
    # update_cutoff(alpha, beta, score): White raises alpha to max(alpha, score), Black lowers beta to min(beta, score); nothing else is written
    cut = {"White": ("alpha", 0, "max"), "Black": ("beta", 1, "min")}
    for pol, (which, idx, fn) in cut.items():
        key = f"<{ENG}{pol} as {ENG}Policy>::update_cutoff"
        ctx.used_body(key)
        lv = eng.tabulate(key)
        names = [P.body(key)["locals"][i + 1].get("n") for i in range(3)]
        prm = [("param", i, names[i]) for i in range(3)]
        tgt, score = prm[idx], prm[2]
        ok = bool(lv)
        for lf in lv:
            written = {p: eng.freeze(lf.state, v) for p, v in lf.ext.items() if p in prm}
            if [p for p in written if p != tgt]:
                ok = False
                continue
            val = written.get(tgt)
            if len(lv) == 1:
                ok &= (val is not None and val[0] == "app" and val[1] == f"<{SCORE} as core::cmp::Ord>::{fn}" and
                       sorted(map(repr, val[2])) == sorted(map(repr, [score, ("obj", tgt)])))
                continue
            # conditional assignment: `if score > *alpha { *alpha = score }` (any spelling of the comparison)
            cs = [(as_lt(t_), v) for t_, v in lf.cond if as_lt(t_)]
            if len(cs) != 1:
                ok = False
                continue
            (op, x, y), v = cs[0]
            old = ("obj", tgt)
            # does this path know "score is strictly beyond the old bound" (score > alpha for White, score < beta for Black)?
            beyond = None
            if {x, y} == {old, score}:
                if fn == "max":
                    beyond = (v == 1) if (op, x, y) == ("lt", old, score) else ((v == 0) if (op, x, y) == ("le", score, old) else None)
                    weak = (v == 1) if (op, x, y) == ("le", old, score) else ((v == 0) if (op, x, y) == ("lt", score, old) else None)
                else:
                    beyond = (v == 1) if (op, x, y) == ("lt", score, old) else ((v == 0) if (op, x, y) == ("le", old, score) else None)
                    weak = (v == 1) if (op, x, y) == ("le", score, old) else ((v == 0) if (op, x, y) == ("lt", old, score) else None)
                if beyond is None:
                    beyond = weak       # >= also yields max/min (assigning an equal score changes nothing)
            if beyond is None:
                ok = False
            elif beyond:
                ok &= val == score
            else:
                ok &= val is None or val == old
        ctx.ob(f"{pol}::update_cutoff", ok, f"{key} does not compute *{which} = score.{fn}(*{which}) (and nothing else)", site=P.body(key).get("def_span"), sample=f"*{which} = score.{fn}(*{which})")


MIRROR_NAMES = {"White": "Black", "Black": "White", "shift_up": "shift_down", "shift_down": "shift_up", "BlackMateIn": "WhiteMateIn", "WhiteMateIn": "BlackMateIn",
                "_1": "_8", "_2": "_7", "_3": "_6", "_4": "_5", "_5": "_4", "_6": "_3", "_7": "_2", "_8": "_1", "Min": "Max", "Max": "Min"}
# switches on Color whose arms are not mirror images by design
EXEMPT = {
    "<chess_movegen::Board as core::fmt::Display>::fmt": "the side letter: text, not play",
    "chess_movegen::fen::parse_fen": "expected en-passant rank digit per side to move: text (checked by C05.R5)",
    ENG + "Engine::score_pieces": "positional tables are stored for White; the Black arm flips ranks (positional evaluation is off in the shipped configuration)",
}


def arm_atoms(P, body, c, start, stop):
    """Workspace-level constants and callees mentioned in the blocks reachable from `start` before `stop` (bounded)."""
    seen, st, atoms = set(), [start], set()
    while st and len(seen) < 40:
        b = st.pop()
        if b in seen or b == stop:
            continue
        seen.add(b)
        blk = body["blocks"][b]
        for s in blk["s"]:
            r = s.get("r", {})
            if r.get("k") == "agg" and r.get("ak") == "adt" and r.get("adt", "").startswith("chess_") and not r["ops"]:
                atoms.add(("variant", r["adt"].rsplit("::", 1)[1], r["vn"]))
            elif r.get("k") == "agg" and r.get("ak") == "adt" and r.get("adt", "").startswith("chess_"):
                atoms.add(("ctor", r["adt"].rsplit("::", 1)[1], r["vn"]))
            for o in __import__("analysis.facts", fromlist=["x"]).walk_operands(s):
                if o.get("k") == "const" and "uneval" in o and o["uneval"].startswith(("chess_", "<chess_")):
                    atoms.add(("const", o["uneval_args"]))
        t = blk["t"]
        if t["k"] == "call" and t["f"].get("k") == "fnref":
            fn = t["f"].get("fn_args", t["f"]["fn"])
            if fn.startswith(("chess_", "<chess_")) and "fmt::" not in fn:
                atoms.add(("call", fn))
        if t["k"] == "switch" and t["d"].get("k") in ("copy", "move"):
            defs = k2.local_defs(body, t["d"]["p"]["l"])
            if len(defs) == 1 and defs[0][0] == "stmt" and defs[0][2]["r"].get("k") == "discr" and defs[0][2]["r"].get("adt", "").startswith("chess_"):
                r = defs[0][2]["r"]
                names = {int(d): n for n, d, _ in r.get("variants", [])}
                tested = tuple(sorted(names.get(int(v), v) for v, _ in t["tg"]))
                atoms.add(("match", r["adt"].rsplit("::", 1)[1], tested))
        st.extend(c.succ[b])
    return atoms


def mirror_atom(a):
    def mn(s):
        for k, v in MIRROR_NAMES.items():
            pass
        return s
    if a[0] in ("variant", "ctor"):
        return (a[0], a[1], MIRROR_NAMES.get(a[2], a[2]))
    if a[0] == "match":
        return (a[0], a[1], tuple(sorted(MIRROR_NAMES.get(x, x) for x in a[2])))
    if a[0] == "call":
        fn = a[1]
        fn2 = fn.replace("chess_engine::White", "\0W").replace("chess_engine::Black", "chess_engine::White").replace("\0W", "chess_engine::Black")
        for k in ("shift_up", "shift_down"):
            if fn2.endswith("::" + k):
                fn2 = fn2[: -len(k)] + MIRROR_NAMES[k]
                break
        return ("call", fn2)
    return a


def color_switches(P):
    """(fn key, switch block, {colour name: successor}) for every SwitchInt on a Color discriminant in the core crates."""
    cd = {d: n for n, d in P.enum_variants(COLOR)}
    out = []
    for key, body in P.fns.items():
        if body["crate"] not in CORE or body.get("derived") or "fmt::Debug" in key or "::promoted[" in key:
            continue
        for bi, blk in enumerate(body["blocks"]):
            t = blk["t"]
            if t["k"] != "switch" or t["d"].get("k") not in ("copy", "move"):
                continue
            l = t["d"]["p"]["l"]
            defs = k2.local_defs(body, l)
            if len(defs) == 1 and defs[0][0] == "call":
                # `if colour == Color::X` / `!=`: a two-way branch on a colour as well
                d = k2.describe_operand(P, body, t["d"])
                if d[0] == "call" and (d[1].endswith("color::Color as core::cmp::PartialEq>::eq") or d[1].endswith("color::Color as core::cmp::PartialEq>::ne")):
                    variants = []
                    for a in d[2]:
                        x = a
                        while isinstance(x, tuple) and x and x[0] in ("ref", "proj"):
                            x = x[1]
                        pv = k2.promoted_value(P, x[1]) if isinstance(x, tuple) and x and x[0] == "promoted" else None
                        if pv and pv[0] == "variant" and pv[1] == COLOR:
                            variants.append(pv[2])
                    if len(variants) == 1 and len(t["tg"]) == 1 and int(t["tg"][0][0]) == 0:
                        other = [n for n in cd.values() if n != variants[0]][0]
                        yes, no = t["o"], t["tg"][0][1]
                        if d[1].endswith("::ne"):
                            yes, no = no, yes
                        out.append((key, bi, {variants[0]: yes, other: no}))
                continue
            if len(defs) != 1 or defs[0][0] != "stmt":
                continue
            r = defs[0][2]["r"]
            if r.get("k") == "discr" and r.get("adt") == COLOR:
                arms = {}
                for v, b in t["tg"]:
                    arms[cd.get(int(v), v)] = b
                rest = [n for n in cd.values() if n not in arms]
                if len(rest) == 1 and body["blocks"][t["o"]]["t"]["k"] != "unreachable":
                    arms[rest[0]] = t["o"]
                out.append((key, bi, arms))
    return out


@rule("C13.R2", "every branch on a colour has mirror-image arms")
def r2(ctx):
    P = ctx.P
    sw = color_switches(P)
    # a colour case split may also be a method of the Policy trait implemented once per colour (static dispatch): the two implementations are
    # the arms; they count as a switch when they are mirror images (score constructors mirrored, same arguments)
    MIRV = {"BlackMateIn": "WhiteMateIn", "WhiteMateIn": "BlackMateIn", "Min": "Max", "Max": "Min"}
    known = {"is_better", "update_cutoff"}
    extra_pairs = 0
    for m_ in sorted({k.rsplit("::", 1)[1] for k in P.fns if k.startswith(f"<{ENG}White as {ENG}Policy>::")} - known):
        kw, kb = f"<{ENG}White as {ENG}Policy>::{m_}", f"<{ENG}Black as {ENG}Policy>::{m_}"
        if kb not in P.fns or "{" in m_:
            continue
        lw, lb = T.Engine(P).tabulate(kw), T.Engine(P).tabulate(kb)
        shape = lambda lv: len(lv) == 1 and not lv[0].cond and lv[0].ret[0] == "adt" and lv[0].ret[1] == SCORE and lv[0].ret[2] in MIRV
        if shape(lw) and shape(lb):
            ok = MIRV[lw[0].ret[2]] == lb[0].ret[2] and lw[0].ret[3] == lb[0].ret[3]
            ctx.ob(f"Policy::{m_} pair", ok, f"Policy::{m_}: White gives {T.show(lw[0].ret)}, Black gives {T.show(lb[0].ret)}; not mirror images", site=P.body(kw).get("def_span"))
            extra_pairs += 1
    ctx.floor("colour switches in the core crates", len(sw) + extra_pairs, 10)
    seen_named = set()
    for key, bi, arms in sw:
        body = P.body(key)
        ctx.used_body(key)
        c = cfg_of(body)
        if set(arms) != {"White", "Black"}:
            ctx.ob(f"{key}@{bi} arms", False, f"{key}: a match on Color does not have exactly the arms White and Black: {sorted(map(str, arms))}", site=body.get("def_span"))
            continue
        # join = nearest common post-dominator of the two arm entries
        pw, pb = c.pdom.get(arms["White"], set()), c.pdom.get(arms["Black"], set())
        common = (pw & pb) - {bi}
        join = None
        if common:
            join = min(common, key=lambda x: len(c.pdom.get(x, ())) * -1)
        aw = arm_atoms(P, body, c, arms["White"], join)
        ab = arm_atoms(P, body, c, arms["Black"], join)
        label = f"{T.short(key)[:60]}#{[k_ for k_, _, _ in sw].index(key) if False else ''}{sum(1 for k_, b_, _ in sw if k_ == key and b_ < bi)}"
        seen_named.add(key)
        if key in EXEMPT or any(key.startswith(e) for e in EXEMPT):
            ctx.note(f"exempt colour match in {key}: {EXEMPT.get(key)}")
            if key == ENG + "Engine::score_pieces":
                extra = {a for a in ab - {mirror_atom(x) for x in aw} if not (a[0] == "call" and a[1].endswith("flip_ranks"))}
                ctx.ob(f"{label} (exempt: flip only)", not extra, f"score_pieces: the Black arm differs from the White arm by more than the rank flip: {sorted(map(str, extra))[:4]}", site=body.get("def_span"))
            continue
        ok = {mirror_atom(a) for a in aw} == ab
        ctx.ob(label, ok, f"{key}: arms of a match on Color are not mirror images: White arm {sorted(map(str, aw))[:6]}, Black arm {sorted(map(str, ab))[:6]}",
               site=body.get("def_span"), sample={"white": sorted(map(str, aw))[:3], "black": sorted(map(str, ab))[:3]})
    named = ["chess_bitboard::color::Color::enpassant_capture_rank", "chess_bitboard::color::Color::enpassant_pawn_rank", "chess_lookup::pawn_quiets",
             "<chess_movegen::iter::pieces::Pawn as chess_movegen::iter::pieces::PieceType>::legals", ENG + "Engine::search"]
    for n in named:
        # in the function itself or in a private helper extracted from it
        ctx.ob(f"named instance {T.short(n)[:50]}", bool(k2.private_closure(P, n) & seen_named), f"expected a branch on Color in {n} or its private helpers (anchor)")
    ab = P.find_fn("Engine::alphabeta", "chess_engine")
    ctx.ob("named instance alphabeta mate score", bool(k2.private_closure(P, ab) & seen_named) or extra_pairs > 0, "expected a branch on P::COLOR in alphabeta or its private helpers (anchor)")


def flip_bb(g, bb):
    return g.bb([(f, 7 - r) for f, r in g.coords(bb)])


@rule("C13.R3", "colour-indexed constant data: T[Black] = mirror(T[White])")
def r3(ctx):
    P = ctx.P
    g = R.Geo(P)
    W, B = g.color[0], g.color[1]
    L = "chess_lookup::"
    inv_rank = {d: m for m, d in g.rank.items()}

    def ranks(name):
        ctx.used_static(L + name)
        return [inv_rank[x] for x in P.value_bytes(L + name)]
    for name in ("BACKRANK", "PROMOTION_RANK", "PAWN_DOUBLE_MOVE_SOURCE_RANK", "PAWN_DOUBLE_MOVE_DEST_RANK"):
        v = ranks(name)
        ctx.ob(name, v[B] == 7 - v[W], f"{name}: Black {v[B]} is not the mirror of White {v[W]}", sample={"white": v[W], "black": v[B]})
    for name in ("BACKRANK_BB", "PAWN_DOUBLE_MOVE"):
        ctx.used_static(L + name)
        v = P.value_u64s(L + name)
        ctx.ob(name, v[B] == flip_bb(g, v[W]), f"{name}: Black {g.bbs(v[B])} is not the rank-flip of White {g.bbs(v[W])}", sample={"white": hex(v[W])})
    for name in ("CASTLE_MOVES", "KINGSIDE_CASTLE_FILES", "QUEENSIDE_CASTLE_FILES", "KINGSIDE_CASTLE_SAFE_FILES", "QUEENSIDE_CASTLE_SAFE_FILES", "ROOK_CASTLE_KINGSIDE", "ROOK_CASTLE_QUEENSIDE",
                 "PAWN_DOUBLE_SOURCE", "PAWN_DOUBLE_DEST"):
        ctx.used_static(L + name)
        v = P.value_u64s(L + name)[0]
        ctx.ob(name, v == flip_bb(g, v), f"{name} = {g.bbs(v)} is not invariant under the rank flip", sample=hex(v))
    for name in ("pawn::PAWN_ATTACKS", "pawn::PAWN_QUIETS"):
        ctx.used_static(L + name)
        t = P.value_u64s(L + name)
        bad = []
        for d in range(64):
            f, r = g.coord[d]
            d2 = g.sq[(f, 7 - r)]
            if t[2 * d + W] != flip_bb(g, t[2 * d2 + B]):
                bad.append((g.name(d), f"{name}[{g.name(d)}][White] is not the flip of [{g.name(d2)}][Black]"))
        ctx.bulk(name, 64, bad, "pawn table not colour-symmetric")
    # per-square tables the evaluation reads without looking at the colour: invariant under the rank flip
    for key_ in sorted(k for k, v in P.values.items() if v.get("crate") == "chess_engine" and v.get("kind") == "static" and v.get("ty") == "[u8; 64]" and "::{" not in k):
        ctx.used_static(key_)
        tb = P.value_bytes(key_)
        bad = []
        for d in range(64):
            f, r = g.coord[d]
            d2 = g.sq[(f, 7 - r)]
            if tb[d] != tb[d2]:
                bad.append((g.name(d), f"{key_}[{g.name(d)}] = {tb[d]} but [{g.name(d2)}] = {tb[d2]}"))
        ctx.bulk(f"{key_.rsplit('::', 1)[1]} rank-flip invariant", 64, bad, "a per-square evaluation table treats a square and its mirror differently")
    key = "chess_movegen::castle_rights::CASTLE_RIGHTS_PER_SQ"
    ctx.used_static(key)
    raw = P.value_bytes(key)
    swap = lambda x: ((x & 0b0011) << 2) | ((x & 0b1100) >> 2)      # bit = side + 2*colour
    bad = []
    for d in range(64):
        f, r = g.coord[d]
        d2 = g.sq[(f, 7 - r)]
        if (raw[64 * W + d] & 0xF) != swap(raw[64 * B + d2] & 0xF):
            bad.append((g.name(d), f"castling mask [White][{g.name(d)}] is not the colour-swap of [Black][{g.name(d2)}]"))
    ctx.bulk("CASTLE_RIGHTS_PER_SQ", 64, bad, "castling masks not colour-symmetric")


@rule("C13.R4", "static evaluation is antisymmetric (shipped configuration)")
def r4(ctx):
    P = ctx.P
    SP, EE = ENG + "Engine::score_pieces", ENG + "Engine::eval_endgame"
    key = ENG + "Engine::eval"
    ctx.used_body(key)
    site = P.body(key).get("def_span")
    ms = T.mod_fields(P, SP, 0, opaque={"<chess_bitboard::BitBoardIter as core::iter::traits::iterator::Iterator>::next"})
    me = T.mod_fields(P, EE, 0, opaque={"chess_movegen::iter::<impl chess_movegen::Board>::king_legals", "chess_movegen::iter::MoveGen::len", "chess_movegen::Board::king_sq", "chess_lookup::distance"})
    eng = T.Engine(P, opaque={SP, EE, "chess_movegen::Board::king_sq", "chess_movegen::Board::half_move_clock", "chess_bitboard::pos::Pos::flip_rank"})
    if ms is not None:
        eng.mod_summaries[SP] = (0, ENG + "Engine", ms)
    if me is not None:
        eng.mod_summaries[EE] = (0, ENG + "Engine", me)
    leaves = eng.tabulate(key)

    def sp_color(t):
        return t[2][2][2] if t[0] == "app" and t[1] == SP and t[2][2][0] == "adt" else None
    slf = ("obj", ("param", 0, "self"))
    rows = []
    thresholds = set()
    for lf in leaves:
        if lf.ret == ("adt", SCORE, "Raw", (T.I(0, "i32"),)) and any(T.threshold(t, v) and T.threshold(t, v)[0][0] == "app" and "half_move_clock" in T.threshold(t, v)[0][1] for t, v in lf.cond):
            continue
        positional = None
        reqs = []
        for t, v in lf.cond:
            if t[0] == "assert":
                continue
            if t == ("field", slf, "positional"):
                positional = bool(v)
                continue
            if t[0] == "discr" and t[1][0] == "cmp":
                a, b = t[1][1], t[1][2]
                if a[0] == "bin" and a[1] == "Sub" and sp_color(a[2]) == "White" and sp_color(a[3]) == "Black" and b == T.I(0, "i32"):
                    reqs.append(("cmp", v))
                    continue
            th = T.threshold(t, v)
            is_diff = lambda a_: a_[0] == "bin" and a_[1] == "Sub" and sp_color(a_[2]) == "White" and sp_color(a_[3]) == "Black"
            if th and is_diff(th[0]):
                reqs.append(("diffge", th[1], th[2]))        # (white material - black material) >= K, as an if-chain writes the same three-way split
                continue
            if t[0] == "bin" and t[1] in ("Eq", "Ne") and ((is_diff(t[2]) and T.is_const(t[3])) or (is_diff(t[3]) and T.is_const(t[2]))):
                k_ = t[3][1] if T.is_const(t[3]) else t[2][1]
                reqs.append(("diffeq", k_, bool(v) == (t[1] == "Eq")))
                continue
            if th and sp_color(th[0]):
                thresholds.add(th[1])
                reqs.append(("ge", sp_color(th[0]), th[1], th[2]))
                continue
            if th and th[0][0] == "app" and "half_move_clock" in th[0][1]:
                continue
            reqs.append(("unknown", T.show(t)[:80], v))
        rows.append((positional, reqs, lf.ret))
    unknown = [r for _, reqs, _ in rows for r in reqs if r[0] == "unknown"]
    ctx.ob("eval inputs", not unknown, f"eval branches on {unknown[:3]}; expected only material comparison, material thresholds and `positional`", site=site)
    if unknown:
        return
    vals = sorted({0} | {k + d for k in thresholds for d in (-1, 0, 1)})

    def components(ret):
        # Raw((wp + we) - (bp + be) + k)
        x = ret[3][0] if ret[0] == "adt" and ret[2] == "Raw" else None
        if x is None:
            return None
        subs = [s_ for s_ in subterms(x) if s_[0] == "bin" and s_[1] == "Sub" and any(sp_color(y) == "White" for y in subterms(s_[2])) and any(sp_color(y) == "Black" for y in subterms(s_[3]))]
        if not subs:
            return None
        s_ = max(subs, key=lambda z: len(repr(z)))
        ee = lambda side: sorted(y[2][2][2] for y in subterms(side) if y[0] == "app" and y[1] == EE)
        rest = [y for y in subterms(x) if y[0] == "app" and y[1] not in (SP, EE)]
        wsp = [sp_color(y) for y in subterms(s_[2]) if sp_color(y)]
        bsp = [sp_color(y) for y in subterms(s_[3]) if sp_color(y)]
        return {"we": ee(s_[2]), "be": ee(s_[3]), "w_sp": wsp, "b_sp": bsp, "extra": bool(rest)}

    def pick(w, b, positional):
        hits = []
        for pos, reqs, ret in rows:
            if pos is not None and pos != positional:
                continue
            ok = True
            for r in reqs:
                if r[0] == "cmp":
                    ok &= {"Less": w < b, "Equal": w == b, "Greater": w > b}[r[1]]
                elif r[0] == "ge":
                    x = w if r[1] == "White" else b
                    ok &= (x >= r[2]) == r[3]
                elif r[0] == "diffge":
                    ok &= ((w - b) >= r[1]) == r[2]
                elif r[0] == "diffeq":
                    ok &= ((w - b) == r[1]) == r[2]
            if ok:
                hits.append(ret)
        return hits
    bad, n = [], 0
    swapc = lambda cs: sorted("Black" if c == "White" else "White" for c in cs)
    for w in vals:
        for b in vals:
            n += 1
            h1, h2 = pick(w, b, False), pick(b, w, False)
            c1 = components(h1[0]) if len(h1) == 1 else None
            c2 = components(h2[0]) if len(h2) == 1 else None
            if c1 is None or c2 is None:
                bad.append((f"{w},{b}", f"eval is not a function of the material values ({len(h1)}/{len(h2)} matching cases)"))
                continue
            if c1["extra"] or c1["w_sp"] != ["White"] or c1["b_sp"] != ["Black"]:
                bad.append((f"{w},{b}", f"eval(material W={w}, B={b}) is not (pieces(White)+..)-(pieces(Black)+..): {c1}"))
            if c1["we"] != swapc(c2["be"]) or c1["be"] != swapc(c2["we"]):
                bad.append((f"{w},{b}", f"material (W={w}, B={b}): endgame terms white={c1['we']} black={c1['be']}; with colours swapped (W={b}, B={w}) they are white={c2['we']} black={c2['be']}: "
                            "not mirror images, so the two searches are not negatives of each other"))
    ctx.bulk("eval antisymmetry over material values", n, bad, "static evaluation is not colour-symmetric", sample={"values": vals, "thresholds": sorted(thresholds)})
    # who gets the endgame bonus: the side that is ahead gets its opponent's king chased (white_endgame += eval_endgame(board, Black) when Black is ahead ...) -- only symmetry is checked here
    # default configuration: positional off
    dk = f"<{ENG}Engine as core::default::Default>::default"
    if dk in P.fns:
        lv = T.Engine(P).tabulate(dk)
        pos_default = None
        if len(lv) == 1 and lv[0].ret[0] == "adt":
            names = [f["name"] for f in P.adt(ENG + "Engine")["variants"][0]["fields"]]
            pos_default = dict(zip(names, lv[0].ret[3])).get("positional")
        ctx.ob("default: positional off", pos_default in (T.FALSE, ("app", "<bool as core::default::Default>::default", ())), f"Engine::default().positional = {T.show(pos_default) if pos_default else None}",
               sample=T.show(pos_default) if pos_default else None)


@rule("C13.R5", "score order mirror: cmp(mirror a, mirror b) == cmp(b, a)")
def r5(ctx):
    from rules.C14 import cmp_table, eval_cell
    tab = cmp_table(ctx, f"<{SCORE} as core::cmp::Ord>::cmp")
    mir = {"Min": "Max", "Max": "Min", "BlackMateIn": "WhiteMateIn", "WhiteMateIn": "BlackMateIn", "Raw": "Raw"}
    bad, n = [], 0
    for (va, vb), cell in tab.items():
        for pa in (0, 1, 2):
            for pb in (0, 1, 2):
                n += 1
                # mirror negates Raw payloads and keeps mate distances
                ma = -pa if va == "Raw" else pa
                mb = -pb if vb == "Raw" else pb
                if (mir[va], mir[vb]) not in tab or (vb, va) not in tab:
                    bad.append((f"{va},{vb}", f"Score::cmp has no single result shape for the variant pair ({mir[va]}, {mir[vb]}) or ({vb}, {va}): the order table is incomplete"))
                    continue
                lhs = eval_cell(tab[(mir[va], mir[vb])], ma, mb)
                rhs = eval_cell(tab[(vb, va)], pb, pa)
                if lhs != rhs:
                    bad.append((f"{va}#{pa},{vb}#{pb}", f"cmp(mirror {va}({pa}), mirror {vb}({pb})) = {lhs} but cmp({vb}({pb}), {va}({pa})) = {rhs}"))
    ctx.bulk("score mirror", n, bad, "score order is not mirror-symmetric", sample={"cells": n})


@rule("C13.R6", "premise: the king-distance helper used by the endgame evaluation is symmetric under the rank flip (C09.R3 distance re-run)")
def r_premise(ctx):
    from analysis.runner import premise
    premise(ctx, "C09", {'C09.R3'}, "eval_endgame reads chess_lookup::distance, which no longer equals the geometric (mirror-invariant) king distance")



@rule("C13.R7", "root search window: alpha and beta are reset together (a pass never starts with one stale bound)")
def r7(ctx):
    """White only ever tightens alpha and Black only beta (R1): a bound that survives from the previous pass on one side only makes the two colours search differently."""
    P = ctx.P
    key = P.find_fn("Engine::search_with", "chess_engine")
    ctx.used_body(key)
    body = P.body(key)
    c = cfg_of(body)
    ab = P.find_fn("Engine::alphabeta", "chess_engine")
    ARGS = ENG + "AlphaBetaArgs"
    resets = {"alpha": set(), "beta": set()}
    for bi, blk in enumerate(body["blocks"]):
        for s in blk["s"]:
            if s["k"] != "assign":
                continue
            r = s.get("r", {})
            if r.get("k") == "agg" and r.get("adt") == ARGS:
                ops = dict(zip(r["fields"], r["ops"]))
                for f_ in ("alpha", "beta"):
                    if f_ in ops:
                        resets[f_].add(bi)
            pj = s["p"]["pj"]
            if pj and isinstance(pj[-1], dict) and pj[-1].get("a") == ARGS and pj[-1].get("n") in ("alpha", "beta"):
                resets[pj[-1]["n"]].add(bi)
    # a private helper that builds the arguments (both bounds at once) counts at its call sites
    for f in k2.private_closure(P, key) - k2.private_closure(P, ab):
        if f == key or "{closure" in f:
            continue
        fb = P.body(f)
        builds = [dict(zip(s["r"]["fields"], s["r"]["ops"])) for blk in fb["blocks"] for s in blk["s"] if s["k"] == "assign" and s.get("r", {}).get("k") == "agg" and s["r"].get("adt") == ARGS]
        for bi, t_ in P.calls(key):
            if t_["f"].get("fn") == f:
                for f_ in ("alpha", "beta"):
                    if any(f_ in b_ for b_ in builds):
                        resets[f_].add(bi)
    ctx.floor("root window initialisations", len(resets["alpha"]) + len(resets["beta"]), 2)
    calls = [bi for bi, t_ in P.calls(key) if T.strip_generics(t_["f"].get("fn", "")) == ab]
    ctx.floor("root alphabeta calls", len(calls), 1)
    # the deepening loop: the outermost loop that contains a root alphabeta call
    loops = [bl for h, bl in c.loops().items() if any(b_ in bl for b_ in calls)]
    outer = max(loops, key=len) if loops else set()
    in_a, in_b = bool(resets["alpha"] & set(outer)), bool(resets["beta"] & set(outer))
    ctx.ob("alpha/beta reset together", in_a == in_b and bool(outer), f"inside the deepening loop alpha is reset: {in_a}, beta is reset: {in_b}; they must be reset together (Score::Min / Score::Max) or not at all",
           site=body.get("def_span"), sample={"alpha_reset_in_loop": in_a, "beta_reset_in_loop": in_b})


@rule("C13.R90", 'premises shared with other properties: C10 (C10.R9); C12 (C12.R3); C02 (C02.R3)')
def r_premises_shared(ctx):
    """This property's argument rests on these rules of other properties (what it calls is assumed to behave); they are re-run here so that a
    breakage of one of them is reported by this property's own check as well."""
    from analysis.runner import premise
    premise(ctx, 'C10', ['C10.R9'] and set(['C10.R9']), 'both colours iterate their moves through MoveGen::next; it no longer yields every masked move')
    premise(ctx, 'C12', ['C12.R3'] and set(['C12.R3']), 'the dead-position shortcut must treat the two colours alike')
    premise(ctx, 'C02', ['C02.R3'] and set(['C02.R3']), 'the draw clock must tick alike for both colours')


# ------------------------------------------------------------------ controls
def _worst_same(P):
    b = P.own("const_bodies", f"<{ENG}Black as {ENG}Policy>::WORST_SCORE")
    for blk in b["blocks"]:
        for s in blk["s"]:
            r = s.get("r", {})
            if r.get("k") == "agg" and r.get("vn") == "Max":
                r["vn"] = "Min"


def _ep_rank(P):
    b = P.own("fns", "chess_bitboard::color::Color::enpassant_pawn_rank")
    for blk in b["blocks"]:
        for s in blk["s"]:
            r = s.get("r", {})
            if r.get("k") == "agg" and r.get("vn") == "_4":
                r["vn"] = "_3"


def _eval_threshold(P):
    b = P.own("fns", ENG + "Engine::eval")
    done = False
    for blk in b["blocks"]:
        for s in blk["s"]:
            r = s.get("r", {})
            if not done and r.get("k") == "bin" and r.get("op") == "Lt":
                r["op"] = "Le"
                done = True


def _backrank(P):
    v = P.own("values", "chess_lookup::PROMOTION_RANK")
    v["val"] = dict(v["val"])
    v["val"]["bytes"] = "0701"


CONTROLS = [
    ("Black::WORST_SCORE = Min", "C13.R1", _worst_same),
    ("Black's en-passant pawn rank is the 3rd", "C13.R2", _ep_rank),
    ("one material threshold uses <=", "C13.R4", _eval_threshold),
    ("PROMOTION_RANK[Black] = 2nd rank", "C13.R3", _backrank),
]
