"""C18 - bitboards behave as sets of squares."""
from analysis.runner import rule
from analysis.cfg import cfg_of
from analysis.facts import AnchorError
from analysis import terms as T, k2
from analysis import chessref as R
from analysis.effects import word_equal, sample_words, subterms, upd_entries

THOROUGH_CONFIGS = ['release', 'nobmi2', 'movegen-alone']
LEVEL = "other"
DECIDED = ("Each bitboard operation's MIR is reduced (K4: inlining, constant folding, commutative normalisation) to a term over the 64-bit word and compared with the canonical bit "
           "formula of the set operation, with square numbering and edge masks derived from the Pos/File/Rank enums: R1 from_pos/from_file/from_rank; R2 or/and/xor/not/diff, "
           "contains/with/cleared/set/clear, any/none/all/some, count = popcount; R3 the four one-step shifts clear the leaving edge first and shift by the numbering's rank/file stride in "
           "the right direction, flip_ranks = byte swap; R4 pop removes and returns the lowest set bit (None on empty), the iterator's next is pop and size_hint is (count, Some(count)); "
           "R5 the BMI2 nth: for every position z of the selected bit it returns square z and removes exactly the bits <= z, past the end it empties the iterator and returns None, and the "
           "selector is pdep(1 << n, bits) (0 when n >= 64); R6 operator impls delegate to the named methods; R7 FromIterator folds with set / |=.")
DECIDED = DECIDED + ' Shift and pop formulas are compared with the canonical ones by evaluation on sample words (0, all ones, all single bits, edge masks, pseudo-random words), so any equivalent formula is accepted.'
DECIDED = DECIDED + ' R4: the path of pop is keyed by trailing_zeros of the NonZero view or of the word itself on a path that excluded the empty board.'
NOT_DECIDED = ("ascending iteration order beyond 'each step removes the lowest set bit'; the semantics of the intrinsics (count_ones, trailing_zeros, swap_bytes, pdep) are trusted; "
               "an implementation by a different bit trick would trip these term rules although correct (stated tolerance)")
EXPLANATION = "K4 normalised dataflow terms compared with canonical formulas; the nth fast path is tabulated over all 65 outcomes of the bit-position computation."

BB = "chess_bitboard::BitBoard"
ITER = "chess_bitboard::BitBoardIter"


def bbv(w):
    return ("adt", BB, "BitBoard", (w,))


def word(p):
    return ("field", p, "0")


@rule("C18.R1", "constructors")
def r1(ctx):
    P = ctx.P
    g = R.Geo(P)
    eng = T.Engine(P)
    # numbering sanity: bit index of a square is its discriminant; files are contiguous within a rank
    file_a = g.bb([(0, r) for r in range(8)])
    rank_1 = g.bb([(f, 0) for f in range(8)])
    fstride = g.sq[(1, 0)] - g.sq[(0, 0)]
    rstride = g.sq[(0, 1)] - g.sq[(0, 0)]
    ctx.ob("numbering strides", all(g.sq[(f, r)] == g.sq[(0, 0)] + f * fstride + r * rstride for f in range(8) for r in range(8)) and g.sq[(0, 0)] == 0,
           "Pos discriminants are not an affine function of (file, rank)", sample={"file_stride": fstride, "rank_stride": rstride})
    cases = {
        "from_pos": bbv(eng.binop("Shl", T.I(1, "u64"), ("cast", "u8", ("discr", ("param", 0, "a0"))))),
        "from_file": bbv(eng.binop("Shl", T.I(file_a, "u64"), eng.binop("Mul", ("cast", "u8", ("discr", ("param", 0, "a0"))), T.I(fstride, "u8")) if fstride != 1 else ("cast", "u8", ("discr", ("param", 0, "a0"))))),
        "from_rank": bbv(eng.binop("Shl", T.I(rank_1, "u64"), eng.binop("Mul", ("cast", "u8", ("discr", ("param", 0, "a0"))), T.I(rstride, "u8")))),
        "from_u64": bbv(("param", 0, "a0")),
        "empty": bbv(T.I(0, "u64")),
        "to_u64": word(("param", 0, "self")),
    }
    for fn, want in cases.items():
        key = f"{BB}::{fn}"
        ctx.used_body(key)
        rets = {lf.ret for lf in eng.tabulate(key)}
        ctx.ob(fn, rets == {want}, f"BitBoard::{fn} computes {[T.show(r)[:100] for r in rets]}; the set definition gives {T.show(want)[:100]}", site=P.body(key).get("def_span"), sample=T.show(want)[:80])


@rule("C18.R2", "set algebra, membership, insertion/removal, emptiness, cardinality")
def r2(ctx):
    P = ctx.P
    eng = T.Engine(P)
    x, y = word(("param", 0, "self")), word(("param", 1, "a1"))
    bit = eng.binop("Shl", T.I(1, "u64"), ("cast", "u8", ("discr", ("param", 1, "a1"))))
    Z = T.I(0, "u64")
    pure = {
        "or": bbv(eng.binop("BitOr", x, y)), "and": bbv(eng.binop("BitAnd", x, y)), "xor": bbv(eng.binop("BitXor", x, y)), "not": bbv(eng.unop("Not", x)),
        "diff": bbv(eng.binop("BitAnd", x, eng.unop("Not", y))),
        "contains": eng.binop("Ne", eng.binop("BitAnd", x, bit), Z), "with": bbv(eng.binop("BitOr", x, bit)), "cleared": bbv(eng.binop("BitAnd", x, eng.unop("Not", bit))),
        "any": eng.binop("Ne", x, Z), "none": eng.binop("Eq", x, Z), "all": eng.binop("Eq", eng.unop("Not", x), Z), "some": eng.binop("Ne", eng.unop("Not", x), Z),
        "count": ("cast", "u8", ("count_ones", x)),
    }
    for fn, want in pure.items():
        key = f"{BB}::{fn}"
        ctx.used_body(key)
        rets = {lf.ret for lf in eng.tabulate(key)}
        ctx.ob(fn, rets == {want}, f"BitBoard::{fn} computes {[T.show(r)[:100] for r in rets]}; the set definition gives {T.show(want)[:100]}", site=P.body(key).get("def_span"), sample=T.show(want)[:80])
    slf = ("param", 0, "self")
    xs = word(("obj", slf))
    inplace = {"set": bbv(eng.binop("BitOr", xs, bit)), "clear": bbv(eng.binop("BitAnd", xs, eng.unop("Not", bit)))}
    for fn, want in inplace.items():
        key = f"{BB}::{fn}"
        ctx.used_body(key)
        lv = eng.tabulate(key)
        got = {eng.freeze(lf.state, lf.ext.get(slf, ("obj", slf))) for lf in lv}
        ctx.ob(fn, got == {want}, f"BitBoard::{fn} leaves *self = {[T.show(r)[:100] for r in got]}; expected {T.show(want)[:100]}", site=P.body(key).get("def_span"), sample=T.show(want)[:80])


@rule("C18.R3", "one-step shifts never wrap; rank flip")
def r3(ctx):
    P = ctx.P
    g = R.Geo(P)
    eng = T.Engine(P)
    x = word(("param", 0, "self"))
    rstride = g.sq[(0, 1)] - g.sq[(0, 0)]
    fstride = g.sq[(1, 0)] - g.sq[(0, 0)]
    edge = {"shift_up": g.bb([(f, 7) for f in range(8)]), "shift_down": g.bb([(f, 0) for f in range(8)]),
            "shift_left": g.bb([(0, r) for r in range(8)]), "shift_right": g.bb([(7, r) for r in range(8)])}
    move = {"shift_up": ("Shl", rstride), "shift_down": ("Shr", rstride), "shift_left": ("Shr", fstride), "shift_right": ("Shl", fstride)}
    for fn in edge:
        key = f"{BB}::{fn}"
        ctx.used_body(key)
        rets = {lf.ret for lf in eng.tabulate(key)}
        op, amt = move[fn]
        keep = T.I(~edge[fn], "u64")
        ok = False
        for r in rets:
            w = r[3][0] if r[0] == "adt" else r
            # any formula with the same value on every sample word (single bits, edges, random): `(x & keep) >> 1` and `(x >> 1) & keep'` alike
            want_w = ("bin", op, ("bin", "BitAnd", x, keep), T.I(amt, w[3][2] if (w[0] == "bin" and T.is_const(w[3]) and len(w[3]) > 2) else "i32"))
            if word_equal(eng, w, want_w, x) is True:
                ok = True
        ctx.ob(fn, ok and len(rets) == 1, f"BitBoard::{fn} computes {[T.show(r)[:110] for r in rets]}; expected ({T.show(x)} & {hex(keep[1])}) {'<<' if op == 'Shl' else '>>'} {amt} "
               "(clear the edge the squares would leave over, then move one step)", site=P.body(key).get("def_span"), sample={"edge_cleared": hex(edge[fn]), "shift": f"{op} {amt}"})
    key = f"{BB}::flip_ranks"
    ctx.used_body(key)
    rets = {lf.ret for lf in eng.tabulate(key)}
    byteswap_is_flip = all(g.sq[(f, 7 - r)] == (7 - g.sq[(f, r)] // 8) * 8 + g.sq[(f, r)] % 8 for f in range(8) for r in range(8))
    ctx.ob("flip_ranks", rets == {bbv(("swap_bytes", x))} and byteswap_is_flip, f"flip_ranks computes {[T.show(r)[:80] for r in rets]}; expected swap_bytes (numbering makes it the rank flip: {byteswap_is_flip})",
           site=P.body(key).get("def_span"), sample="swap_bytes(self.0)")


@rule("C18.R4", "pop, iteration step and size hint")
def r4(ctx):
    P = ctx.P
    g = R.Geo(P)
    eng = T.Engine(P)
    pos_adt = g.pos_key
    names = {d: n for n, d in P.enum_variants(pos_adt)}
    slf = ("param", 0, "self")
    xs = word(("obj", slf))
    for fn in ("pop", "pop_unchecked"):
        key = f"{BB}::{fn}"
        ctx.used_body(key)
        lv = eng.tabulate(key, keep_panics=True)
        seen, bad = set(), []
        for lf in lv:
            if lf.ret[0] == "panic":
                # from_u8(tz).unwrap() with tz >= 64: infeasible (trailing_zeros of a non-zero word), recorded under C07
                continue
            zero = [v for t, v in lf.cond if t == ("bin", "Eq", xs, T.I(0, "u64")) or t == ("bin", "Eq", T.I(0, "u64"), xs)]
            # the key: trailing_zeros of the NonZero view of the word, or of the word itself on a path that has excluded the empty board
            is_tz = lambda t: t[0] == "cast" and ((t[2][0] == "app" and "trailing_zeros" in t[2][1]) or (t[2][0] == "trailing_zeros" and t[2][1] == xs and (zero == [0] or fn != "pop")))
            tz = [(t, v) for t, v in lf.cond if is_tz(t) and isinstance(v, int)]
            final = eng.freeze(lf.state, lf.ext.get(slf, ("obj", slf)))
            neww = T.get_path(final, (("f", 0, "0", None),)) if final != ("obj", slf) else xs
            if fn == "pop" and zero == [1]:
                if lf.ret != T.OPT_NONE or neww != xs:
                    bad.append(f"pop on the empty board returns {T.show(lf.ret)} / leaves {T.show(neww)[:60]}")
                seen.add("empty")
                continue
            beyond = [v for t, v in lf.cond if is_tz(t) and isinstance(v, tuple) and v and v[0] == "not" and set(range(64)) <= set(v[1])]
            if beyond and not tz:
                continue        # the `64.. =>` arm of the square table: trailing_zeros of a non-zero word is below 64 (infeasible; its panic twin is recorded under C07)
            if len(tz) != 1:
                bad.append(f"path not keyed by the position of the lowest set bit: {T.show_cond(lf.cond)[:120]}")
                continue
            z = tz[0][1]
            want_ret = ("adt", pos_adt, names.get(z, "?"), ())
            got_ret = lf.ret[3][0] if (lf.ret[0] == "adt" and lf.ret[2] == "Some") else lf.ret
            want_new = eng.binop("BitXor", xs, eng.binop("Shl", T.I(1, "u64"), tz[0][0]))
            alt_new = eng.binop("BitXor", xs, T.I(1 << z, "u64"))
            nw = neww[3][0] if neww[0] == "adt" else neww
            same = nw in (want_new, alt_new)
            if not same:
                # any other way of clearing the lowest set bit (`x & (x - 1)`, `x & !(1 << z)`, ...): compare on words whose lowest set bit is z
                smp = [((w_ << (z + 1)) | (1 << z)) & ((1 << 64) - 1) for w_ in sample_words()[::3]]
                same = word_equal(eng, nw, alt_new, xs, samples=smp) is True
            if got_ret != want_ret or not same:
                bad.append(f"lowest set bit at {z}: returns {T.show(got_ret)}, leaves {T.show(nw)[:80]}")
            seen.add(z)
        want_seen = set(range(64)) | ({"empty"} if fn == "pop" else set())
        ctx.ob(fn, not bad and seen == want_seen, f"BitBoard::{fn}: {bad[:2]} (cases covered {len(seen)}/{len(want_seen)})", site=P.body(key).get("def_span"), sample={"cases": len(seen)})
    key = f"<{ITER} as core::iter::traits::iterator::Iterator>::next"
    ctx.used_body(key)
    lv = T.Engine(P, opaque={f"{BB}::pop"}).tabulate(key)
    ok = len(lv) == 1 and lv[0].ret[0] == "app" and lv[0].ret[1] == f"{BB}::pop"
    ctx.ob("iterator next = pop", ok, f"BitBoardIter::next is {[T.show(l.ret)[:80] for l in lv]}", site=P.body(key).get("def_span"), sample="self.0.pop()")
    key = f"<{ITER} as core::iter::traits::iterator::Iterator>::size_hint"
    ctx.used_body(key)
    lv = eng.tabulate(key)
    cnt = ("cast", "usize", ("cast", "u8", ("count_ones", word(("field", ("obj", slf), "0")))))
    want = ("tuple", (cnt, ("adt", "core::option::Option", "Some", (cnt,))))
    ctx.ob("size_hint", len(lv) == 1 and lv[0].ret == want, f"BitBoardIter::size_hint is {[T.show(l.ret)[:100] for l in lv]}", site=P.body(key).get("def_span"), sample="(count, Some(count))")
    for nm, key in (("iter", f"{BB}::iter"), ("into_iter", f"<{BB} as core::iter::traits::collect::IntoIterator>::into_iter")):
        ctx.used_body(key)
        lv = eng.tabulate(key)
        ctx.ob(nm, len(lv) == 1 and lv[0].ret == ("adt", ITER, "BitBoardIter", (("param", 0, "self"),)), f"BitBoard::{nm} is {[T.show(l.ret)[:80] for l in lv]}", site=P.body(key).get("def_span"))


@rule("C18.R8", "BitBoardIter overrides no Iterator method beyond the audited next / size_hint / nth")
def r8(ctx):
    """`last`, `fold`, `count`, `min`, `max`, ... are provided through `next`; an override (an O(1) 'fast path') is a second implementation of
    iteration that none of the rules above reads."""
    new = k2.unaudited_overrides(ctx.P, ["chess_bitboard::BitBoardIter"])
    ctx.ob("no unaudited Iterator override", not new, f"BitBoardIter now overrides {new}: nothing establishes that it agrees with next()", sample={"audited": ["next", "size_hint", "nth"]})


@rule("C18.R5", "BMI2 nth: selects the n-th member, removes everything up to it, drains past the end")
def r5(ctx):
    P = ctx.P
    g = R.Geo(P)
    key = f"<{ITER} as core::iter::traits::iterator::Iterator>::nth"
    if key not in P.fns:
        ctx.note("nth fast path not compiled in this configuration (no bmi2): the default Iterator::nth (repeated next) applies")
        ctx.ob("nth (default impl)", True, "", sample="default Iterator::nth")
        return
    ctx.used_body(key)
    eng = T.Engine(P)
    lv = eng.tabulate(key, keep_panics=True)
    slf = ("param", 0, "self")
    x = word(("field", ("obj", slf), "0"))
    names = {d: n for n, d in P.enum_variants(g.pos_key)}
    bad, seen = [], set()
    site = P.body(key).get("def_span")
    selectors = set()
    for lf in lv:
        if lf.ret[0] == "panic":
            bad.append(f"nth can panic: {lf.ret[1]} under {T.show_cond([c for c in lf.cond if c[0][0] != 'assert'])[:100]}")
            continue
        tz = [(t, v) for t, v in lf.cond if t[0] == "cast" and t[2][0] == "trailing_zeros"]
        big_n = [v for t, v in lf.cond if T.threshold(t, v) and T.threshold(t, v)[0] == ("param", 1, "a1") and T.threshold(t, v)[1] == 64]
        for t, v in tz:
            sel = t[2][1]
            selectors.add(sel)
        final = eng.freeze(lf.state, lf.ext.get(slf, ("obj", slf)))
        neww = T.get_path(final, (("f", 0, "0", None), ("f", 0, "0", None))) if final != ("obj", slf) else x
        neww = neww[3][0] if neww[0] == "adt" else neww
        if len(tz) != 1:
            bad.append(f"path not keyed by the selected bit position: {T.show_cond(lf.cond)[:100]}")
            continue
        z = tz[0][1]
        if isinstance(z, tuple):      # ('not', (0..63)) : no member selected
            ok = lf.ret == T.OPT_NONE and neww == T.I(0, "u64")
            if not ok:
                bad.append(f"past the end: returns {T.show(lf.ret)}, leaves {T.show(neww)[:60]} (must be None and empty)")
            seen.add("end")
            continue
        want_mask = (~((1 << (z + 1)) - 1)) & ((1 << 64) - 1)
        ok_ret = lf.ret == ("adt", "core::option::Option", "Some", (("adt", g.pos_key, names.get(z, "?"), ()),))
        ok_new = neww == eng.binop("BitAnd", x, T.I(want_mask, "u64"))
        if not (ok_ret and ok_new):
            bad.append(f"selected bit {z}: returns {T.show(lf.ret)}, leaves {T.show(neww)[:70]}; expected Some({names.get(z)}) and bits & {hex(want_mask)}")
        seen.add(z)
    ctx.ob("nth table", not bad and seen >= set(range(64)) | {"end"}, f"nth: {bad[:2]} (cases {len(seen)}/65)", site=site, sample={"cases": len(seen)})
    n = ("param", 1, "a1")
    want_sel = {("app", "core::core_arch::x86_64::bmi2::_pdep_u64", (eng.binop("Shl", T.I(1, "u64"), n), x)), ("app", "core::core_arch::x86_64::bmi2::_pdep_u64", (T.I(0, "u64"), x))}
    got_sel = {(s_[0], s_[1], s_[2]) for s_ in selectors if s_[0] == "app"}
    ctx.ob("nth selector", got_sel == want_sel, f"nth selects with {[T.show(s_)[:90] for s_ in selectors]}; expected pdep(1 << n, bits) for n < 64 and pdep(0, bits) otherwise", site=site,
           sample=[T.show(s_)[:60] for s_ in selectors])


OPS = {
    "core::ops::bit::BitOr>::bitor": "or", "core::ops::bit::BitAnd>::bitand": "and", "core::ops::bit::BitXor>::bitxor": "xor", "core::ops::arith::Sub>::sub": "diff",
    "core::ops::bit::Not>::not": "not",
}


@rule("C18.R6", "operator impls delegate to the named methods")
def r6(ctx):
    P = ctx.P
    eng0 = T.Engine(P)
    x, y = word(("param", 0, "self")), word(("param", 1, "a1"))
    want = {"bitor": eng0.binop("BitOr", x, y), "bitand": eng0.binop("BitAnd", x, y), "bitxor": eng0.binop("BitXor", x, y), "sub": eng0.binop("BitAnd", x, eng0.unop("Not", y)), "not": eng0.unop("Not", x)}
    n = 0
    for k, b in P.fns.items():
        if b["crate"] != "chess_bitboard" or b.get("impl_self") != BB or not (b.get("impl_trait") or "").startswith("core::ops::"):
            continue
        name = b.get("name")
        tr = b.get("impl_trait_ref", "")
        ctx.used_body(k)
        lv = eng0.tabulate(k)
        if name in want and "chess_bitboard::pos::Pos" not in tr:
            n += 1
            ok = len(lv) == 1 and lv[0].ret == bbv(want[name])
            ctx.ob(f"{tr.rsplit('::',1)[-1]}", ok, f"{k} computes {[T.show(l.ret)[:80] for l in lv]}; expected {T.show(bbv(want[name]))[:80]}", site=b.get("def_span"), sample=T.show(want[name])[:60])
        elif name in ("bitor_assign", "bitand_assign", "bitxor_assign", "sub_assign") and "chess_bitboard::pos::Pos" not in tr:
            n += 1
            slf = ("param", 0, "self")
            xs = word(("obj", slf))
            w = {"bitor_assign": eng0.binop("BitOr", xs, y), "bitand_assign": eng0.binop("BitAnd", xs, y), "bitxor_assign": eng0.binop("BitXor", xs, y), "sub_assign": eng0.binop("BitAnd", xs, eng0.unop("Not", y))}[name]
            got = {eng0.freeze(lf.state, lf.ext.get(slf, ("obj", slf))) for lf in lv}
            ctx.ob(f"{tr.rsplit('::',1)[-1]}", got == {bbv(w)}, f"{k} leaves *self = {[T.show(r)[:80] for r in got]}; expected {T.show(bbv(w))[:80]}", site=b.get("def_span"))
        elif "chess_bitboard::pos::Pos" in tr:
            n += 1
            bit = eng0.binop("Shl", T.I(1, "u64"), ("cast", "u8", ("discr", ("param", 1, "a1"))))
            if name == "sub":
                ok = len(lv) == 1 and lv[0].ret == bbv(eng0.binop("BitAnd", x, eng0.unop("Not", bit)))
            else:
                slf = ("param", 0, "self")
                got = {eng0.freeze(lf.state, lf.ext.get(slf, ("obj", slf))) for lf in lv}
                ok = got == {bbv(eng0.binop("BitAnd", word(("obj", slf)), eng0.unop("Not", bit)))}
            ctx.ob(f"{tr.rsplit('::',1)[-1]} (Pos)", ok, f"{k} does not remove exactly the given square", site=b.get("def_span"))
    ctx.floor("operator impls", n, 11)


@rule("C18.R7", "FromIterator folds with insertion / union; From impls")
def r7(ctx):
    P = ctx.P
    for elem, op in (("chess_bitboard::pos::Pos", f"{BB}::set"), ("chess_bitboard::BitBoard", "bitor_assign")):
        cl = f"<{BB} as core::iter::traits::collect::FromIterator<{elem}>>::from_iter::{{closure#0}}"
        if cl in P.fns:
            ctx.used_body(cl)
        outer = cl.rsplit("::{closure", 1)[0]
        ctx.used_body(outer)
        # the accumulation step (in a for_each/fold closure or in a loop of from_iter itself) inserts the item / unites the set: any of the equivalent operations
        accept = ("::set", "::with", "bitor_assign", "::or", "BitOr for chess_bitboard::BitBoard>::bitor") if elem.endswith("Pos") else ("bitor_assign", "::or", "BitOr for chess_bitboard::BitBoard>::bitor")
        step_fns = [cl] if cl in P.fns else []
        calls = [t["f"].get("fn", "") for k_ in step_fns + [outer] for _, t in P.calls(k_)]
        ctx.ob(f"FromIterator<{elem.rsplit('::',1)[1]}> step", any(c.endswith(a_) for c in calls for a_ in accept), f"from_iter's accumulation step calls {[T.short(c)[:40] for c in calls]}, expected one of {accept}",
               site=P.body(outer).get("def_span"))
        oc = [t["f"].get("fn_args", t["f"].get("fn", "")) for _, t in P.calls(outer)]
        loops_ = cfg_of(P.body(outer)).loops()
        visits = any("for_each" in c or c.endswith("Iterator::fold") or "Iterator>::fold" in c or "::fold::<" in c for c in oc) or bool(loops_)
        ctx.ob(f"FromIterator<{elem.rsplit('::',1)[1]}> starts empty and visits every item", any(c.endswith("BitBoard::empty") for c in oc) and visits,
               f"from_iter calls {[T.short(c)[:40] for c in oc]}", site=P.body(outer).get("def_span"))
    eng = T.Engine(P)
    for src, fn in (("chess_bitboard::pos::Pos", "from_pos"), ("chess_bitboard::pos::File", "from_file"), ("chess_bitboard::pos::Rank", "from_rank"), ("u64", "from_u64")):
        key = f"<{BB} as core::convert::From<{src}>>::from"
        ctx.used_body(key)
        a = T.Engine(P, opaque={f"{BB}::{fn}"}).tabulate(key)
        ctx.ob(f"From<{src.rsplit('::',1)[-1]}>", len(a) == 1 and a[0].ret == ("app", f"{BB}::{fn}", (("param", 0, "a0"),)), f"{key} is {[T.show(l.ret)[:80] for l in a]}", site=P.body(key).get("def_span"))


# ------------------------------------------------------------------ controls
def _edit_bin(fn, old, new):
    def m(P):
        b = P.own("fns", fn)
        for blk in b["blocks"]:
            for s in blk["s"]:
                r = s.get("r", {})
                if r.get("k") == "bin" and r.get("op") == old:
                    r["op"] = new
                    return
    return m


def _shift_no_mask(P):
    b = P.own("fns", f"{BB}::shift_right")
    for blk in b["blocks"]:
        t = blk["t"]
        if t["k"] == "call" and t["f"].get("fn", "").endswith("BitBoard::diff"):
            t["f"]["fn"] = f"{BB}::or"


CONTROLS = [
    ("cleared uses xor", "C18.R2", lambda P: [setattr(P, "_x", 0), _retarget(P, f"{BB}::cleared", "BitBoard::diff", f"{BB}::xor")][0]),
    ("shift_right without the edge mask", "C18.R3", _shift_no_mask),
    ("pop clears with OR instead of XOR", "C18.R4", _edit_bin(f"{BB}::pop", "BitXor", "BitOr")),
]


def _retarget(P, key, suffix, new):
    b = P.own("fns", key)
    for blk in b["blocks"]:
        t = blk["t"]
        if t["k"] == "call" and t["f"].get("fn", "").endswith(suffix):
            t["f"]["fn"] = new
