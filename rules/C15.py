"""C15 - bot plugin: legality gate and threefold detection over any history."""
from analysis.runner import rule
from analysis.effects import canon
from analysis.facts import AnchorError
from analysis import terms as T, k2
from analysis.effects import subterms

THOROUGH_CONFIGS = ['release', 'nobmi2']
LEVEL = "other"
DECIDED = ("R1 make_move decodes the ABI move with From<StableChessMove> (lossless by C16), applies it with the checked Board::move_mut on the plugin's own board, returns "
           "{is_valid: false, three_fold: false} on refusal WITHOUT touching the repetition table, and on success counts the position AFTER the move exactly once and reports that count's verdict; "
           "R2 ThreeFold::add inserts at 0, adds 1 and answers `== 3`; the table is keyed by Board (identity: C04.R4/R5); R3 set_board stores the given board and a fresh table; board() returns the "
           "stored board; evaluate searches the stored board with the stored table and encodes the result with EvaluatedMove::new; R4 the constructor starts from Board::standard() and an empty table.")
DECIDED = DECIDED + ' R2 also: ThreeFold::add (entry/or_insert form or get/insert form) performs no forgetting operation on the table (clear, remove, retain, ...), and nothing else in the workspace borrows the table mutably; R6 premise re-run here: Board::move_mut applies a move only if it is in the full generated legal list (C02.R6). R7 premise re-run here: position identity (Eq and Hash of Board) is exactly placement, side to move, castling rights and en-passant file (C04.R3, R4).'
DECIDED = DECIDED + ' R90 premises re-run here: C04 C04.R2; C02 C02.R9; C03 C03.R4, C03.R6.'
NOT_DECIDED = ("that the reported board equals the reference successor (C02's behaviour) and that the proposed move is legal (C11.R1); whether the position installed by set_board "
               "itself counts as a first occurrence is ambiguous in the property ('since the board was last set') and is not demanded")
EXPLANATION = "K4 effect tables of the four trait methods with the movegen/engine entry points opaque and their calls recorded in order."

BOT = "chess_bot::"
TRAIT = "chess_api::ChessEngineTrait_trait::ChessEngineTrait"
MOVE_MUT = "chess_movegen::Board::move_mut"
ADD, NEW = "chess_engine::ThreeFold::add", "chess_engine::ThreeFold::new"
SEARCH, EM_NEW = "chess_engine::Engine::search", "chess_api::EvaluatedMove::new"
slf = ("obj", ("param", 0, "self"))


def method(P, name):
    return f"<{BOT}ChessBot as {TRAIT}>::{name}"


def engine(P):
    conv = {k for k in P.fns if k.endswith("<impl core::convert::From<chess_api::StableChessMove> for chess_movegen::ChessMove>::from")}
    if len(conv) != 1:
        raise AnchorError("no unique `impl From<StableChessMove> for ChessMove`")
    opq = {MOVE_MUT, ADD, NEW, SEARCH, EM_NEW} | conv
    eng = T.Engine(P, opaque=opq)
    eng.trace_calls = set(opq)
    return eng, next(iter(conv))


def fieldref(name):
    return ("refv", ("field", slf, name))


@rule("C15.R1", "make_move: decode, checked apply, refusal leaves everything untouched, success counts the new position once")
def r1(ctx):
    P = ctx.P
    key = method(P, "make_move")
    ctx.used_body(key)
    site = P.body(key).get("def_span")
    eng, conv = engine(P)
    leaves = eng.tabulate(key)
    mv = ("param", 1, "a1")
    decoded = ("app", conv, (mv,))
    gate = ("app", MOVE_MUT, (fieldref("board"), decoded))
    MR = "chess_api::MoveResult"
    seen = set()
    for lf in leaves:
        g = [v for t, v in lf.cond if t == gate]
        other = [t for t, v in lf.cond if t != gate and t[0] != "assert"]
        if len(g) != 1 or other:
            ctx.ob("make_move gate", False, f"make_move branches on {[T.show(t)[:100] for t in other] or 'something other than'} self.board.move_mut(ChessMove::from(mv))", site=site)
            continue
        calls = [(c[1], c[2]) for c in lf.trace if c[0] == "call"]
        adds = [c for c in calls if c[0] == ADD]
        seen.add(g[0])
        # the result may carry the gate's value itself (`is_valid`): read it under this path's condition
        if lf.ret[0] == "adt" and lf.ret[1] == MR:
            lf.ret = lf.ret[:3] + (tuple((T.TRUE if g[0] else T.FALSE) if x == gate else x for x in lf.ret[3]),)
        if g[0] == 0:
            ok = lf.ret == ("adt", MR, "MoveResult", (T.FALSE, T.FALSE)) and not adds
            final = eng.freeze(lf.state, lf.ext.get(("param", 0, "self"), slf))
            tf = T.get_path(final, (("f", 0, "three_fold", None),))
            ok = ok and tf == ("field", slf, "three_fold")
            ctx.ob("make_move refusal", ok, f"an illegal move yields {T.show(lf.ret)[:80]} with {len(adds)} repetition-table update(s); expected {{false, false}} and the table untouched", site=site,
                   sample={"result": T.show(lf.ret)[:60], "table_updates": len(adds)})
        else:
            after = ("mutated", MOVE_MUT, (fieldref("board"), decoded), 0)
            ok_add = len(adds) == 1 and adds[0][1][0] == fieldref("three_fold") and adds[0][1][1] == after
            ok_ret = lf.ret[0] == "adt" and lf.ret[3][0] == T.TRUE and lf.ret[3][1][0] == "app" and lf.ret[3][1][1] == ADD
            ctx.ob("make_move success", ok_add and ok_ret, f"a legal move yields {T.show(lf.ret)[:100]} with table updates {[T.show(a[1][1])[:60] for a in adds]}; expected "
                   "{true, three_fold.add(board after the move)} with exactly one update", site=site, sample={"table_updates": len(adds)})
    ctx.ob("make_move both outcomes", seen == {0, 1}, f"make_move outcomes analysed: {seen}", site=site)


@rule("C15.R2", "ThreeFold::add: insert 0, add 1, answer == 3")
def r2(ctx):
    P = ctx.P
    ctx.used_body(ADD)
    body = P.body(ADD)
    calls = [t["f"].get("fn_args", t["f"].get("fn", "")) for _, t in P.calls(ADD)]
    entry = any("HashMap" in c and c.endswith("::entry") for c in calls)
    GET = "chess_engine::ThreeFold::get"
    if entry:
        # form 1: *self.boards.entry(board).or_insert(0) += 1; the answer is (new count == 3)
        ins0 = False
        for _, t in P.calls(ADD):
            if t["f"].get("fn", "").endswith("or_insert"):
                ins0 = k2.describe_operand(P, body, t["a"][1]) == ("int", 0, "u8")
        eng = T.Engine(P)
        lv = eng.tabulate(ADD)
        ok_ret, ok_inc = False, False
        for lf in lv:
            r = lf.ret
            if r[0] == "bin" and r[1] == "Eq" and T.I(3, "u8") in (r[2], r[3]):
                x = r[2] if r[3] == T.I(3, "u8") else r[3]
                ok_ret = True
                ok_inc = x[0] == "bin" and x[1] == "Add" and T.I(1, "u8") in (x[2], x[3])
        ctx.ob("ThreeFold::add", entry and ins0 and ok_ret and ok_inc, f"ThreeFold::add: entry(board)={entry}, or_insert(0)={ins0}, += 1: {ok_inc}, == 3: {ok_ret}", site=body.get("def_span"),
               sample="*entry(board).or_insert(0) += 1; == 3")
    else:
        # form 2: let n = self.get(&board) + 1; self.boards.insert(board, n); n == 3   (get() answers 0 for an unseen position: checked below)
        ins = [c for c in calls if "HashMap" in c and c.endswith("::insert")]
        opq = {GET} | {t["f"]["fn"] for _, t in P.calls(ADD) if t["f"].get("fn", "").endswith("::insert")}
        eng = T.Engine(P, opaque=opq)
        eng.trace_calls = set(opq) - {GET}
        lv = eng.tabulate(ADD)
        board_p = ("param", 1, "a1")
        got = ("app", GET, (("refv", ("obj", ("param", 0, "self"))), ("refv", board_p)))
        newc = None
        ok2 = bool(lv) and len(ins) == 1
        for lf in lv:
            cs = [c for c in lf.trace if c[0] == "call"]
            ok2 &= len(cs) == 1 and cs[0][2][1] == board_p
            if len(cs) == 1:
                newc = cs[0][2][2]
                ok2 &= canon(newc) == canon(("bin", "Add", got, T.I(1, "u8")))
                # the answer: (new count == 3), as a returned comparison or as the branch the path took
                r = lf.ret
                if r[0] == "bin" and r[1] == "Eq":
                    ok2 &= canon(r) == canon(("bin", "Eq", newc, T.I(3, "u8")))
                elif T.is_const(r):
                    tests = [(t_, v) for t_, v in lf.cond if t_ == newc or (t_[0] == "bin" and t_[1] == "Eq" and newc in t_[2:])]
                    ok2 &= len(tests) == 1 and ((tests[0][1] == 3) == bool(r[1]) if tests[0][0] == newc and isinstance(tests[0][1], int) else
                                                (isinstance(tests[0][1], tuple) and not bool(r[1])) if tests[0][0] == newc else (bool(tests[0][1]) == bool(r[1])))
                else:
                    ok2 = False
        glv = T.Engine(P).tabulate(GET)
        get_zero = any(T.is_const(l.ret) and l.ret[1] == 0 for l in glv) and len(glv) == 2
        ctx.ob("ThreeFold::add", ok2 and get_zero, f"ThreeFold::add (get/insert form): insert(board, get(board) + 1) and answer == 3: {ok2}; get() is 0 for an unseen position: {get_zero}",
               site=body.get("def_span"), sample="insert(board, get(&board) + 1); n == 3")
    # nothing is ever forgotten: the only map operation in add is entry(); no other function borrows the table mutably
    map_calls = [c for c in calls if "hash::map::HashMap::<" in c or "hash::map::HashMap<" in c]
    forgetting = [c for c in map_calls if c.rsplit("::", 1)[-1].split("<")[0] in ("clear", "remove", "remove_entry", "retain", "drain", "extract_if", "shrink_to", "shrink_to_fit")
                  or not c.rsplit("::", 1)[-1].startswith(("entry", "insert", "get", "contains_key", "len", "is_empty"))]
    ctx.ob("add only inserts/increments", bool(map_calls) and not forgetting,
           f"ThreeFold::add performs {[c.rsplit('::', 1)[-1] for c in map_calls]} on the repetition table; anything but entry() (clear, remove, retain, ...) forgets occurrences that a later repetition must count",
           site=body.get("def_span"), sample=[c.rsplit("::", 1)[-1] for c in map_calls])
    TF = "chess_engine::ThreeFold"
    muts = set()
    for k, b in P.fns.items():
        if b["crate"] not in ("chess_engine", "chess_bot", "chess_api", "chess_cli-bin", "chess_wasm"):
            continue
        for blk in b["blocks"]:
            for s in blk["s"]:
                r = s.get("r", {})
                pl = r.get("p") if r.get("k") in ("ref", "rawptr") and (r.get("bk") == "mut" or str(r.get("m", "")).startswith("Mut")) else (s["p"] if s["k"] == "assign" else None)
                if pl and any(isinstance(e, dict) and e.get("a") == TF and e.get("n") == "boards" for e in pl["pj"]):
                    muts.add(b.get("owner", k))
    ctx.ob("who-may-mutate the repetition table", muts <= {ADD}, f"ThreeFold.boards is written or mutably borrowed in {sorted(muts - {ADD})} besides ThreeFold::add", sample=sorted(muts))
    key_ty = P.adt("chess_engine::ThreeFold")["variants"][0]["fields"][0]["ty"]
    ctx.ob("table keyed by Board", key_ty.startswith("std::collections::hash::map::HashMap<chess_movegen::Board, u8"), f"ThreeFold.boards: {key_ty}", sample=key_ty[:80])
    ctx.used_body(NEW)
    nb = [t["f"].get("fn_args", "") for _, t in P.calls(NEW)]
    ctx.ob("ThreeFold::new is empty", any("with_hasher" in c for c in nb) and len(nb) == 1, f"ThreeFold::new calls {nb}", site=P.body(NEW).get("def_span"))


@rule("C15.R3", "set_board / board / evaluate")
def r3(ctx):
    P = ctx.P
    eng, _ = engine(P)
    key = method(P, "set_board")
    ctx.used_body(key)
    lv = eng.tabulate(key)
    ok = False
    if len(lv) == 1:
        final = eng.freeze(lv[0].state, lv[0].ext.get(("param", 0, "self"), slf))
        b = T.get_path(final, (("f", 2, "board", None),))
        tf = T.get_path(final, (("f", 0, "three_fold", None),))
        names = [f["name"] for f in P.adt(BOT + "ChessBot")["variants"][0]["fields"]]
        b = T.get_path(final, (("f", names.index("board"), "board", None),))
        tf = T.get_path(final, (("f", names.index("three_fold"), "three_fold", None),))
        ok = b == ("param", 1, "a1") and tf == ("app", NEW, ())
    ctx.ob("set_board", ok, "set_board does not store the given board together with a fresh ThreeFold::new()", site=P.body(key).get("def_span"), sample="board := arg; three_fold := ThreeFold::new()")
    key = method(P, "board")
    ctx.used_body(key)
    lv = eng.tabulate(key)
    ctx.ob("board()", len(lv) == 1 and lv[0].ret == ("field", slf, "board"), f"board() returns {[T.show(l.ret) for l in lv]}", site=P.body(key).get("def_span"), sample="self.board")
    key = method(P, "evaluate")
    ctx.used_body(key)
    lv = eng.tabulate(key)
    ok = False
    if len(lv) == 1 and lv[0].ret[0] == "app" and lv[0].ret[1] == EM_NEW:
        a, b = lv[0].ret[2]
        s_ = [x for x in subterms(a) if x[0] == "app" and x[1].startswith(SEARCH)]
        if s_:
            args = s_[0][2]
            ok = args[1] == fieldref("board") and args[2] == fieldref("three_fold") and a == ("field", s_[0], 0) and b == ("field", s_[0], 1)
    ctx.ob("evaluate", ok, "evaluate does not return EvaluatedMove::new(mv, score) of engine.search(&self.board, &self.three_fold, ..)", site=P.body(key).get("def_span"),
           sample="EvaluatedMove::new(search(&board, &three_fold, &timeout))")


@rule("C15.R4", "a new plugin instance starts from the standard position with an empty table")
def r4(ctx):
    P = ctx.P
    cons = k2.constructors_of(P, BOT + "ChessBot")
    ctx.ob("one constructor", len(cons) == 1, f"ChessBot is constructed in {sorted(cons)}", sample=sorted(cons))
    for k in cons:
        body = P.body(k)
        for blk in body["blocks"]:
            for s in blk["s"]:
                r = s.get("r", {})
                if r.get("k") == "agg" and r.get("adt") == BOT + "ChessBot":
                    ops = dict(zip(r["fields"], [k2.describe_operand(P, body, o) for o in r["ops"]]))
                    ok = ops.get("board", ("",))[:2] == ("call", "chess_movegen::Board::standard") and ops.get("three_fold", ("",))[:2] == ("call", NEW)
                    ctx.ob("initial state", ok, f"a new ChessBot starts with board={str(ops.get('board'))[:60]}, three_fold={str(ops.get('three_fold'))[:60]}", site=body.get("def_span"),
                           sample={"board": "Board::standard()", "three_fold": "ThreeFold::new()"})


def _count_on_refusal(P):
    key = f"<{BOT}ChessBot as {TRAIT}>::make_move"
    b = P.own("fns", key)
    # the refusal path jumps into the success path: retarget the gate's false edge
    for blk in b["blocks"]:
        t = blk["t"]
        if t["k"] == "switch" and len(t["tg"]) == 1:
            t["tg"][0][1] = t["o"]


def _three(P):
    b = P.own("fns", ADD)
    for blk in b["blocks"]:
        for s in blk["s"]:
            r = s.get("r", {})
            if r.get("k") == "bin" and r.get("op") == "Eq" and r["b"].get("c", {}).get("int") == "3":
                r["b"]["c"]["int"] = r["b"]["c"]["bits"] = "2"


def _set_board_keeps_table(P):
    key = f"<{BOT}ChessBot as {TRAIT}>::set_board"
    b = P.own("fns", key)
    for blk in b["blocks"]:
        t = blk["t"]
        if t["k"] == "call" and t["f"].get("fn") == NEW:
            t["f"]["fn"] = t["f"]["fn_args"] = "chess_engine::ThreeFold::keep"

@rule("C15.R7", "premise: position identity used by the repetition table = (placement, side to move, castling rights, en-passant file), consistently in Eq and Hash (C04.R3, C04.R4 re-run)")
def r_premise2(ctx):
    from analysis.runner import premise
    premise(ctx, "C04", {"C04.R3", "C04.R4"}, "the repetition table is keyed by Board; what makes two boards equal (and hash alike) is no longer exactly the position")


@rule("C15.R6", "premise: Board::move_mut applies a move only if it is in the generated legal list (C02.R6 re-run)")
def r_premise(ctx):
    from analysis.runner import premise
    premise(ctx, "C02", {'C02.R6'}, "the plugin's legality gate is Board::move_mut; its legality test is no longer membership in the full legal move list")




@rule("C15.R90", 'premises shared with other properties: C04 (C04.R2); C02 (C02.R9); C03 (C03.R4, C03.R6)')
def r_premises_shared(ctx):
    from rules.C07 import inv_cap
    probs = inv_cap(ctx)
    ctx.ob("premise INV-CAP (move list capacity)", not probs, f"the plugin generates moves for any accepted position; the move list can overflow: {probs[:2]}")
    """This property's argument rests on these rules of other properties (what it calls is assumed to behave); they are re-run here so that a
    breakage of one of them is reported by this property's own check as well."""
    from analysis.runner import premise
    premise(ctx, 'C04', ['C04.R2'] and set(['C04.R2']), 'threefold detection keys positions by their hash; a mutation is no longer paired with its key')
    premise(ctx, 'C02', ['C02.R9'] and set(['C02.R9']), "the plugin's legality gate compares the submitted move with the generated ones; that equality is no longer field-by-field")
    premise(ctx, 'C03', ['C03.R4', 'C03.R6'] and set(['C03.R4', 'C03.R6']), 'boards handed to set_board get their check information from scratch; that computation is no longer exact')


CONTROLS = [
    ("refused move also counts the position", "C15.R1", _count_on_refusal),
    ("threefold fires at the second occurrence", "C15.R2", _three),
    ("set_board keeps the old table", "C15.R3", _set_board_keeps_table),
]


@rule("C15.R5", "the move the plugin applies is the move submitted: ABI decode is the inverse of the encode (shared with C16.R1)")
def r5(ctx):
    from rules import C16
    P = ctx.P
    f = C16.conv(P, C16.MOVE, C16.API + "StableChessMove")
    g = C16.conv(P, C16.API + "StableChessMove", C16.MOVE)
    C16.roundtrip(ctx, "submitted move", [f, g], 5)
    # the host side encodes with the same From impl
    key = "chess_api::ChessEngine::make_move"
    ctx.used_body(key)
    calls = [t["f"].get("fn") for _, t in P.calls(key)]
    ctx.ob("host encodes with From<ChessMove>", f in calls, f"ChessEngine::make_move does not encode the move with {T.short(f)}: calls {[T.short(c or '') for c in calls]}", site=P.body(key).get("def_span"))
