"""C05 - FEN text and board are inverse representations (writer/reader agreement, field by field)."""
from analysis.runner import rule
from analysis.facts import AnchorError
from analysis import terms as T, k2
from analysis import chessref as R
from analysis.cfg import cfg_of
from analysis.effects import subterms, strip_casts, index_chain

THOROUGH_CONFIGS = ['release', 'nobmi2', 'movegen-alone']
LEVEL = "other"
DECIDED = ("Writer (Display for Board, Debug for CastleRights) and reader (parse_fen and its helpers) are extracted as tables/emit sequences and compared field by field: "
           "R1 piece letters: PIECES[colour][piece] and parse_piece are inverse bijections on 12 letters, and the writer indexes the table with the (colour, piece) it found on the square; "
           "R2 empty-square runs: a run counter is written (decimal) before the next piece and at the end of each rank and reset to 0 whenever written, '/' separates ranks except after "
           "the last, squares are visited rank 8 to 1 and file a to h by writer and reader alike, and the reader maps '1'..'8' to that many files; "
           "R3 side to move: ' w '/' b ' vs 'w'->White, 'b'->Black; R4 castling: the writer's letters in its emission order (colour-major, side-minor) are the reader's four optional letters "
           "in the same order with the same (side, colour) meaning, for all 16 subsets the reader rebuilds the subset, '-' is written/required exactly for the empty set; "
           "R5 en passant: for each file and side to move the written square parses back to the same file (file letter 'a'+f, rank digit 6/3) and ' - ' stands for no marker; "
           "R6 clocks: written half-move then full-move, read in the same order into the same fields, at most 4 digits fit u16; R7 Board::standard() is the standard position.")
DECIDED = DECIDED + ' R8 premise re-run here: the derived state (checkers / pinned) of a parsed board is recomputed exactly, on every way out of update_pin_info (C03.R4, R6).'
DECIDED = DECIDED + ' R90 premises re-run here: C04 C04.R2, C04.R3; C02 C02.R2.'
DECIDED = DECIDED + ' R9 the reader takes at least as many clock digits as the writer can emit for the clock type (known finding D9 on the pinned tree: 4 < 5).'
NOT_DECIDED = "round trip on arbitrary boards as strings (needs the loops' semantics on actual positions); equality of hash/derived state after a round trip (C04/C03 clauses)"
EXPLANATION = ("K4 with the generic-iteration abstraction for the writer's loops and region analysis (between the parser's whitespace calls) for the reader; "
               "formatted output is modelled as ordered emit events through core::fmt.")

MG = "chess_movegen::"
DISPLAY = f"<{MG}Board as core::fmt::Display>::fmt"
PARSE = MG + "fen::parse_fen"
COLOR, PIECE = "chess_bitboard::color::Color", "chess_bitboard::piece::Piece"
CR_FMT = f"<{MG}castle_rights::CastleRights as core::fmt::Debug>::fmt"
GET = MG + "raw::RawBoard::get"
slf = ("obj", ("param", 0, "self"))


def cadt(adt, n):
    return ("adt", adt, n, ())


def writer_paths(ctx):
    P = ctx.P
    ctx.used_body(DISPLAY)
    opq = {GET, CR_FMT, MG + "Board::ep",
           "<chess_bitboard::pos::RankIter as core::iter::traits::iterator::Iterator>::next",
           "<core::iter::adapters::rev::Rev<chess_bitboard::pos::AllRankIter> as core::iter::traits::iterator::Iterator>::next"}
    eng = T.Engine(P, opaque=opq)
    return eng, eng.paths(DISPLAY)


def emits(lf):
    return [t for t in lf.trace if t[0] == "emit"]


def chars_static(P, key, dims):
    raw = P.value_bytes(key)
    vals = [int.from_bytes(raw[i:i + 4], "little") for i in range(0, len(raw), 4)]
    n = 1
    for d in dims:
        n *= d
    if len(vals) != n:
        raise AnchorError(f"{key}: {len(vals)} chars, expected {n}")
    return vals


@rule("C05.R1", "piece letters: writer table and reader table are inverse bijections")
def r1(ctx):
    P = ctx.P
    g = R.Geo(P)
    key = DISPLAY + "::PIECES"
    ctx.used_static(key)
    pieces = chars_static(P, key, (2, 6))
    pk = MG + "fen::parse_piece"
    ctx.used_body(pk)
    eng = T.Engine(P)
    leaves = eng.tabulate(pk, keep_panics=True)
    s = ("param", 0, "a0")
    table = {}
    for b in range(256):
        arr = ("array", (T.I(b, "u8"), T.I(ord("x"), "u8")))
        r = T.eval_table(eng, leaves, {s: ("refv", arr), ("obj", s): arr})
        table[b] = r[1][0] if r[0] == "tuple" else r
    inv_c = {d: ("White" if m == 0 else "Black") for m, d in g.color.items()}
    inv_p = {d: m for m, d in g.piece.items()}
    bad, letters = [], {}
    for cd in (0, 1):
        for pd in range(6):
            ch = pieces[cd * 6 + pd]
            want = ("adt", "core::option::Option", "Some", (("adt", "core::result::Result", "Ok", (("tuple", (cadt(COLOR, inv_c[cd]), cadt(PIECE, inv_p[pd]))),)),))
            letters[ch] = (inv_c[cd], inv_p[pd])
            if table.get(ch) != want:
                bad.append((chr(ch), f"the writer prints {inv_c[cd]} {inv_p[pd]} as {chr(ch)!r}, which the reader parses as {T.show(table.get(ch))[:80]}"))
    for b, r in table.items():
        is_piece = r[0] == "adt" and r[2] == "Some" and r[3][0][2] == "Ok"
        if is_piece and b not in letters:
            bad.append((chr(b), f"the reader accepts {chr(b)!r} as a piece but the writer never prints it"))
    ctx.bulk("piece letters", 256 + 12, bad, "FEN piece letters disagree between writer and reader", sample={"letters": "".join(chr(c) for c in pieces)})
    digits = {b: r for b, r in table.items() if r[0] == "adt" and r[2] == "Some" and r[3][0][2] == "Err"}
    ok = set(digits) == set(range(ord("1"), ord("9"))) and all(digits[b][3][0][3][0] == T.I(b - 48, "u8") for b in digits)
    ctx.ob("run digits", ok, f"the reader maps run digits {sorted(chr(b) for b in digits)} to {[T.show(digits[b][3][0][3][0]) for b in sorted(digits)][:9]}; expected '1'..'8' -> 1..8",
           sample={"digits": "".join(chr(b) for b in sorted(digits))})
    # writer indexes PIECES[colour][piece] with what RawBoard::get returned for the square
    eng2, (rets, loops, panics) = writer_paths(ctx)
    ok = False
    for lf in loops:
        for e in emits(lf):
            if e[1] == "char":
                ic = index_chain(e[2])
                if ic and ic[0] == key and len(ic[1]) == 2:
                    c, p = [strip_casts(x) for x in ic[1]]
                    c, p = (c[1] if c[0] == "discr" else c), (p[1] if p[0] == "discr" else p)
                    same_sq = c[0] == "field" and p[0] == "field" and c[1] == p[1] and c[1][0] == "vfield" and c[1][1][0] == "app" and c[1][1][1] == GET and c[2] == 0 and p[2] == 1
                    ok = ok or same_sq
    ctx.ob("writer indexes by the square's own piece", ok, "Display for Board does not print PIECES[colour][piece] of the (colour, piece) found on the square", site=P.body(DISPLAY).get("def_span"))


@rule("C05.R2", "empty-square runs and rank separators; same visiting order in writer and reader")
def r2(ctx):
    P = ctx.P
    site = P.body(DISPLAY).get("def_span")
    eng, (rets, loops, panics) = writer_paths(ctx)
    body = P.body(DISPLAY)
    c = cfg_of(body)
    hs = sorted(c.loops(), key=lambda h: len(c.loops()[h]))
    if len(hs) != 2:
        raise AnchorError(f"Display for Board: expected 2 nested loops, found {len(hs)}")
    inner, outer = hs
    # the empty-square run counter, by role: the named u32 local that is both reset to 0 and incremented by 1 (whatever it is called)
    missing_local = []
    for i, l in enumerate(body["locals"]):
        if not l.get("n") or l["ty"] != "u32":
            continue
        zero = inc = False
        for kind, b_, d_ in k2.local_defs(body, i):
            if kind != "stmt":
                continue
            dd = k2.describe_def(P, body, kind, d_)
            if dd == ("int", 0, "u32"):
                zero = True
            x_ = dd[1] if dd[0] == "proj" else dd
            if x_[0] == "bin" and x_[1].startswith("Add") and ("int", 1, "u32") in x_[2:]:
                inc = True
        if zero and inc:
            missing_local.append(i)
    if len(missing_local) != 1:
        raise AnchorError(f"Display for Board: no unique run counter (a u32 local reset to 0 and incremented by 1): {missing_local}")
    ml = missing_local[0]
    n_in = n_out = 0
    for lf in loops:
        h = lf.ret[1]
        fr = lf.state.frames[0]
        mval = fr.locals.get(ml)
        ev = emits(lf)
        carried = [t for t in subterms(("x",) + tuple(x for e in ev for x in e[2:] if isinstance(x, tuple))) if t[0] == "loopvar"]
        nonzero = [v for t, v in lf.cond if t[0] == "bin" and t[1] in ("Ne", "Eq") and any(x[0] == "loopvar" for x in (t[2], t[3])) and T.I(0, "u32") in (t[2], t[3])]
        flushed = [e for e in ev if e[1] == "disp" and e[3] == "u32" and e[2][0] == "loopvar"]
        got_piece = any(t[0] == "discr" and t[1][0] == "app" and t[1][1] == GET and v == "Some" for t, v in lf.cond)
        got_empty = any(t[0] == "discr" and t[1][0] == "app" and t[1][1] == GET and v == "None" for t, v in lf.cond)
        if h == inner:
            n_in += 1
            if got_piece:
                want_flush = bool(nonzero) and any((t[1] == "Ne") == (v == 1) for t, v in lf.cond if t[0] == "bin" and t[1] in ("Ne", "Eq") and T.I(0, "u32") in (t[2], t[3]))
                ok = (len(flushed) == (1 if want_flush else 0)) and ev and ev[-1][1] == "char" and (mval == T.I(0, "u32") if flushed else True) and (ev[0][1] == "disp" if flushed else len(ev) == 1)
                ctx.ob(f"inner[piece,{'run' if want_flush else 'no run'}]", ok, f"occupied square: emits {[e[1] for e in ev]}, run counter afterwards {T.show(mval)[:40]}; expected "
                       f"{'[run, piece] and counter 0' if want_flush else '[piece]'}", site=site, sample={"emits": [e[1] for e in ev], "counter": T.show(mval)[:30]})
            elif got_empty:
                ok = not ev and mval[0] == "bin" and mval[1] == "Add" and T.I(1, "u32") in (mval[2], mval[3]) and any(x[0] == "loopvar" for x in (mval[2], mval[3]))
                ctx.ob("inner[empty]", ok, f"empty square: emits {[e[1] for e in ev]}, run counter becomes {T.show(mval)[:60]}; expected no output and counter + 1", site=site,
                       sample={"counter": T.show(mval)[:40]})
        elif h == outer:
            n_out += 1
            lits = [e[2] for e in ev if e[1] == "lit"]
            want_flush = any((t[1] == "Ne") == (v == 1) for t, v in lf.cond if t[0] == "bin" and t[1] in ("Ne", "Eq") and T.I(0, "u32") in (t[2], t[3]) and any(x[0] == "loopvar" for x in (t[2], t[3])))
            last_rank = [v for t, v in lf.cond if (t[0] == "un" and t[2][0] == "eq" or t[0] == "eq") and cadt("chess_bitboard::pos::Rank", "_1") in subterms(t)]
            sep_expected = None
            for t, v in lf.cond:
                if cadt("chess_bitboard::pos::Rank", "_1") in subterms(t):
                    is_ne = t[0] == "un" and t[1] == "Not"
                    sep_expected = (v == 1) if is_ne else (v == 0)
            ok = (len(flushed) == (1 if want_flush else 0)) and (lits == (["/"] if sep_expected else [])) and (mval == T.I(0, "u32") if flushed else True) and sep_expected is not None
            if flushed and lits:
                ok = ok and ev.index(flushed[0]) < [i for i, e in enumerate(ev) if e[1] == "lit"][0]
            ctx.ob(f"rank end[{'run' if want_flush else 'no run'},{'sep' if sep_expected else 'last'}]", ok,
                   f"end of rank: emits {[(e[1], e[2]) if e[1] == 'lit' else e[1] for e in ev]}, counter {T.show(mval)[:30]}; expected {'run, ' if want_flush else ''}{'/' if sep_expected else 'no separator'}",
                   site=site, sample={"emits": [e[1] for e in ev]})
    ctx.floor("inner loop cases", n_in, 3)
    ctx.floor("rank-end cases", n_out, 4)
    # visiting order: both use Rank::all().rev() outside and files ascending inside
    wcalls = [t["f"].get("fn_args", t["f"].get("fn", "")) for _, t in P.calls(DISPLAY)]
    rcalls = [t["f"].get("fn_args", t["f"].get("fn", "")) for _, t in P.calls(PARSE)]
    w_rev = any("AllRankIter" in c and c.endswith("::rev") for c in wcalls)
    r_rev = any("AllRankIter" in c and c.endswith("::rev") for c in rcalls)
    ctx.ob("ranks 8 to 1 in both", w_rev and r_rev, f"rank order: writer reversed={w_rev}, reader reversed={r_rev}", site=site)
    nk = "<chess_bitboard::pos::RankIter as core::iter::traits::iterator::Iterator>::next"
    ctx.used_body(nk)
    lv = T.Engine(P, opaque={"chess_bitboard::pos::Pos::new", "<chess_bitboard::pos::AllFileIter as core::iter::traits::iterator::Iterator>::next"}).tabulate(nk)
    ok = any(lf.ret[0] == "adt" and lf.ret[2] == "Some" and lf.ret[3][0][0] == "app" and lf.ret[3][0][1].endswith("Pos::new") and lf.ret[3][0][2][1] == ("field", slf, "rank") for lf in lv)
    ctx.ob("files a to h within a rank", ok, "RankIter::next does not yield Pos::new(next file, rank)", site=P.body(nk).get("def_span"))


def segments(P, eng):
    """Leaves of parse_fen between consecutive parse_whitespace calls (and from the last one to validate)."""
    body = P.body(PARSE)
    ws = [b for b, _ in k2.call_sites(P, PARSE, MG + "fen::parse_whitespace")]
    val = [b for b, _ in k2.call_sites(P, PARSE, MG + "Board::validate")]
    if len(ws) != 5 or len(val) != 1:
        raise AnchorError(f"parse_fen: expected 5 parse_whitespace calls and 1 validate call, found {len(ws)}/{len(val)}")
    cuts = ws + val
    segs = []
    for a, b in zip(cuts, cuts[1:]):
        start = body["blocks"][a]["t"]["t"]
        segs.append(eng.region(PARSE, start, {b}))
    return segs, body


def named_local(body, lf, name):
    fr = lf.state.frames[0]
    vals = [fr.locals[i] for i, l in enumerate(body["locals"]) if l.get("n") == name and i in fr.locals and fr.locals[i][0] != "init"]
    return vals


@rule("C05.R3", "side to move: ' w ' / ' b ' vs 'w' -> White, 'b' -> Black")
def r3(ctx):
    P = ctx.P
    eng_w, (rets, loops, panics) = writer_paths(ctx)
    wr = {}
    for lf in rets:
        turn = lf.known.get(("field", slf, "turn"))
        lits = [e[2] for e in emits(lf) if e[1] == "lit"]
        if lits:
            wr.setdefault(turn, set()).add(lits[0])
    ctx.used_body(PARSE)
    eng = T.Engine(P, opaque={MG + "fen::parse_whitespace", MG + "fen::parse_castle_rights", MG + "fen::parse_dash", MG + "fen::parse_number"})
    segs, body = segments(P, eng)
    rd = {}
    for lf in segs[0]:
        if lf.ret[0] != "stop":
            continue
        bytes_ = [v for t, v in lf.cond if t[0] == "cindex" and t[2] == 0 and isinstance(v, int)]
        # the colour this path has decided on: the only Color constant held by a local (directly, in the (Color, rest) pair, or in the
        # Ok((Color, rest)) of a helper) when the next field starts; independent of local names and of a helper being extracted
        cands = set()
        for i, l in enumerate(body["locals"]):
            v = lf.state.frames[0].locals.get(i)
            if not v:
                continue
            v = eng.freeze(lf.state, v)
            for s_ in subterms(v):
                if s_[0] == "adt" and s_[1] == COLOR and not s_[3]:
                    cands.add(s_[2])
        tv = list(cands)[0] if len(cands) == 1 else None
        if len(bytes_) == 1 and tv:
            rd[bytes_[0]] = tv
    site = body.get("def_span")
    for colour, ch in (("White", "w"), ("Black", "b")):
        ctx.ob(f"side[{colour}]", wr.get(colour) == {f" {ch} "} and rd.get(ord(ch)) == colour,
               f"side to move {colour}: written as {wr.get(colour)}, the reader maps {ch!r} to {rd.get(ord(ch))}", site=site, sample={"written": sorted(wr.get(colour, []))})
    ctx.ob("side letters", set(rd) == {ord("w"), ord("b")}, f"the reader accepts side letters {[chr(b) for b in rd]}", site=site)


def static_strs(P, key):
    """Decode a `[&str; N]` static through its relocations: list of python strings."""
    v = P.value(key)
    raw = bytes.fromhex(v["hex"])
    rel = {off: tgt for off, tgt in v.get("relocs", [])}
    out = []
    for i in range(0, len(raw), 16):
        tgt = rel.get(i)
        ln = int.from_bytes(raw[i + 8:i + 16], "little")
        if not tgt or "mem" not in tgt:
            if ln == 0:
                out.append("")
                continue
            raise AnchorError(f"{key}[{i // 16}] is not a pointer to constant bytes")
        out.append(bytes.fromhex(tgt["mem"])[:ln].decode("utf8", "replace"))
    return out


@rule("C05.R4", "castling field: for all 16 subsets of rights the written text is read back as the same subset")
def r4(ctx):
    P = ctx.P
    g = R.Geo(P)
    CONTAINS = MG + "castle_rights::CastleRights::contains"
    PCR, DASH = MG + "fen::parse_castle_rights", MG + "fen::parse_dash"
    bit = lambda s, c: 1 << (g.side["K" if s == "King" else "Q"] + 2 * g.color[0 if c == "White" else 1])
    # ---- reader model from parse_fen's castling segment
    ctx.used_body(PARSE)
    eng = T.Engine(P, opaque={MG + "fen::parse_whitespace", PCR, DASH, MG + "fen::parse_number"})
    segs, body = segments(P, eng)
    site = body.get("def_span")
    reader_letters = [int(t["a"][1]["c"]["int"]) for _, t in k2.call_sites(P, PARSE, PCR) if t["a"][1].get("k") == "const"]
    rows = {}
    for lf in segs[1]:
        if lf.ret[0] != "stop":
            continue
        flags = {}
        for t, v in lf.cond:
            if t[0] == "field" and t[2] == 0 and t[1][0] == "app" and t[1][1] == PCR and T.is_const(t[1][2][1]):
                flags[t[1][2][1][1]] = bool(v)
        val = None
        for v in named_local(body, lf, "castle_rights"):
            w = v[3][0] if v[0] == "adt" else v
            if T.is_const(w):
                val = w[1]
        # '-' consumed: through parse_dash, or by a slice pattern `[b'-', rest @ ..]` written in place
        dash_used = any(DASH in str(c[0]) for c in lf.cond) or any(c[0][0] == "cindex" and c[1] == 45 for c in lf.cond)
        rows[tuple(sorted(flags.items()))] = (val, dash_used)
    ctx.floor("castling subsets in the reader", len(rows), 16)
    letter_bit = {}
    for flags, (val, _) in rows.items():
        on = [l for l, p in flags if p]
        if len(on) == 1:
            letter_bit[on[0]] = val
    bad = []
    for flags, (val, dash_used) in rows.items():
        want = 0
        for l, p in flags:
            if p:
                want |= letter_bit.get(l, 0)
        if val != want:
            bad.append((str(flags), f"reader: letters {[chr(l) for l, p in flags if p]} give rights {val}, the union of the single letters is {want}"))
        if dash_used != (not any(p for _, p in flags)):
            bad.append((str(flags) + ":dash", f"reader: '-' is {'required' if dash_used else 'not required'} although letters present = {any(p for _, p in flags)}"))
    ctx.bulk("reader composition", max(len(rows), 1), bad, "castling letters do not compose in the reader", sample={"letter_bits": {chr(k): v for k, v in letter_bit.items()}})
    spec = {ord("K"): bit("King", "White"), ord("Q"): bit("Queen", "White"), ord("k"): bit("King", "Black"), ord("q"): bit("Queen", "Black")}
    ctx.ob("reader letters", letter_bit == spec, f"reader letter meanings {[(chr(k), v) for k, v in letter_bit.items()]}; FEN prescribes K,Q,k,q = white king/queen side, black king/queen side "
           f"{[(chr(k), v) for k, v in spec.items()]}", site=site, sample={chr(k): v for k, v in letter_bit.items()})
    ctx.used_body(PCR)
    lv = T.Engine(P).tabulate(PCR)
    ok = all((lf.ret[1][0] == T.TRUE) == any(t[0] == "bin" and t[1] == "Eq" and v == 1 and ("param", 1, "a1") in (t[2], t[3]) for t, v in lf.cond) for lf in lv)
    ctx.ob("parse_castle_rights", ok, "parse_castle_rights does not return true exactly when the first byte equals the expected letter", site=P.body(PCR).get("def_span"))

    def read(text):
        """The extracted reader applied to a castling field: optional letters in call order, '-' iff none."""
        i, mask, any_ = 0, 0, False
        for l in reader_letters:
            if i < len(text) and ord(text[i]) == l:
                mask |= letter_bit.get(l, 0)
                any_ = True
                i += 1
        if not any_:
            if i < len(text) and text[i] == "-":
                i += 1
            else:
                return None
        return mask if i == len(text) else None

    # ---- writer: text for each rights value
    ctx.used_body(CR_FMT)
    inner = CR_FMT + "::{closure#0}::{closure#0}"
    texts = None
    wsite = P.body(CR_FMT).get("def_span")
    if inner in P.fns:
        # closure form: Color::all().flat_map(|c| Side::all().filter_map(|s| contains(s, c).then(TABLE[c][s])))
        ctx.used_body(inner)
        lv = T.Engine(P, opaque={CONTAINS}).tabulate(inner)
        tab_key = CR_FMT + "::CASTLE_RIGHTS"
        letters = chars_static(P, tab_key, (2, 2))
        ok_inner = False
        for lf in lv:
            if lf.ret[0] == "adt" and lf.ret[2] == "Some":
                ic = index_chain(lf.ret[3][0])
                cond_app = [t for t, v in lf.cond if t[0] == "app" and t[1] == CONTAINS and v == 1]
                if ic and ic[0] == tab_key and len(ic[1]) == 2 and cond_app:
                    c, s = [strip_casts(x) for x in ic[1]]
                    a = cond_app[0][2]
                    ok_inner = c == ("discr", a[2]) and s == ("discr", a[1]) and a[1] == ("param", 1, "a1")
        calls_outer = [t["f"].get("fn_args", t["f"].get("fn", "")) for _, t in P.calls(CR_FMT)]
        calls_c0 = [t["f"].get("fn_args", t["f"].get("fn", "")) for _, t in P.calls(CR_FMT + "::{closure#0}")]
        nest_ok = (any(c.endswith("Color::all") for c in calls_outer) and any("flat_map" in c for c in calls_outer)
                   and any(c.endswith("Side::all") for c in calls_c0) and any("filter_map" in c for c in calls_c0))
        rets, loops, _ = T.Engine(P, opaque={CONTAINS}).paths(CR_FMT)
        dash = {}
        for lf in rets:
            for t, v in lf.cond:
                if t[0] == "bin" and t[1] in ("Eq", "Ne") and T.I(0, "u8") in (t[2], t[3]):
                    dash[(v == 1) if t[1] == "Eq" else (v == 0)] = [e[2] for e in emits(lf) if e[1] == "lit"]
        loop_ok = any(any(e[1] == "char" for e in emits(lf)) for lf in loops)
        form_ok = ok_inner and nest_ok and dash.get(True) == ["-"] and dash.get(False) == [] and loop_ok
        ctx.ob("writer form (closures)", form_ok, f"castling writer: letter closure ok={ok_inner}, colour-major/side-minor nesting={nest_ok}, '-' iff empty={dash}, letters written in a loop={loop_ok}",
               site=wsite, sample={"table": "".join(chr(c) for c in letters)})
        # contains(side, colour) tests bit side + 2*colour (offset formula is C02.R1)
        cl = T.Engine(P).tabulate(CONTAINS)
        e0 = T.Engine(P)
        off = e0.binop("Add", ("cast", "u32", ("discr", ("param", 1, "a1"))), e0.binop("Mul", ("cast", "u32", ("discr", ("param", 2, "a2"))), T.I(2, "u32")))
        want = e0.binop("Ne", e0.binop("BitAnd", ("field", ("param", 0, "self"), "0"), e0.binop("Shl", T.I(1, "u8"), off)), T.I(0, "u8"))
        ctx.ob("contains(side, colour)", len(cl) == 1 and cl[0].ret == want, f"CastleRights::contains is {[T.show(l.ret)[:120] for l in cl]}", site=P.body(CONTAINS).get("def_span"))
        if form_ok:
            inv_c = {d: m for m, d in g.color.items()}
            inv_s = {d: m for m, d in g.side.items()}
            texts = {}
            for k in range(16):
                s_ = ""
                for cd in (0, 1):              # ascending discriminants: the order the enum iterators yield (C19.R5)
                    for sd in (0, 1):
                        if k >> (sd + 2 * cd) & 1:
                            s_ += chr(letters[cd * 2 + sd])
                texts[k] = s_ if k else "-"
    elif len(cfg_of(P.body(CR_FMT)).loops()) == 2:
        # loop form: for colour in Color::all() { for side in Side::all() { if contains(side, colour) { write_char(TABLE[colour][side]) } } }
        cg = cfg_of(P.body(CR_FMT))
        lps = cg.loops()
        (h_out, b_out), (h_in, b_in) = sorted(lps.items(), key=lambda kv: -len(kv[1]))
        rets, loops, _ = T.Engine(P, opaque={CONTAINS}).paths(CR_FMT)
        tab_key = CR_FMT + "::CASTLE_RIGHTS"
        letters = chars_static(P, tab_key, (2, 2)) if tab_key in P.values else None
        seen, ok_cells = set(), letters is not None and set(b_in) < set(b_out)
        iter_of = {}
        for lf in loops:
            for t_, v in lf.cond:
                for s_ in subterms(t_):
                    if s_[0] == "loopvar" and s_[1] in (h_out, h_in):
                        iter_of.setdefault(s_[1], set()).add("Color" if "AllColorIter" in str(s_[3]) else ("Side" if "AllSideIter" in str(s_[3]) else "?"))
            ca = [(t_, v) for t_, v in lf.cond if t_[0] == "app" and t_[1] == CONTAINS]
            em = [e for e in emits(lf) if e[1] in ("char", "lit", "str")]
            if lf.ret[1] != h_in or not ca:
                ok_cells &= not em
                continue
            (app, v) = ca[0]
            side, colour = app[2][1], app[2][2]
            if v != 1:
                ok_cells &= not em
                continue
            ic = index_chain(em[0][2]) if len(em) == 1 and em[0][1] == "char" else None
            good = (ic is not None and ic[0] == tab_key and len(ic[1]) == 2 and side[0] == colour[0] == "adt"
                    and [strip_casts(x) for x in ic[1]] == [T.I(g.color[0 if colour[2] == "White" else 1], "usize"), T.I(g.side["K" if side[2] == "King" else "Q"], "usize")])
            ok_cells &= bool(good)
            seen.add((colour[2], side[2]))
        nest_ok = iter_of.get(h_out) == {"Color"} and iter_of.get(h_in) == {"Side"}
        dash = {}
        for lf in rets:
            for t_, v in lf.cond:
                if t_[0] == "bin" and t_[1] in ("Eq", "Ne") and T.I(0, "u8") in (t_[2], t_[3]):
                    dash[(v == 1) if t_[1] == "Eq" else (v == 0)] = [e[2] for e in emits(lf) if e[1] == "lit"]
        form_ok = ok_cells and len(seen) == 4 and nest_ok and dash.get(True) == ["-"] and dash.get(False) == []
        ctx.ob("writer form (loops)", form_ok, f"castling writer (nested loops): cells ok={ok_cells} over {sorted(seen)}, colour-major/side-minor nesting={nest_ok}, '-' iff empty={dash}", site=wsite,
               sample={"table": "".join(chr(c_) for c_ in letters) if letters else None})
        cl = T.Engine(P).tabulate(CONTAINS)
        e0 = T.Engine(P)
        off = e0.binop("Add", ("cast", "u32", ("discr", ("param", 1, "a1"))), e0.binop("Mul", ("cast", "u32", ("discr", ("param", 2, "a2"))), T.I(2, "u32")))
        want = e0.binop("Ne", e0.binop("BitAnd", ("field", ("param", 0, "self"), "0"), e0.binop("Shl", T.I(1, "u8"), off)), T.I(0, "u8"))
        ctx.ob("contains(side, colour)", len(cl) == 1 and cl[0].ret == want, f"CastleRights::contains is {[T.show(l.ret)[:120] for l in cl]}", site=P.body(CONTAINS).get("def_span"))
        if form_ok:
            texts = {}
            for k in range(16):
                s_ = ""
                for cd in (0, 1):
                    for sd in (0, 1):
                        if k >> (sd + 2 * cd) & 1:
                            s_ += chr(letters[cd * 2 + sd])
                texts[k] = s_ if k else "-"
    else:
        # table form: write_str(TABLE[self.0 as usize])
        lv = T.Engine(P).tabulate(CR_FMT)
        ev = [e for lf in lv for e in emits(lf)]
        if len(lv) == 1 and len(ev) == 1 and ev[0][1] == "str":
            term = ev[0][2]
            while term[0] in ("refv", "obj") and term[1][0] in ("index", "obj", "refv"):
                term = term[1]
            ic = index_chain(term)
            if ic and len(ic[1]) == 1 and strip_casts(ic[1][0]) in (("field", ("obj", ("param", 0, "self")), "0"), ("field", slf, "0")) and ic[0] in P.values:
                strs = static_strs(P, ic[0])
                if len(strs) >= 16:
                    texts = {k: strs[k] for k in range(16)}
        ctx.ob("writer form (table)", texts is not None, "castling writer is neither the closure form nor write_str(TABLE[rights]) with a constant table", site=wsite)
    if texts is not None:
        bad = []
        for k, txt in texts.items():
            back = read(txt)
            if back != k:
                bad.append((str(k), f"rights {k:04b} are written {txt!r}, which is read back as {'rejected' if back is None else format(back, '04b')}"))
        ctx.bulk("castling round trip", 16, bad, "castling field does not survive write/read", sample={"15": texts.get(15), "0": texts.get(0), "5": texts.get(5)})


@rule("C05.R5", "en-passant square: written square parses back to the same file for both sides to move; ' - ' for none")
def r5(ctx):
    P = ctx.P
    g = R.Geo(P)
    eng_w, (rets, loops, panics) = writer_paths(ctx)
    EP = MG + "Board::ep"
    written = {}
    for lf in rets:
        if not (lf.ret[0] == "adt" and lf.ret[2] == "Ok"):
            continue
        turn = lf.known.get(("field", slf, "turn"))
        epv = [v for t, v in lf.cond if t[0] == "discr" and t[1][0] == "app" and t[1][1] == EP]
        ev = emits(lf)[1:]      # after the side-to-move string
        if epv == ["None"]:
            written[(turn, None)] = [e[2] for e in ev if e[1] == "lit"][:1]
        elif epv == ["Some"]:
            chars = [e for e in ev if e[1] == "char"]
            digits = [e for e in ev if e[1] == "disp" and e[3] == "u8"]
            written[(turn, "Some")] = (chars[0][2] if chars else None, digits[0][2] if digits else None, [e[2] for e in ev if e[1] == "lit"][:2])
    # reader segment
    ctx.used_body(PARSE)
    eng = T.Engine(P, opaque={MG + "fen::parse_whitespace", MG + "fen::parse_castle_rights", MG + "fen::parse_dash", MG + "fen::parse_number", "chess_bitboard::pos::File::from_u8"})
    segs, body = segments(P, eng)
    site = body.get("def_span")
    seg = [lf for lf in segs[2] if lf.ret[0] == "stop"]
    turn_locals = [i for i, l in enumerate(body["locals"]) if l.get("n") == "turn"]
    file_adt = "chess_bitboard::pos::File"
    bad, n = [], 0
    e3 = T.Engine(P)
    from_u8 = e3.tabulate("chess_bitboard::pos::File::from_u8", keep_panics=True)

    def file_from_u8(name, args):
        if name.endswith("File::from_u8") and T.is_const(args[0]):
            return T.eval_table(e3, from_u8, {("param", 0, "a0"): args[0]})
        return None

    def payload_env(term, fvar):
        return {s_: fvar for s_ in subterms(term) if s_[0] == "vfield" and s_[2] == "Some" and s_[1][0] == "app" and s_[1][1] == EP}

    def ep_value(lf):
        """The Option<File> component of the (marker, rest) pair the segment computes."""
        for v in lf.state.frames[0].locals.values():
            if v[0] == "tuple" and len(v[1]) == 2 and v[1][0][0] == "adt" and v[1][0][1] == "core::option::Option":
                return v[1][0]
        vals = named_local(body, lf, "enpassant_target")
        return vals[0] if vals else None
    for turn, cdiscr in (("White", g.color[0]), ("Black", g.color[1])):
        w = written.get((turn, "Some"))
        if not w or w[0] is None or w[1] is None or w[2] != [" ", " "]:
            bad.append((turn, f"writer output for an en-passant marker with {turn} to move is not ' <file><rank> ': {w}"))
            continue
        for f in range(8):
            fvar = cadt(file_adt, R.FILES[f])
            ch = T.concretize(eng_w, w[0], payload_env(w[0], fvar))
            dg = T.concretize(eng_w, w[1], payload_env(w[1], fvar))
            n += 1
            if not (T.is_const(ch) and T.is_const(dg)):
                bad.append((f"{turn},{R.FILES[f]}", f"written en-passant square is not concrete: {T.show(ch)} {T.show(dg)}"))
                continue
            text = bytes([ch[1]]) + str(dg[1]).encode()
            # evaluate the reader's segment (extracted summary) on this text followed by a space
            arr = ("array", tuple(T.I(x, "u8") for x in text + b" "))
            env = {"__apps__": file_from_u8}
            for lf0 in seg[:1]:
                for t_, _ in lf0.cond:
                    for s_ in subterms(t_):
                        if s_[0] == "init" and s_[2] is None:
                            env[s_] = ("adt", "core::result::Result", "Ok", (("refv", arr),))
            for i_, l_ in enumerate(body["locals"]):
                if l_.get("n") == "turn":
                    env[("init", i_, "turn")] = cadt(COLOR, turn)
            lf, why = T.select_leaf(eng, segs[2], env)
            got = None
            if lf is not None and why is None and lf.ret[0] == "stop":
                tv = ep_value(lf)
                got = T.concretize(eng, tv, env) if tv is not None else None
            elif lf is None:
                got = ("undetermined", str(why)[:80])
            want = ("adt", "core::option::Option", "Some", (fvar,))
            if got != want:
                bad.append((f"{turn},{R.FILES[f]}", f"{turn} to move, marker on file {R.FILES[f].lower()}: written {text.decode()!r}, read back as {T.show(got) if got else 'rejected'}"))
    ctx.bulk("en-passant square round trip", max(n, 1), bad, "en-passant square does not survive write/read", sample={"White,d": "d6", "Black,d": "d3"})
    for turn in ("White", "Black"):
        ctx.ob(f"no marker[{turn}]", written.get((turn, None)) == [" - "], f"no en-passant marker ({turn} to move) is written as {written.get((turn, None))}, expected ' - '", site=site)
    dash_ok = any(any(t[0] == "cindex" and t[2] == 0 and v == 45 for t, v in lf.cond) and ep_value(lf) == T.OPT_NONE for lf in seg)
    ctx.ob("reader '-' -> None", dash_ok, "the reader does not map '-' to no en-passant marker", site=site)


@rule("C05.R6", "clocks: written half-move then full-move; read in the same order into the same fields; 4 digits fit u16")
def r6(ctx):
    P = ctx.P
    eng_w, (rets, loops, panics) = writer_paths(ctx)
    order = set()
    for lf in rets:
        if lf.ret[0] == "adt" and lf.ret[2] == "Ok":
            ev = [e for e in emits(lf) if e[1] == "disp" and e[3] == "u16"]
            tail = emits(lf)[-3:]
            order.add(tuple((e[2][2] if e[2][0] == "field" else "?") for e in ev) + ((tail[1][2],) if len(tail) == 3 and tail[1][1] == "lit" else ("?",)))
    ctx.ob("writer clock order", order == {("half_move_clock", "full_move_clock", " ")}, f"the writer ends with {order}; expected '<half> <full>'", site=P.body(DISPLAY).get("def_span"),
           sample=sorted(order))
    # reader: first parse_number -> half_move_clock, second -> full_move_clock in the Board literal
    body = P.body(PARSE)
    PN = MG + "fen::parse_number"
    nums = [(b, t["d"]["l"]) for b, t in k2.call_sites(P, PARSE, PN)]
    ok = False
    if len(nums) == 2:
        eng = T.Engine(P, opaque={MG + "fen::parse_whitespace", MG + "fen::parse_castle_rights", MG + "fen::parse_dash", PN})
        segs, _ = segments(P, eng)
        for lf in segs[3] + segs[4]:
            pass
        # follow the aggregate operands back to the two call results
        from rules.C04 import resolve_copy
        for blk in body["blocks"]:
            for s in blk["s"]:
                r = s.get("r", {})
                if r.get("k") == "agg" and r.get("adt") == MG + "Board":
                    ops = dict(zip(r["fields"], r["ops"]))
                    h = body["locals"][resolve_copy(body, ops["half_move_clock"]["p"]["l"])].get("n")
                    f = body["locals"][resolve_copy(body, ops["full_move_clock"]["p"]["l"])].get("n")
                    ok = (h, f) == ("half_move_clock", "full_move_clock")
        # and the named locals are bound in call order
        c = cfg_of(body)
        first_dom_second = c.dominates(nums[0][0], nums[1][0])
        def bound_name(call_block):
            # the `?`/ok_or result of this call flows into which named local
            reach = c.reachable_from(body["blocks"][call_block]["t"]["t"], avoid={nums[1][0]} if call_block == nums[0][0] else ())
            names = []
            for b in sorted(reach):
                for s in body["blocks"][b]["s"]:
                    if s["k"] == "assign" and not s["p"]["pj"] and body["locals"][s["p"]["l"]].get("n") in ("half_move_clock", "full_move_clock"):
                        names.append(body["locals"][s["p"]["l"]]["n"])
            return names
        n1 = bound_name(nums[0][0])
        ok = ok and first_dom_second and n1[:1] == ["half_move_clock"]
    ctx.ob("reader clock order", ok, "parse_fen does not read the half-move clock first and the full-move number second into the like-named fields", site=body.get("def_span"))
    # digits bound: the loop bound constant N with 10^N - 1 <= 65535
    pn = P.body(PN)
    ctx.used_body(PN)
    bounds = set()
    for blk in pn["blocks"]:
        for s in blk["s"]:
            r = s.get("r", {})
            if r.get("k") == "agg" and r.get("adt") == "core::ops::range::Range":
                for o in r["ops"]:
                    if o.get("k") == "const" and "int" in o.get("c", {}):
                        bounds.add(int(o["c"]["int"]))
    hi = max(bounds) if bounds else None
    ctx.ob("digits fit u16", hi is not None and 10 ** hi - 1 <= 65535, f"parse_number reads up to {hi} digits: {10 ** hi - 1 if hi else '?'} does not fit the u16 clock", site=pn.get("def_span"),
           sample={"max_digits": hi})


@rule("C05.R9", "every clock value a board can hold is readable: the reader takes at least as many digits as the writer can emit")
def r9(ctx):
    """The writer prints the two u16 clocks in full (up to 65535, five digits); the builder accepts any u16 and make-move saturates at 65535. A
    reader that stops after N digits cannot read back a clock of more than N digits: the text of a valid board is rejected (trailing bytes)."""
    P = ctx.P
    PN = MG + "fen::parse_number"
    pn = P.body(PN)
    bounds = set()
    for blk in pn["blocks"]:
        for s in blk["s"]:
            r = s.get("r", {})
            if r.get("k") == "agg" and r.get("adt") == "core::ops::range::Range":
                for o in r["ops"]:
                    if o.get("k") == "const" and "int" in o.get("c", {}):
                        bounds.add(int(o["c"]["int"]))
    hi = max(bounds) if bounds else None
    fields = {f["name"]: f["ty"] for f in P.adt(MG + "Board")["variants"][0]["fields"]}
    need = max(len(str({"u8": 255, "u16": 65535, "u32": 2 ** 32 - 1}.get(fields.get(n_), 65535))) for n_ in ("half_move_clock", "full_move_clock"))
    if hi is None:
        raise AnchorError("parse_number: no digit-count bound found")
    ctx.ob(f"clock digits {hi}<{need}" if hi < need else "clock digits", hi >= need,
           f"the clocks are {fields.get('full_move_clock')} values written in full (up to {need} digits) but parse_number reads at most {hi}: a board whose clock has more digits prints a text that does not parse back",
           site=pn.get("def_span"), sample={"reader_digits": hi, "writer_digits": need})


@rule("C05.R7", "Board::standard() is the standard position")
def r7(ctx):
    P = ctx.P
    g = R.Geo(P)
    key = MG + "Board::standard"
    ctx.used_body(key)
    lv = T.Engine(P).tabulate(key)
    if len(lv) != 1:
        raise AnchorError("Board::standard is not closed")
    names = [f["name"] for f in P.adt(MG + "Board")["variants"][0]["fields"]]
    v = dict(zip(names, lv[0].ret[3]))

    def word(t):
        while t[0] in ("adt", "app"):
            t = t[3][0] if t[0] == "adt" else t[2][0]
        return t[1] if T.is_const(t) else None
    rawn = [f["name"] for f in P.adt(MG + "raw::RawBoard")["variants"][0]["fields"]]
    raw = dict(zip(rawn, v["raw"][3]))
    colors = [word(x) for x in raw["colors"][1]]
    pieces = [word(x) for x in raw["pieces"][1]]
    start = R.start_position()["b"]
    want_c = [g.bb([c for c, p in start.items() if p[0] == col]) for col in (0, 1)]
    got_c = [colors[g.color[0]], colors[g.color[1]]]
    ctx.ob("standard colours", got_c == want_c, f"RawBoard::standard() colour sets {[hex(x) for x in got_c]} != {[hex(x) for x in want_c]}", sample=[hex(x) for x in got_c])
    letter = {"Pawn": "P", "Knight": "N", "Bishop": "B", "Rook": "R", "Queen": "Q", "King": "K"}
    for nm, d in g.piece.items():
        want = g.bb([c for c, p in start.items() if p[1] == letter[nm]])
        ctx.ob(f"standard {nm}s", pieces[d] == want, f"RawBoard::standard() {nm} set {hex(pieces[d])} != {hex(want)}", sample=hex(pieces[d]))
    bitk = lambda s, c: 1 << (g.side[s] + 2 * g.color[c])
    full = bitk("K", 0) | bitk("Q", 0) | bitk("K", 1) | bitk("Q", 1)
    ctx.ob("standard rights", word(v["castle_rights"]) == full, f"standard() castling rights {word(v['castle_rights'])} != {full}")
    ctx.ob("standard side/marker/clocks", v["turn"] == cadt(COLOR, "White") and v["enpassant_target"] == cadt(MG + "OptionalFile", "None") and word(v["half_move_clock"]) == 0,
           f"standard(): turn {T.show(v['turn'])}, marker {T.show(v['enpassant_target'])}, half-move clock {word(v['half_move_clock'])}")


@rule("C05.R8", "premise: a parsed board's derived state (checkers / pinned) is recomputed exactly, so parse(write(b)) agrees with b on it (C03.R4, C03.R6 re-run)")
def r_premise(ctx):
    from analysis.runner import premise
    premise(ctx, "C03", {"C03.R4", "C03.R6"}, "the round trip must reproduce the derived state; the from-scratch computation of checkers/pinned run by the parser is no longer exact")


@rule("C05.R90", 'premises shared with other properties: C04 (C04.R2, C04.R3); C02 (C02.R2)')
def r_premises_shared(ctx):
    """This property's argument rests on these rules of other properties (what it calls is assumed to behave); they are re-run here so that a
    breakage of one of them is reported by this property's own check as well."""
    from analysis.runner import premise
    premise(ctx, 'C04', ['C04.R2', 'C04.R3'] and set(['C04.R2', 'C04.R3']), 'a board and the board parsed back from its text must also hash alike; the hash is no longer a function of the position')
    premise(ctx, 'C02', ['C02.R2'] and set(['C02.R2']), 'boards reached by moves are written and read back; make-move no longer updates the placement as the rules prescribe')


# ------------------------------------------------------------------ controls
def _swap_letters(P):
    v = P.own("values", DISPLAY + "::PIECES")
    b = bytearray(bytes.fromhex(v["hex"]))
    b[4:8], b[8:12] = b[8:12], b[4:8]
    v["hex"] = b.hex()


def _ep_digit(P):
    b = P.own("fns", "chess_bitboard::color::Color::enpassant_capture_rank")
    for blk in b["blocks"]:
        for s in blk["s"]:
            r = s.get("r", {})
            if r.get("k") == "agg" and r.get("vn") == "_6":
                r["vn"] = "_5"


def _castle_table(P):
    v = P.own("values", CR_FMT + "::CASTLE_RIGHTS")
    b = bytearray(bytes.fromhex(v["hex"]))
    b[0:4], b[4:8] = b[4:8], b[0:4]
    v["hex"] = b.hex()


def _side_string(P):
    b = P.own("fns", DISPLAY)
    for blk in b["blocks"]:
        for s in blk["s"]:
            for o in __import__("analysis.facts", fromlist=["x"]).walk_operands(s):
                if o.get("k") == "const" and o.get("c", {}).get("str") == " w ":
                    o["c"]["str"] = " W "


CONTROLS = [
    ("writer swaps N and B for White", "C05.R1", _swap_letters),
    ("White's en-passant capture rank is the 5th", "C05.R5", _ep_digit),
    ("castling writer table: K and Q swapped for White", "C05.R4", _castle_table),
    ("side to move written ' W '", "C05.R3", _side_string),
]
