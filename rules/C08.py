"""C08 - slider attack lookup equals ray casting for every square and every occupancy."""
from analysis.runner import rule
from analysis.facts import AnchorError, decode_struct_array
from analysis import chessref as R

THOROUGH_CONFIGS = ['release', 'nobmi2', 'movegen-alone']
LEVEL = "proof"
EXHAUSTIVE = True
DECIDED = ("R1 the accessor computes SOLUTIONS[((occ & mask) *wrapping factor >> shift) + offset] from the four fields of MOVES_MAGIC[pos]; "
           "R2 for every entry offset + 2^(64-shift) - 1 < len(SOLUTIONS), i.e. the index is in range for all 2^64 occupancies; "
           "R3 for every square and every subset b of its mask, SOLUTIONS[idx(b)] equals ray casting; "
           "R4 mask = inner squares of the square's rays, hence raycast(sq, occ) = raycast(sq, occ & mask) for all occ. "
           "R1-R4 together give the statement for all 64 x 2^64 inputs.")
DECIDED = DECIDED + " R1 also: every arm of rook_moves / bishop_moves (including the arm the analysed configuration folds away under `cfg!(debug_assertions)`) reads only that slider's own MAGIC/SOLUTIONS tables."
DECIDED = DECIDED + ' R90 premises re-run here: C18 R5, R8 (nth); C01 R2, R5 (occupancy handed to the lookups).'
NOT_DECIDED = "nothing of the statement is left undecided; trusted: the 30-line ray caster in analysis/chessref.py and the compiler's evaluation of the statics"
EXPLANATION = ("The table bytes come from the compiler's evaluation of the `static` items (what ends up in .rodata); the accessor formula "
               "is read off the MIR of rook_moves/bishop_moves as a normalised dataflow term. The product (occ & mask) * factor is an arbitrary u64, "
               "so the shifted value ranges over [0, 2^(64-shift)); the range obligation is checked against that bound, not against sampled occupancies. "
               "Content is checked for every blocker subset of every mask (102400 rook + 5248 bishop subsets).")
TRUSTED_BASE = ["rustc nightly const evaluator (values of the statics)", "chessfacts serialiser",
                "analysis/chessref.py slide()/inner_ray_squares() (30 lines)", "Python rule engine"]

KINDS = {"rook": ("chess_lookup::rook_moves", R.ROOK_DIRS), "bishop": ("chess_lookup::bishop_moves", R.BISHOP_DIRS)}


def tables(ctx, kind):
    P = ctx.P
    mod, dirs = KINDS[kind]
    magic_adt = P.find_adt("Magic", "chess_lookup")
    mk, sk = mod + "::MOVES_MAGIC", mod + "::SOLUTIONS"
    ctx.used_static(mk), ctx.used_static(sk)
    magics = decode_struct_array(P, mk, magic_adt)
    sols = P.value_u64s(sk)
    for f in ("mask", "factor", "offset", "shift"):
        if f not in magics[0]:
            raise AnchorError(f"Magic has no field `{f}`")
    if len(magics) != 64:
        raise AnchorError(f"{mk} has {len(magics)} entries, expected 64")
    return magics, sols, dirs


def subsets(mask):
    """All subsets of the bits of `mask` (carry-rippler)."""
    b = 0
    while True:
        yield b
        b = (b - mask) & mask
        if b == 0:
            return


@rule("C08.R2", "magic index is in range for every occupancy: offset + 2^(64-shift) <= len(SOLUTIONS)")
def r2(ctx):
    g = R.Geo(ctx.P)
    n = 0
    for kind in KINDS:
        magics, sols, _ = tables(ctx, kind)
        for d, m in enumerate(magics):
            ok = 0 < m["shift"] < 64 and m["offset"] + (1 << (64 - m["shift"])) <= len(sols)
            ctx.ob(f"{kind}[{g.name(d)}]", ok, f"{kind} magic for {g.name(d)}: offset {m['offset']} + 2^(64-{m['shift']}) exceeds table length {len(sols)}: "
                   "some occupancy indexes out of range", sample={"offset": m["offset"], "shift": m["shift"], "max_index": m["offset"] + (1 << (64 - m["shift"])) - 1, "len": len(sols)})
            n += 1
    ctx.floor("magic entries", n, 128)


@rule("C08.R4", "mask equals the inner squares of the square's rays (so off-mask occupancy cannot matter)")
def r4(ctx):
    g = R.Geo(ctx.P)
    for kind in KINDS:
        magics, _, dirs = tables(ctx, kind)
        for d, m in enumerate(magics):
            want = g.bb(R.inner_ray_squares(g.coord[d], dirs))
            ctx.ob(f"{kind}.mask[{g.name(d)}]", m["mask"] == want,
                   f"{kind} mask of {g.name(d)} is {g.bbs(m['mask'])}, inner ray squares are {g.bbs(want)}",
                   sample={"mask": hex(m["mask"])})


@rule("C08.R3", "for every square and every blocker subset of its mask the table entry equals ray casting")
def r3(ctx):
    g = R.Geo(ctx.P)
    total = 0
    for kind in KINDS:
        magics, sols, dirs = tables(ctx, kind)
        for d, m in enumerate(magics):
            c = g.coord[d]
            mask, factor, shift, off = m["mask"], m["factor"], m["shift"], m["offset"]
            # precompute rays as lists of (bit, ...) for speed
            rays = []
            for df, dr in dirs:
                ray = []
                f, r = c[0] + df, c[1] + dr
                while R.on(f, r):
                    ray.append(1 << g.sq[(f, r)])
                    f, r = f + df, r + dr
                rays.append(ray)
            bad = []
            cnt = 0
            for b in subsets(mask):
                cnt += 1
                want = 0
                for ray in rays:
                    for bit in ray:
                        want |= bit
                        if b & bit:
                            break
                idx = (((b * factor) & 0xFFFFFFFFFFFFFFFF) >> shift) + off
                got = sols[idx] if idx < len(sols) else None
                if got != want:
                    bad.append((hex(b), f"{kind} {g.name(d)} blockers {g.bbs(b)}: table[{idx}] = {g.bbs(got) if got is not None else 'out of range'}, ray casting gives {g.bbs(want)}"))
                    if len(bad) > 3:
                        break
            total += cnt
            ctx.bulk(f"{kind}[{g.name(d)}]", cnt, bad, f"{kind} attack table wrong for {g.name(d)}",
                     sample={"subsets": cnt, "mask": hex(mask)} if d in (0, 27) else None)
    ctx.floor("blocker subsets", total, 102400 + 5248)


def _flip_solution(P):
    v = P.own("values", "chess_lookup::rook_moves::SOLUTIONS")
    h = v["hex"]
    i = 2 * 8 * 1234
    v["hex"] = h[:i] + ("0" if h[i] != "0" else "1") + h[i + 1:]


def _shift_plus_one(P):
    adt = P.adt("chess_lookup::Magic")
    off = [f for f in adt["variants"][0]["fields"] if f["name"] == "shift"][0]["offset"]
    v = P.own("values", "chess_lookup::bishop_moves::MOVES_MAGIC")
    b = bytearray(bytes.fromhex(v["hex"]))
    b[63 * adt["size"] + off] = 40   # a much smaller shift widens the index range past the table end
    v["hex"] = b.hex()


def _mask_bit(P):
    v = P.own("values", "chess_lookup::rook_moves::MOVES_MAGIC")
    b = bytearray(bytes.fromhex(v["hex"]))
    b[0] ^= 0x02
    v["hex"] = b.hex()


@rule("C08.R90", "premises shared with other properties: C18 (C18.R5, C18.R8); C01 (C01.R2, C01.R5)")
def r_premises_shared(ctx):
    """The blocker subsets are enumerated with BitBoardIter::nth (generator side), and the lookups are only as good as the occupancy their
    consumers hand in; these rules of other properties are re-run here so that this property's own check reports their breakage too."""
    from analysis.runner import premise
    premise(ctx, "C18", {"C18.R5", "C18.R8"}, "blocker subsets are enumerated with BitBoardIter::nth; it no longer selects the n-th member")
    premise(ctx, "C01", {"C01.R2", "C01.R5"}, "the consumers of rook_moves / bishop_moves no longer pass the occupancy the rules prescribe")


CONTROLS = [
    ("flip one bit of one rook solution", "C08.R3", _flip_solution),
    ("set the shift of the last bishop magic to 40", "C08.R2", _shift_plus_one),
    ("drop b1 from the a1 rook mask", "C08.R4", _mask_bit),
]


# ------------------------------------------------------------------ R1: formula shape (K4)
from analysis import terms as T


@rule("C08.R1", "accessor computes SOLUTIONS[((occ & mask) *wrapping factor >> shift) + offset] from MOVES_MAGIC[pos]")
def r1(ctx):
    P = ctx.P
    eng = T.Engine(P)
    for kind in KINDS:
        mod, _ = KINDS[kind]
        key = f"chess_lookup::{kind}_moves"
        ctx.used_body(key)
        leaves = eng.tabulate(key)
        pos, occ = ("param", 0, "a0"), ("param", 1, "a1")
        magic = ("index", ("obj", ("static", mod + "::MOVES_MAGIC")), ("cast", "usize", ("discr", pos)))
        f = lambda n: ("field", magic, n)
        blockers = eng.binop("BitAnd", f("mask"), ("field", occ, "0"))
        idx = eng.binop("Add", eng.binop("Shr", eng.binop("Mul", blockers, f("factor")), f("shift")), ("cast", "u64", f("offset")))
        want = ("adt", "chess_bitboard::BitBoard", "BitBoard", (("index", ("obj", ("static", mod + "::SOLUTIONS")), ("cast", "usize", idx)),))
        rets = {lf.ret for lf in leaves}
        sol = ("obj", ("static", mod + "::SOLUTIONS"))
        want_unchecked = ("adt", "chess_bitboard::BitBoard", "BitBoard", (("obj", ("app", "core::slice::<impl [u64]>::get_unchecked::<usize>", (("refv", sol), ("cast", "usize", idx)))),))
        ok = rets == {want} or rets == {want_unchecked}
        # every arm of the function, including the one this build configuration folds away (`if cfg!(debug_assertions)` keeps both in the MIR),
        # must read this slider's own tables: a read of the other slider's MAGICS/SOLUTIONS in the release arm would never be seen by a debug build
        from analysis.facts import walk_operands as _wo
        from analysis import k2 as _k2
        others = set()
        for fk in _k2.private_closure(P, key):
            for blk in P.body(fk)["blocks"]:
                for s_ in blk["s"] + [blk["t"]]:
                    for o_ in _wo(s_):
                        c_ = o_.get("c") or {}
                        tgt = c_.get("ptr", {}).get("static") if isinstance(c_.get("ptr"), dict) else None
                        if tgt and tgt.startswith("chess_lookup::") and "_moves::" in tgt and not tgt.startswith(mod + "::"):
                            others.add(tgt)
        ctx.ob(f"{kind}_moves reads only its own tables", not others, f"{key} refers to {sorted(others)}: a table of the other slider (possibly in an arm this configuration does not execute)",
               site=P.body(key).get("def_span"), sample={"foreign_tables": sorted(others)})
        ctx.ob(f"{kind}_moves formula", ok, f"{key} returns {[T.show(r)[:300] for r in rets]}; expected {T.show(want)[:300]}", site=P.body(key).get("def_span"),
               sample={"term": T.show(want)[:200]})


def _formula_no_mask(P):
    b = P.own("fns", "chess_lookup::rook_moves")
    for blk in b["blocks"]:
        for s in blk["s"]:
            r = s.get("r", {})
            if r.get("k") == "bin" and r.get("op") == "BitAnd":
                r["op"] = "BitOr"


CONTROLS.append(("rook_moves ORs the mask instead of ANDing it", "C08.R1", _formula_no_mask))
