"""C16 - stable-ABI move and score encodings are lossless."""
from analysis.runner import rule
from analysis.facts import AnchorError
from analysis import terms as T

THOROUGH_CONFIGS = ['release', 'nobmi2']
LEVEL = "proof"
EXHAUSTIVE = True
DECIDED = ("For each of ChessMove -> StableChessMove -> ChessMove, Option<ChessMove> -> StableOptionalChessMove -> Option<ChessMove> (through "
           "EvaluatedMove::new / chess_move) and Score -> StableScore -> Score (EvaluatedMove::new / score) the composition of the two extracted "
           "decision tables is the identity: for every variant combination of the input the output is rebuilt constructor by constructor from the "
           "input's own fields and payloads (source, dest and the numeric payloads pass through as copies); None maps to None, never to Some.")
NOT_DECIDED = "nothing of the statement (all squares / payload values are covered because they are passed through uninspected)"
EXPLANATION = ("K4 composition: the first conversion is propagated on an opaque input, the second on each of its results with the same path knowledge; "
               "a leaf is accepted only if its result is structurally the input under the variants assumed on that path.")
TRUSTED_BASE = ["rustc nightly MIR builder", "chessfacts serialiser", "analysis/terms.py", "Python rule engine"]

API = "chess_api::"
MOVE = "chess_movegen::ChessMove"


def conv(P, frm, to):
    cands = [f"<{to} as core::convert::From<{frm}>>::from"] + [k for k in P.fns if k.endswith(f"<impl core::convert::From<{frm}> for {to}>::from")]
    for c in cands:
        if c in P.fns:
            return c
    raise AnchorError(f"no `impl From<{frm}> for {to}`")


def roundtrip(ctx, name, keys, expect_leaves, arg_index=0, args=None, pick=None):
    P = ctx.P
    eng = T.Engine(P)
    for k in keys:
        ctx.used_body(k)
    leaves = T.compose(eng, keys, args)
    body = P.body(keys[0])
    x = ("param", arg_index, body["locals"][arg_index + 1].get("n", f"arg{arg_index}")) if args is None else args[arg_index]
    ctx.floor(f"{name}: variant combinations", len(leaves), expect_leaves)
    for lf in leaves:
        ret = pick(lf.ret) if pick else lf.ret
        cond = T.show_cond([c for c in lf.cond])
        ok = T.is_recon(P, ret, x, lf.known)
        ctx.ob(f"{name}[{cond}]", ok, f"{name}: under {cond} the round trip yields {T.show(ret)} instead of the input", site=body.get("def_span"),
               sample={"input": cond, "output": T.show(ret)})


@rule("C16.R1", "ChessMove -> StableChessMove -> ChessMove is the identity")
def r1(ctx):
    P = ctx.P
    f = conv(P, MOVE, API + "StableChessMove")
    g = conv(P, API + "StableChessMove", MOVE)
    roundtrip(ctx, "move", [f, g], 5)


@rule("C16.R2", "Option<ChessMove> -> EvaluatedMove -> Option<ChessMove> is the identity; None stays None")
def r2(ctx):
    P = ctx.P
    new = P.find_fn("EvaluatedMove::new", "chess_api")
    cm = P.find_fn("EvaluatedMove::chess_move", "chess_api")
    # fix the score to one constructor: the move half does not depend on it (checked by R3 for all five)
    score = ("adt", "chess_engine::score::Score", "Min", ())
    mv = ("param", 0, "a0")
    roundtrip(ctx, "optional move", [new, cm], 6, arg_index=0, args=[mv, score])
    # direct conversions too (used by callers that bypass EvaluatedMove)
    f = conv(P, f"core::option::Option<{MOVE}>", API + "StableOptionalChessMove")
    g = conv(P, API + "StableOptionalChessMove", f"core::option::Option<{MOVE}>")
    roundtrip(ctx, "optional move (From impls)", [f, g], 6)


@rule("C16.R3", "Score -> EvaluatedMove -> Score is the identity for all five variants")
def r3(ctx):
    P = ctx.P
    new = P.find_fn("EvaluatedMove::new", "chess_api")
    sc = P.find_fn("EvaluatedMove::score", "chess_api")
    mv = ("adt", "core::option::Option", "None", ())
    score = ("param", 1, "a1")
    roundtrip(ctx, "score", [new, sc], 5, arg_index=1, args=[mv, score])


@rule("C16.R4", "the mirror enums have the variants the conversions are total over")
def r4(ctx):
    P = ctx.P
    want = {
        API + "StableOptionalPromotionPiece": ["Knight", "Bishop", "Rook", "Queen", "None"],
        API + "StableMaybeIllegalOptionalPromotionPiece": ["Knight", "Bishop", "Rook", "Queen", "None", "Illegal"],
        API + "StableScore": ["Min", "BlackMateIn", "Raw", "WhiteMateIn", "Max"],
    }
    for k, names in want.items():
        got = [n for n, _ in P.enum_variants(k)]
        ctx.ob(k.rsplit("::", 1)[1], sorted(got) == sorted(names), f"{k} has variants {got}, expected {names}", sample=got)


def _swap_arms(fn_suffix, a, b):
    def m(P):
        key = [k for k in P.fns if k.endswith(fn_suffix)][0]
        body = P.own("fns", key)
        for blk in body["blocks"]:
            for s in blk["s"]:
                r = s.get("r", {})
                if r.get("k") == "agg" and r.get("adt", "").endswith("PromotionPiece") and r.get("vn") in (a, b):
                    r["vn"] = b if r["vn"] == a else a
    return m


def _score_swap(P):
    body = P.own("fns", "chess_api::EvaluatedMove::score")
    for blk in body["blocks"]:
        for s in blk["s"]:
            r = s.get("r", {})
            if r.get("k") == "agg" and r.get("vn") in ("BlackMateIn", "WhiteMateIn"):
                r["vn"] = "WhiteMateIn" if r["vn"] == "BlackMateIn" else "BlackMateIn"


def _illegal_to_some(P):
    key = [k for k in P.fns if k.endswith("<impl core::convert::From<chess_api::StableOptionalChessMove> for core::option::Option<chess_movegen::ChessMove>>::from")][0]
    body = P.own("fns", key)
    for blk in body["blocks"]:
        for s in blk["s"]:
            r = s.get("r", {})
            if r.get("k") == "agg" and r.get("adt") == "core::option::Option" and r.get("vn") == "None" and not r["ops"]:
                pass
    # make the Illegal arm fall into the None-promotion arm: retarget the switch
    for blk in body["blocks"]:
        t = blk["t"]
        if t["k"] == "switch" and len(t["tg"]) >= 5:
            none_tgt = [b for v, b in t["tg"] if v == "4"]
            if none_tgt:
                t["tg"] = [[v, (none_tgt[0] if v == "5" else b)] for v, b in t["tg"]]
                t["o"] = none_tgt[0] if not any(v == "5" for v, _ in t["tg"]) else t["o"]


CONTROLS = [
    ("swap Rook/Bishop arms in From<StableChessMove> for ChessMove", "C16.R1",
     _swap_arms("<impl core::convert::From<chess_api::StableChessMove> for chess_movegen::ChessMove>::from", "Rook", "Bishop")),
    ("swap Black/WhiteMateIn in EvaluatedMove::score", "C16.R3", _score_swap),
    ("Illegal decodes like None-promotion (absent move becomes Some)", "C16.R2", _illegal_to_some),
]
