"""C10 - move iterator honours its size and filtering contracts."""
from analysis.runner import rule
from analysis.effects import canon, upd_entries, acnorm, subterms
from analysis.facts import AnchorError
from analysis import terms as T, k2
from analysis.cfg import cfg_of
from analysis.effects import subterms

THOROUGH_CONFIGS = ['release', 'nobmi2', 'engine-alone']
LEVEL = "other"
DECIDED = ("R1 size_hint() = (len(), Some(len())) and count() = len(); R2 the promotion multiplier in len() equals the number of promotion pieces iterated (4, a permutation of the four "
           "PromotionPiece variants); R3 is_empty, len and next stop on the same criterion, `(entry.moves & self.mask) == empty` of the entry at the cursor; R4 in the workspace every "
           "remove_move/remove is followed on all paths by set_mask before the generator is iterated or measured again; R5 every method that can empty an entry re-establishes "
           "'entries empty under the mask form a suffix' (compaction or cursor advance) -- remove and remove_move do not: KNOWN FINDING D7; R6 every entry pushed by the generator has "
           "its destinations restricted by the destination mask (data dependence on `mask`, or for the en-passant entry a guard on `dest & mask`); R7 set_mask stores the mask and rewinds "
           "the cursor to 0 before compacting; R8 remove_move scans the whole entry list (from 0), not from the cursor.")
DECIDED = DECIDED + ' R8 also: remove_move subtracts the destination from the entry with the same source (index loop or iter_mut().find); R9 next(), evaluated on sample (entry, mask) words: yields the lowest masked destination of the cursor entry, removes exactly that destination from the entry (destinations outside the mask survive for a later set_mask; for promotions only after the last promotion piece), advances the cursor iff no masked destination is left; R10 remove(mask) turns `moves` into `moves & !mask` for every entry of the whole list. R7 also: set_mask writes nothing but the mask, the cursor and the entry order (the position inside a group of promotion pieces survives); compaction by mem::swap through pointers or slice::swap by index.'
DECIDED = DECIDED + ' R7 also: the header of the compaction loop dominates every return of set_mask (no early exit skips the re-partition). R6: push sites counted through one-push private helpers.'
DECIDED = DECIDED + ' R90 premises re-run here: C18 C18.R2, C18.R6, C18.R8; C01 C01.R1.'
NOT_DECIDED = "the iterator's behaviour under arbitrary interleavings of operations (a model of the entry list semantics would be needed); R5 records the one way in which it is known to fail"
EXPLANATION = "K4 terms/paths for the small methods, K2 must-pass-through and guard/origin extraction for the protocol and the push sites."

IT = "chess_movegen::iter::"
MG = IT + "MoveGen"
NEXT = f"<{MG} as core::iter::traits::iterator::Iterator>::next"
slf = ("obj", ("param", 0, "self"))


@rule("C10.R1", "size_hint = (len, Some(len)); count = len")
def r1(ctx):
    P = ctx.P
    LEN = MG + "::len"
    eng = T.Engine(P, opaque={LEN})
    key = f"<{MG} as core::iter::traits::iterator::Iterator>::size_hint"
    ctx.used_body(key)
    lv = eng.tabulate(key)
    ln = ("app", LEN, (("refv", slf),))
    want = ("tuple", (ln, ("adt", "core::option::Option", "Some", (ln,))))
    ctx.ob("size_hint", len(lv) == 1 and lv[0].ret == want, f"size_hint returns {[T.show(l.ret)[:100] for l in lv]}", site=P.body(key).get("def_span"), sample="(len, Some(len))")
    key = f"<{MG} as core::iter::traits::iterator::Iterator>::count"
    ctx.used_body(key)
    lv = eng.tabulate(key)
    ok = len(lv) == 1 and lv[0].ret[0] == "app" and lv[0].ret[1] == LEN
    ctx.ob("count", ok, f"count returns {[T.show(l.ret)[:100] for l in lv]}", site=P.body(key).get("def_span"), sample="len()")
    imp = [i for i in P.impls if i.get("self") == MG and (i.get("trait") or "").endswith("ExactSizeIterator")]
    ctx.ob("ExactSizeIterator", bool(imp), "MoveGen no longer claims ExactSizeIterator (informational anchor)")


@rule("C10.R11", "MoveGen overrides no Iterator method beyond the audited next / size_hint / count, and its Clone is the derived one")
def r11(ctx):
    P = ctx.P
    new = k2.unaudited_overrides(P, [MG])
    ctx.ob("no unaudited Iterator override", not new, f"MoveGen now overrides {new}: nothing establishes that it agrees with next() / len()", sample={"audited": ["next", "size_hint", "count"]})
    ck = f"<{MG} as core::clone::Clone>::clone"
    if ck in P.fns:
        ctx.ob("Clone derived", bool(P.fns[ck].get("derived")), "MoveGen::clone is hand-written: a copy that drops entries or rewinds the cursor yields a different remaining sequence",
               site=P.fns[ck].get("def_span"))


@rule("C10.R2", "promotion multiplier = number of promotion pieces = 4 distinct variants")
def r2(ctx):
    P = ctx.P
    key = IT + "PROMOTION_PIECES"
    ctx.used_static(key)
    raw = list(P.value_bytes(key))
    names = {d: n for n, d in P.enum_variants("chess_bitboard::piece::PromotionPiece")}
    ctx.ob("PROMOTION_PIECES", len(raw) == 4 and sorted(names.get(x, "?") for x in raw) == sorted(names.values()), f"PROMOTION_PIECES = {[names.get(x, x) for x in raw]}",
           sample=[names.get(x, x) for x in raw])
    body = P.body(MG + "::len")
    ctx.used_body(MG + "::len")
    muls = set()
    for blk in body["blocks"]:
        for s in blk["s"]:
            r = s.get("r", {})
            if r.get("k") == "bin" and r.get("op", "").startswith("Mul"):
                for o in (r["a"], r["b"]):
                    d = k2.describe_operand(P, body, o)
                    if d[0] == "int":
                        muls.add(d[1])
                    if o.get("k") == "const" and "from" in o and o.get("c", {}).get("int"):
                        muls.add(int(o["c"]["int"]))
    ctx.ob("len multiplier", muls == {len(raw)}, f"len() multiplies promotion entries by {sorted(muls)}; the iterator yields {len(raw)} moves per promotion destination", site=body.get("def_span"),
           sample={"multiplier": sorted(muls)})
    # next() resets the promotion cursor from the same table
    nb = P.body(NEXT)
    refs = [o for blk in nb["blocks"] for s in blk["s"] for o in __import__("analysis.facts", fromlist=["x"]).walk_operands(s) if o.get("k") == "const" and (o.get("c") or {}).get("ptr", {}).get("static") == key]
    ctx.ob("next() iterates PROMOTION_PIECES", bool(refs), "MoveGen::next does not take its promotion choices from PROMOTION_PIECES", site=nb.get("def_span"))


def stop_terms(leaves, want_empty_value):
    out = set()
    for lf in leaves:
        for t, v in lf.cond:
            if t[0] == "bin" and t[1] in ("Eq", "Ne") and T.I(0, "u64") in (t[2], t[3]):
                x = t[2] if t[3] == T.I(0, "u64") else t[3]
                if x[0] == "bin" and x[1] == "BitAnd":
                    out.add(x)
        r = lf.ret
        if r[0] == "bin" and r[1] in ("Eq", "Ne") and T.I(0, "u64") in (r[2], r[3]):
            x = r[2] if r[3] == T.I(0, "u64") else r[3]
            if x[0] == "bin" and x[1] == "BitAnd":
                out.add(x)
    return out


def is_mask_test(x):
    """BitAnd(<entry>.moves.0, self.mask.0) -> description of <entry>; else None."""
    ops = [x[2], x[3]]
    mask = ("field", ("field", slf, "mask"), "0")
    if mask not in ops:
        return None
    other = ops[1] if ops[0] == mask else ops[0]
    if other[0] == "field" and other[2] == "0" and other[1][0] == "field" and other[1][2] == "moves":
        return other[1][1]
    return None


@rule("C10.R3", "is_empty, len and next stop on the same criterion")
def r3(ctx):
    P = ctx.P
    opq = {"chess_bitboard::BitBoard::pop_unchecked", "chess_bitboard::BitBoard::clear"}
    res = {}
    for name, key in (("is_empty", MG + "::is_empty"), ("len", MG + "::len"), ("next", NEXT)):
        ctx.used_body(key)
        eng = T.Engine(P, opaque=opq)
        rets, loops, panics = eng.paths(key)
        terms = stop_terms(rets + loops, True)
        mask = ("field", ("field", slf, "mask"), "0")
        entries = {T.show(is_mask_test(x))[:900] for x in terms if is_mask_test(x)}
        ok = bool(entries) and all(mask in (x[2], x[3]) for x in terms)
        res[name] = entries
        ctx.ob(f"{name} criterion", ok, f"{name} decides emptiness on {[T.show(x)[:120] for x in terms]}; expected (entry.moves & self.mask) == 0", site=P.body(key).get("def_span"),
               sample={"tests": len(terms)})
    # the entry examined is the one at the cursor
    idx_ok = all(any("self.index" in e for e in ents if e) for ents in res.values())
    ctx.ob("entry at the cursor", idx_ok, f"the entry tested is not the one at self.index in all three: {res}", sample={k: sorted(map(str, v))[:1] for k, v in res.items()})
    # len stops at the first empty entry (break), like next/is_empty
    body = P.body(MG + "::len")
    c = cfg_of(body)
    hs = list(c.loops())
    brk = False
    if hs:
        bl = c.loops()[hs[0]]
        for x in bl:
            t = body["blocks"][x]["t"]
            if t["k"] == "switch":
                d = k2.describe_operand(P, body, t["d"])
                if d[0] == "call" and d[1].endswith("BitBoard::none") and any(s not in bl for s in c.succ[x]):
                    brk = True
    ctx.ob("len stops at the first empty entry", brk, "len() does not stop counting at the first entry that is empty under the mask (next() does)", site=body.get("def_span"))


@rule("C10.R4", "protocol: remove/remove_move is followed by set_mask before the generator is used again")
def r4(ctx):
    P = ctx.P
    users = {}
    for k, b in P.fns.items():
        if b["crate"] not in ("chess_engine", "chess_bot", "chess_api", "chess_cli-bin", "chess_wasm"):
            continue
        for bi, t in P.calls(k):
            fn = t["f"].get("fn", "")
            if fn in (MG + "::remove", MG + "::remove_move"):
                users.setdefault(k, []).append(bi)
    ctx.floor("in-workspace uses of remove/remove_move", sum(len(v) for v in users.values()), 1)
    for k, blocks in users.items():
        body = P.body(k)
        ctx.used_body(k)
        c = cfg_of(body)
        setm = {bi for bi, t in P.calls(k) if t["f"].get("fn") == MG + "::set_mask"}
        use = {bi for bi, t in P.calls(k) if t["f"].get("fn", "") in (MG + "::len", MG + "::is_empty", NEXT) or ("MoveGen" in t["f"].get("fn_args", "") and t["f"].get("fn_args", "").endswith("Iterator>::next"))
               or ("MoveGen" in t["f"].get("fn_args", "") and "into_iter" in t["f"].get("fn_args", ""))}
        for b in blocks:
            start = body["blocks"][b]["t"]["t"]
            ok = c.all_paths_pass(start, setm, use)
            ctx.ob(f"{T.short(k)[:50]}@{blocks.index(b)}", ok, f"{k}: after remove/remove_move the generator can be iterated or measured without an intervening set_mask "
                   "(an emptied early entry would end iteration prematurely)", site=body.get("def_span"), sample={"set_mask_calls": len(setm), "uses": len(use)})


@rule("C10.R5", "mutators that can empty an entry re-establish the suffix invariant")
def r5(ctx):
    P = ctx.P
    for name in ("remove", "remove_move"):
        key = MG + "::" + name
        ctx.used_body(key)
        body = P.body(key)
        calls = [t["f"].get("fn", "") for _, t in P.calls(key)]
        compacts = any(c_ == MG + "::set_mask" or c_.endswith("mem::swap") or c_.endswith("::retain") or c_.endswith("::sort_by_key") for c_ in calls)
        writes_index = bool(k2.assigns_to_field(P, key, MG, "index"))
        ctx.ob(f"MoveGen::{name}", compacts or writes_index, f"MoveGen::{name} subtracts destinations from entries in place and neither compacts the list nor moves the cursor: an entry before "
               "the end can become empty under the mask, and next()/len()/is_empty() stop at the first such entry (e.g. Board::standard().legals() then remove(a3|a4): len() == 0)",
               site=body.get("def_span"), sample={"compacts": compacts, "moves_cursor": writes_index})


@rule("C10.R6", "every pushed entry is restricted by the destination mask")
def r6(ctx):
    P = ctx.P
    n = 0
    wr = k2.push_wrappers(P)         # private helpers that push one entry per call: their call sites are the push sites
    for k, body in P.fns.items():
        if body["crate"] != "chess_movegen" or "::promoted" in k or k in wr:
            continue
        pushes = [(bi, t) for bi, t in P.calls(k) if t["f"].get("fn", "").endswith("ArrayVec::<T, CAP>::push_unchecked") or "push_unchecked" in t["f"].get("fn", "")
                  or t["f"].get("fn", "").endswith("::push") and "ArrayVec" in t["f"].get("fn", "") or T.strip_generics(t["f"].get("fn", "")) in wr]
        for bi, t in pushes:
            n += 1
            ctx.used_body(k)
            # the pushed value: LegalMovesAt { src, moves, promotion }
            via = wr.get(T.strip_generics(t["f"].get("fn", "")))
            src_local = t["a"][1]["p"]["l"] if via is None and t["a"][1].get("k") in ("copy", "move") else None
            data = set()
            if via is not None and t["a"][via].get("k") in ("copy", "move"):
                data |= k2.origins(P, body, t["a"][via]["p"]["l"])
            if src_local is not None:
                for kind, b2, d in k2.local_defs(body, src_local):
                    if kind == "stmt" and d["r"].get("k") == "agg" and d["r"].get("adt") == IT + "LegalMovesAt":
                        ops = dict(zip(d["r"]["fields"], d["r"]["ops"]))
                        mo = ops["moves"]
                        if mo.get("k") in ("copy", "move"):
                            data |= k2.origins(P, body, mo["p"]["l"])
            mask_names = {l["n"] for l in body["locals"][1:body["argc"] + 1] if l["ty"] == "chess_bitboard::BitBoard"}
            def mentions_mask(os, depth=0):
                for o in os:
                    if o[0] == "param" and o[1] in mask_names:
                        return True
                    if o[0] == "call" and depth < 6 and any(mentions_mask(a, depth + 1) for a in o[2]):
                        return True
                return False
            by_data = mentions_mask(data)
            by_guard = False
            for d, taken, a in k2.guards_of(P, k, bi):
                if any(f"'{mn}'" in str(d) for mn in mask_names):
                    by_guard = True
            ctx.ob(f"push in {T.short(k)[:60]}#{sum(1 for b_, _ in pushes if b_ < bi)}", by_data or by_guard,
                   f"{k}: an entry is pushed whose destinations do not depend on the destination mask (neither through data nor through a guard): legals_masked(m) would "
                   "contain an entry with no masked move and iteration would stop there", site=t.get("sp"), sample={"by_data": by_data, "by_guard": by_guard})
    ctx.floor("push sites", n, 6)


@rule("C10.R7", "set_mask stores the mask and rewinds the cursor")
def r7(ctx):
    P = ctx.P
    key = MG + "::set_mask"
    ctx.used_body(key)
    body = P.body(key)
    c = cfg_of(body)
    wm = k2.assigns_to_field(P, key, MG, "mask")
    wi = k2.assigns_to_field(P, key, MG, "index")
    ok_m = any(k2.describe_operand(P, body, s["r"]["o"]) == ("place", "a1", ()) and (b == 0 or c.postdominates(b, 0)) for b, s in wm if s["r"].get("k") == "use")
    ok_i = any(k2.describe_operand(P, body, s["r"]["o"]) == ("int", 0, "usize") and (b == 0 or c.postdominates(b, 0)) for b, s in wi if s["r"].get("k") == "use")
    ctx.ob("set_mask stores mask", ok_m, "set_mask does not unconditionally store its argument into self.mask", site=body.get("def_span"))
    ctx.ob("set_mask rewinds", ok_i, "set_mask does not unconditionally reset self.index to 0", site=body.get("def_span"))
    # ... and nothing else: in particular the position inside a group of promotion pieces survives (a destination is cleared only after its
    # last piece, so restarting the piece cursor would hand out the pieces already yielded a second time)
    fields = [f["name"] for f in P.adt(MG)["variants"][0]["fields"]]
    touched = sorted(f for f in fields if f not in ("mask", "index", "moves") and k2.assigns_to_field(P, key, MG, f))
    ctx.ob("set_mask frame", not touched, f"set_mask also writes {touched}; it must change only the mask, the cursor and the order of the entries", site=body.get("def_span"),
           sample={"fields": fields})
    loops = c.loops()
    # compaction: one loop over the entries that swaps (mem::swap through pointers, or slice::swap by index) the non-empty ones to the front
    swaps = [t["f"].get("fn", "") for _, t in P.calls(key) if t["f"].get("fn", "").endswith("mem::swap") or t["f"].get("fn", "").endswith("]>::swap")]
    in_loop = any(bi in bl for bl in loops.values() for bi, t in P.calls(key) if t["f"].get("fn", "") in swaps)
    ctx.ob("set_mask compacts", len(loops) == 1 and bool(swaps) and in_loop, "set_mask has no compaction loop (swap of non-empty entries to the front)",
           site=body.get("def_span"))


    # ... on every path: no exit of set_mask bypasses the compaction loop (an early return "nothing to do" leaves entries emptied by the previous
    # pass in front of live ones, and next() stops at the first entry without a masked destination)
    rets_ = [bi for bi, blk in enumerate(body["blocks"]) if blk["t"]["k"] == "ret" and not blk.get("cleanup")]
    bypass = [bi for bi in rets_ for h in loops if not c.dominates(h, bi)]
    ctx.ob("set_mask compacts on every path", len(loops) == 1 and bool(rets_) and not bypass, f"set_mask can return (bb{bypass[:2]}) without running its compaction loop", site=body.get("def_span"),
           sample={"returns": len(rets_)})


@rule("C10.R8", "remove_move scans the whole entry list")
def r8(ctx):
    P = ctx.P
    key = MG + "::remove_move"
    body = P.body(key)
    site = body.get("def_span")
    sub = {t["f"]["fn"] for _, t in P.calls(key) if "SubAssign<chess_bitboard::pos::Pos>" in t["f"].get("fn", "")}
    eng = T.Engine(P, opaque=sub)
    eng.trace_calls = set(eng.opaque)
    rets, loops, _ = eng.paths(key)
    mv = ("param", 1, "a1")
    finds = [(bi, t) for bi, t in P.calls(key) if "core::iter::traits::iterator::Iterator>::find::<" in t["f"].get("fn_args", "")]
    if not finds:
        # index-loop form: for x in 0..len { if moves[x].src == mv.source { moves[x].moves -= mv.dest; return true } } false
        starts = []
        for blk in body["blocks"]:
            for s in blk["s"]:
                r = s.get("r", {})
                if r.get("k") == "agg" and r.get("adt") == "core::ops::range::Range":
                    starts.append(k2.describe_operand(P, body, r["ops"][0]))
        # ... or `for e in &mut self.moves` / `self.moves.iter_mut()`: a loop over the whole list
        whole_iter = any(("IntoIterator>::into_iter" in t_["f"].get("fn_args", "") or "::iter_mut" in t_["f"].get("fn", "")) and t_["a"]
                         and (lambda d: d == ("ref", ("place", "self", ("d", "moves"))) or (d[0] == "call" and d[1].endswith("DerefMut>::deref_mut") and d[2] == (("ref", ("place", "self", ("d", "moves"))),)))(
                             (lambda x: x[1] if x[0] in ("ref", "proj") and isinstance(x[1], tuple) and x[1][0] == "call" else x)(k2.describe_operand(P, body, t_["a"][0])))
                         for _, t_ in P.calls(key))
        ctx.ob("remove_move range", starts == [("int", 0, "usize")] or (not starts and whole_iter), f"remove_move scans entries from {starts}; entries before the cursor come back after set_mask rewinds, so the scan must start at 0",
               site=site, sample={"start": str(starts), "whole_list_iterator": whole_iter})
        ok = False
        for lf in rets:
            if lf.ret == T.TRUE:
                calls = [c for c in lf.trace if c[0] == "call"]
                eqs = [t for t, v in lf.cond if v == 1 and "source" in T.show(t) and "src" in T.show(t)]
                ok = len(calls) == 1 and calls[0][2][1] == ("field", mv, "dest") and bool(eqs)
        ctx.ob("remove_move effect", ok, "remove_move does not subtract chess_move.dest from the entry whose src equals chess_move.source", site=site)
    else:
        # iterator form: match self.moves.iter_mut().find(|e| e.src == mv.source) { Some(e) => { e.moves -= mv.dest; true } None => false }
        whole = False
        for bi, t in P.calls(key):
            if t["f"].get("fn", "").endswith("]>::iter_mut") or "::iter_mut" in t["f"].get("fn", ""):
                d = k2.describe_operand(P, body, t["a"][0])
                x = d
                while isinstance(x, tuple) and x and x[0] in ("ref", "proj"):
                    x = x[1]
                whole = x[0] == "call" and x[1].endswith("DerefMut>::deref_mut") and x[2] == (("ref", ("place", "self", ("d", "moves"))),)
        ctx.ob("remove_move range", whole and len(finds) == 1, "remove_move does not search the whole entry list (self.moves.iter_mut()); entries before the cursor come back after set_mask rewinds",
               site=site, sample={"form": "iter_mut().find"})
        ck = [k for k in P.fns if k.startswith(key + "::{closure")]
        pred_ok = False
        if len(ck) == 1:
            lv = T.Engine(P).tabulate(ck[0])
            caps = []
            for blk in body["blocks"]:
                for s in blk["s"]:
                    r = s.get("r", {})
                    if r.get("k") == "agg" and r.get("ak") == "closure":
                        caps = [k2.describe_operand(P, body, o) for o in r["ops"]]
            env0 = caps[0] if len(caps) == 1 else None
            while isinstance(env0, tuple) and env0 and env0[0] == "ref":
                env0 = env0[1]
            if len(lv) == 1 and lv[0].ret[0] == "bin" and lv[0].ret[1] == "Eq" and env0 == ("place", "a1", ("source",)):
                sides = {T.show(x) for x in lv[0].ret[2:]}
                pred_ok = any(".src" in s_ for s_ in sides) and any("a0.0" in s_ for s_ in sides)
        eff_ok = False
        for lf in rets:
            calls = [c for c in lf.trace if c[0] == "call"]
            found = [v for t_, v in lf.cond if t_[0] == "discr" and t_[1][0] == "app" and "Iterator>::find::<" in t_[1][1]]
            if lf.ret == T.TRUE:
                eff_ok = (found == ["Some"] and len(calls) == 1 and calls[0][2][1] == ("field", mv, "dest") and "Iterator>::find::<" in T.show(calls[0][2][0]) and T.show(calls[0][2][0]).rstrip(")").endswith(".moves"))
            elif calls:
                eff_ok = False
                break
        ctx.ob("remove_move effect", pred_ok and eff_ok, f"remove_move does not subtract chess_move.dest from the entry whose src equals chess_move.source (predicate ok={pred_ok}, effect ok={eff_ok})", site=site)


@rule("C10.R10", "remove(mask) subtracts the mask from every entry of the list (entries before the cursor come back after set_mask)")
def r10(ctx):
    P = ctx.P
    key = MG + "::remove"
    body = P.body(key)
    ctx.used_body(key)
    site = body.get("def_span")
    c = cfg_of(body)
    loops = c.loops()
    # the iteration source: the whole list, i.e. an iterator made from `&mut self.moves` with no range indexing in between
    srcs = []
    sliced = [t["f"].get("fn_args", "") for _, t in P.calls(key) if "core::ops::index::Index" in t["f"].get("fn_args", "") and "Range" in t["f"].get("fn_args", "")]
    for bi, t in P.calls(key):
        fa = t["f"].get("fn_args", "")
        if fa.endswith("IntoIterator>::into_iter") or "::iter_mut" in fa:
            d = k2.describe_operand(P, body, t["a"][0])
            x = d
            while isinstance(x, tuple) and x and x[0] in ("ref", "proj"):
                x = x[1]
            if x[0] == "call" and x[1].endswith("DerefMut>::deref_mut"):
                x = x[2][0]
                while isinstance(x, tuple) and x and x[0] in ("ref", "proj"):
                    x = x[1]
            srcs.append(x)
    each = [(bi, t) for bi, t in P.calls(key) if "Iterator>::for_each::<" in t["f"].get("fn_args", "")]
    whole = srcs == [("place", "self", ("d", "moves"))] and not sliced and (len(loops) == 1 or (not loops and len(each) == 1))
    ctx.ob("remove range", whole, f"remove iterates over {srcs} (range indexing: {sliced[:1]}); it must cover the whole list: entries before the cursor are handed out again after set_mask rewinds",
           site=site, sample={"source": str(srcs)})
    # per-entry effect on every generic iteration: entry.moves := entry.moves & !mask (whatever operator spells it)
    eng = T.Engine(P)
    rets, lps, _ = eng.paths(key)
    ok, n_some = bool(lps), 0
    mask_w = ("field", ("param", 1, "a1"), "0")
    for lf in lps:
        item = [v for t_, v in lf.cond if t_[0] == "discr" and isinstance(v, str)]
        if "Some" not in item:
            continue
        n_some += 1
        writes = []
        for k_, v_ in lf.ext.items():
            base, ents = upd_entries(eng.freeze(lf.state, v_))
            if not any(s_[0] == "app" and "Iterator>::next" in s_[1] for s_ in subterms(k_)):
                continue                    # only the entry handed out by the list iterator in this generic iteration
            for pth, val in ents:
                names = [e[2] for e in pth if e[0] == "f"]
                if val[0] in ("loopvar", "mutated"):
                    continue
                if names and names[-1] in ("moves",) or names[-2:] == ["moves", "0"]:
                    old = T.get_path(base, pth)
                    w = val[3][0] if val[0] == "adt" else val
                    o = ("field", old, "0") if val[0] == "adt" else old
                    writes.append(canon(w) == canon(("bin", "BitAnd", o, ("un", "Not", mask_w))))
        ok &= writes == [True]
    if not lps and len(each) == 1:
        # iterator form: self.moves.iter_mut().for_each(|e| e.moves = e.moves & !mask): the closure is the per-entry step
        cks = [k_ for k_ in P.fns if k_.startswith(key + "::{closure")]
        caps = []
        for blk in body["blocks"]:
            for s in blk["s"]:
                r = s.get("r", {})
                if r.get("k") == "agg" and r.get("ak") == "closure":
                    caps = [k2.describe_operand(P, body, o) for o in r["ops"]]
        k2.EXPAND_NAMED[0] = True
        try:
            for blk in body["blocks"]:
                for s in blk["s"]:
                    r = s.get("r", {})
                    if r.get("k") == "agg" and r.get("ak") == "closure":
                        caps = [k2.describe_operand(P, body, o) for o in r["ops"]]
        finally:
            k2.EXPAND_NAMED[0] = False
        cap0 = caps[0] if len(caps) == 1 else None
        while isinstance(cap0, tuple) and cap0 and cap0[0] in ("ref", "proj"):
            cap0 = cap0[1]
        mask_sym = ("field", ("param", 1, "a1"), "0")
        cap_val = None                      # what the captured word is, in terms of remove's own `mask`
        if cap0 == ("place", "a1", ()):
            cap_val = mask_sym
        elif isinstance(cap0, tuple) and cap0 and cap0[0] == "call" and cap0[1].endswith("Not for chess_bitboard::BitBoard>::not") and cap0[2] and cap0[2][0] == ("place", "a1", ()):
            cap_val = ("un", "Not", mask_sym)
        ok = len(cks) == 1 and cap_val is not None
        if ok:
            ce = T.Engine(P)
            clv = ce.tabulate(cks[0])
            cb = P.body(cks[0])
            env, item = ("param", 0, cb["locals"][1]["n"]), ("param", 1, cb["locals"][2]["n"])
            ok = len(clv) == 1
            for lf in clv:
                v_ = lf.ext.get(item)
                base, ents = upd_entries(ce.freeze(lf.state, v_)) if v_ is not None else (None, [])
                ws = []
                for pth, val in ents:
                    names = [e[2] for e in pth if e[0] == "f"]
                    if names[-1:] == ["moves"] or names[-2:] == ["moves", "0"]:
                        old_ = T.get_path(base, pth)
                        w = val[3][0] if val[0] == "adt" else val
                        o = ("field", old_, "0") if val[0] == "adt" else old_
                        # the captured mask: field 0 of the closure environment (by value or by reference)
                        cands = [("field", ("field", env, 0), "0"), ("field", ("obj", ("field", env, 0)), "0"), ("field", ("field", ("obj", env), 0), "0"), ("field", ("obj", ("field", ("obj", env), 0)), "0")]
                        def subst(x, m_):
                            if x == m_:
                                return cap_val
                            return tuple(subst(y, m_) if isinstance(y, tuple) else y for y in x) if isinstance(x, tuple) else x
                        ws.append(any(canon(subst(w, m_)) == canon(("bin", "BitAnd", o, ("un", "Not", mask_sym))) for m_ in cands))
                ok &= ws == [True]
            n_some = 1
    ctx.ob("remove effect", ok and n_some >= 1, "remove does not turn each visited entry's `moves` into `moves & !mask`", site=site)


@rule("C10.R9", "next(): yields the lowest masked destination of the cursor entry, removes exactly that destination, advances the cursor iff no masked destination is left")
def r9(ctx):
    """The extracted summary of next() is evaluated on sample (entry, mask) words; no code of the repository runs."""
    P = ctx.P
    ctx.used_body(NEXT)
    site = P.body(NEXT).get("def_span")
    eng = T.Engine(P, opaque={"chess_bitboard::pos::Pos::from_u8"})
    lv = eng.tabulate(NEXT)
    M = ("field", ("field", slf, "mask"), "0")
    zero = T.I(0, "u64")
    some = [lf for lf in lv if lf.ret[0] == "adt" and lf.ret[2] == "Some"]
    ctx.floor("yielding paths of next()", len(some), 3)
    words = [0x1, 0x8000000000000000, 0x00FF00000000FF00, 0x0000001008000000, 0xFFFFFFFFFFFFFFFF, 0x8100000000000081, 0x0000000000000F0F, 0x4000000000000002, 0x00000000FFFF0000, 0x0102040810204080]
    POS = "chess_bitboard::pos::Pos"
    pos_by_discr = {d: nme for nme, d in P.enum_variants(POS)}

    def apps(name, args):
        # Pos::from_u8(k) is the k-th square (its table is decided by C19.R1); kept opaque above only to avoid a 64-way path split
        if name.endswith("Pos::from_u8") and len(args) == 1 and T.is_const(args[0]) and args[0][1] in pos_by_discr:
            return ("adt", "core::option::Option", "Some", (("adt", POS, pos_by_discr[args[0][1]], ()),))
        return None
    bad, n = [], 0
    kinds = set()
    for li, lf in enumerate(some):
        E = None
        for t_, v in lf.cond:
            if t_[0] == "bin" and t_[1] == "Eq" and zero in t_[2:] and v == 0:
                x = t_[2] if t_[3] == zero else t_[3]
                if x[0] == "bin" and x[1] == "BitAnd" and M in x[2:]:
                    E = x[3] if x[2] == M else x[2]
                    break
        if E is None:
            raise AnchorError("next(): no `(entry.moves & self.mask) != 0` test on a yielding path")
        promo = [v for t_, v in lf.cond if t_[0] == "field" and t_[2] == "promotion"]
        exhausted = [v for t_, v in lf.cond if t_[0] == "bin" and t_[1] == "Eq" and any(s_[0] == "app" and "ExactSizeIterator>::len" in s_[1] for s_ in subterms(t_))]
        consume = (promo == [0]) or (promo == [1] and exhausted == [1])
        kinds.add(("promotion" if promo == [1] else "plain", "last piece" if exhausted == [1] else ("more pieces" if exhausted == [0] else "-")))
        N, idx_written = None, False
        for k_, v_ in lf.ext.items():
            base, ents = upd_entries(eng.freeze(lf.state, v_))
            for pth, val in ents:
                names = [e[2] for e in pth if e[0] == "f"]
                if k_ == ("param", 0, "self") and names == ["index"]:
                    idx_written = canon(val) == canon(("bin", "Add", ("field", slf, "index"), T.I(1, "usize")))
                    if not idx_written:
                        bad.append((f"path{li}:index", f"the cursor becomes {T.show(val)[:80]}"))
                if k_ != ("param", 0, "self") and names[-1:] == ["moves"] and val[0] not in ("loopvar", "mutated"):
                    N = val[3][0] if val[0] == "adt" else val            # the entry reached by indexing, or handed out by get_mut
        fu = [s_ for s_ in subterms(lf.ret) if s_[0] == "app" and s_[1].endswith("Pos::from_u8")]
        if len(fu) != 1:
            raise AnchorError("next(): the yielded destination is not Pos::from_u8(..) of a bit index")
        for e_ in words:
            for m_ in words:
                if not (e_ & m_):
                    continue
                env = {E: T.I(e_, "u64"), M: T.I(m_, "u64"), "__apps__": apps}
                # does this sample select this path? (conditions over the entry and the mask only)
                sel = True
                for c in lf.cond:
                    if c[0][0] == "assert" or not any(s_ in (E, M) for s_ in subterms(c[0])):
                        continue
                    if c[0][0] == "field" or any(s_[0] == "app" and "ExactSizeIterator" in s_[1] for s_ in subterms(c[0])):
                        continue
                    h = T.cond_holds(eng, c, env)
                    if h is None:
                        raise AnchorError(f"next(): cannot evaluate {T.show(c[0])[:80]} on concrete words")
                    sel &= h
                if not sel:
                    continue
                n += 1
                low = (e_ & m_) & -(e_ & m_)
                d = T.concretize(eng, fu[0][2][0], env)
                if not T.is_const(d) or (1 << d[1]) != low:
                    bad.append((f"path{li}:dest[{e_:#x},{m_:#x}]", f"yields square index {T.show(d)[:40]}, the lowest masked destination is bit {low.bit_length() - 1}"))
                    continue
                if consume:
                    nv = T.concretize(eng, N, env) if N is not None else None
                    want = e_ & ~low
                    if nv is None or not T.is_const(nv) or nv[1] != want:
                        bad.append((f"path{li}:entry[{e_:#x},{m_:#x}]", f"entry {e_:#x} under mask {m_:#x}: after yielding bit {low.bit_length() - 1} the entry is "
                                    f"{hex(nv[1]) if nv is not None and T.is_const(nv) else 'unchanged/unknown'}, expected {want:#x} (only the yielded destination removed; destinations outside the mask must survive for a later set_mask)"))
                        continue
                    if idx_written != ((want & m_) == 0):
                        bad.append((f"path{li}:cursor[{e_:#x},{m_:#x}]", f"cursor {'advances' if idx_written else 'stays'} although masked destinations {'remain' if want & m_ else 'are exhausted'}"))
                else:
                    if N is not None or idx_written:
                        bad.append((f"path{li}:early[{e_:#x},{m_:#x}]", "the entry or the cursor changes before the last promotion piece of a destination was yielded"))
    ctx.floor("sample evaluations of next()", n, 100)
    ctx.ob("next() path kinds", kinds >= {("plain", "-"), ("promotion", "last piece"), ("promotion", "more pieces")}, f"next() has path kinds {sorted(kinds)}", site=site, sample=sorted(kinds))
    ctx.bulk("next() step semantics", n, bad[:20], "next() does not consume exactly the yielded destination", sample={"evaluations": n})


@rule("C10.W", "type-level: compile-fail witnesses with compiling twins (K6; thorough tier)")
def rw(ctx):
    from analysis import witness
    if ctx.config != "ws":
        return
    witness.check(ctx, {'c10_movegen_cursor_private': "the generator's cursor can be moved from outside"})


rw.thorough_only = True


def _size_hint(P):
    key = f"<{MG} as core::iter::traits::iterator::Iterator>::size_hint"
    b = P.own("fns", key)
    for blk in b["blocks"]:
        for s in blk["s"]:
            r = s.get("r", {})
            if r.get("k") == "agg" and r.get("vn") == "Some":
                r["vn"], r["v"], r["ops"] = "None", 0, []


def _mult(P):
    v = P.own("values", IT + "PROMOTION_PIECES")
    v["hex"] = v["hex"][:6]


def _no_setmask(P):
    key = P.find_fn("Engine::search_with", "chess_engine")
    b = P.own("fns", key)
    for blk in b["blocks"]:
        t = blk["t"]
        if t["k"] == "call" and t["f"].get("fn") == MG + "::set_mask":
            t["f"]["fn"] = MG + "::noop"


@rule("C10.R90", 'premises shared with other properties: C18 (C18.R2, C18.R6, C18.R8); C01 (C01.R1)')
def r_premises_shared(ctx):
    """This property's argument rests on these rules of other properties (what it calls is assumed to behave); they are re-run here so that a
    breakage of one of them is reported by this property's own check as well."""
    from analysis.runner import premise
    premise(ctx, 'C18', ['C18.R2', 'C18.R6', 'C18.R8'] and set(['C18.R2', 'C18.R6', 'C18.R8']), 'the generator edits its entries with these bit-set operations; one of them no longer behaves like the set operation')
    premise(ctx, 'C01', ['C01.R1'] and set(['C01.R1']), 'which entries exist, and in which order (the king entry last), is decided by the generator dispatch')


CONTROLS = [
    ("size_hint upper bound None", "C10.R1", _size_hint),
    ("three promotion pieces", "C10.R2", _mult),
    ("search_with without set_mask", "C10.R4", _no_setmask),
]
