"""C12 - a mate in one is always found and truthfully reported."""
from analysis.runner import rule
from analysis.facts import AnchorError
from analysis import terms as T, k2
from analysis.cfg import cfg_of

THOROUGH_CONFIGS = ['release', 'nobmi2', 'engine-alone']
LEVEL = "other"
DECIDED = ("R1 in alphabeta the mate score is built only under `no legal move` and `in check` of the position after the move, as BlackMateIn(d) when White is mated and "
           "WhiteMateIn(d) when Black is, with d the current depth, and root calls pass current_depth = 1; R2 mate scores are constructed nowhere else in the workspace except the "
           "ABI conversions; R3 the static evaluation and every draw score other than the dead-position shortcut are reached only after the move list was found non-empty "
           "(terminal detection comes first), and the dead-position shortcut applies only to no queens/rooks/pawns and at most one minor piece in total; "
           "R4 the three root move loops end only by exhausting the generator or under timeout.is_complete(), and every root move is searched by alphabeta of the opposite policy; "
           "R5 the root keeps a move only if is_better(score, new) (strict, C14 order), so a later equal-or-worse move never displaces a mate.")
DECIDED = DECIDED + ' R6 premise re-run here: the staged iteration the search relies on (captures first, then set_mask and the rest) loses no move (C10.R3, R7, R9). R7 the score search_with reports originates only from alphabeta results or P::WORST_SCORE (reaching definitions, field-sensitive): a shortcut returning a static evaluation would report Raw(..) for a mating move.'
DECIDED = DECIDED + ' R8 in search_with (three root loops) and in alphabeta the running best score is replaced by a child score exactly under P::is_better(best, child) - as an assignment, or inside a private helper evaluated on its own paths - and is written nowhere else (a fold that never stores the better score makes every inner node return the policy worst score and lets any later root move displace the mate).'
DECIDED = DECIDED + ' R1/R2 also: the mate score may be built by a method of the Policy trait implemented per colour (each implementation checked against the colour constant of its impl). R4/R5/R7/R8 treat a private function whose every path returns alphabeta(self, its move, its args) - plain, or as Some(score) / None exactly when the time limit expired - as an alphabeta call.'
DECIDED = DECIDED + ' R90 premises re-run here: C03 C03.R4, C03.R5, C03.R6.'
NOT_DECIDED = "that the move carrying the mate score checkmates on the actual board (needs C01 move generation and C03 check status as behaviours)"
EXPLANATION = ("K2 guard extraction (control dependence chains described by the defining call of each branch value) over the MIR of the generic search functions; "
               "K4 table for the dead-position predicate; who-may-construct over the whole workspace.")

ENG = "chess_engine::"
SCORE = ENG + "score::Score"
IS_EMPTY = "chess_movegen::iter::MoveGen::is_empty"
IN_CHECK = "chess_movegen::Board::in_check"
INSUFF = ENG + "Engine::insuffient_material"
LEGALS = "chess_movegen::iter::<impl chess_movegen::Board>::legals"


def score_returns(P, key):
    """[(block, variant, operand descriptions)] for `_0 = Score::X(..)` in body `key`."""
    body = P.body(key)
    out = []
    for bi, blk in enumerate(body["blocks"]):
        for s in blk["s"]:
            r = s.get("r", {})
            if s["k"] == "assign" and r.get("k") == "agg" and r.get("adt") == SCORE and s["p"]["l"] == 0 and not s["p"]["pj"]:
                out.append((bi, r["vn"], [k2.describe_operand(P, body, o) for o in r["ops"]]))
    return out


def guard_truth(P, key, block):
    g = k2.guards_of(P, key, block)
    calls = {T.strip_generics(c): v for c, v in k2.guard_calls(g).items()}
    return g, calls


@rule("C12.R1", "mate score: built under (no legal move, in check), right colour, payload = current depth; root depth 1")
def r1(ctx):
    P = ctx.P
    key = P.find_fn("Engine::alphabeta", "chess_engine")
    ctx.used_body(key)
    body = P.body(key)
    site = body.get("def_span")
    COLOR_T = "chess_bitboard::color::Color"
    args_name = [l["n"] for l in body["locals"][1:body["argc"] + 1] if l["ty"].lstrip("&").replace("mut ", "").startswith(ENG + "AlphaBetaArgs")]
    if len(args_name) != 1:
        raise AnchorError("alphabeta has no single AlphaBetaArgs parameter")
    depth_place = ("place", args_name[0], ("d", "current_depth"))
    # mate scores are built in alphabeta itself or in a private helper it calls: (function, block, variant, payload, call site in alphabeta)
    mates = []
    for f in sorted(k2.private_closure(P, key)):
        if "{closure" in f:
            continue
        for bi, vn, ops in score_returns(P, f):
            if vn not in ("BlackMateIn", "WhiteMateIn"):
                continue
            if f == key:
                mates.append((f, bi, vn, ops, None))
            else:
                for cb, ct in k2.call_sites(P, key, f):
                    mates.append((f, bi, vn, ops, (cb, ct)))
    # ... or in a method of the Policy trait, implemented per colour (static dispatch instead of a match on P::COLOR)
    by_impl = {}
    for f in sorted(k2.private_closure(P, key)):
        if "{closure" in f:
            continue
        for cb, ct in P.calls(f):
            fr = ct["f"]
            if fr.get("k") == "fnref" and fr.get("decl", fr.get("fn", "")).startswith(ENG + "Policy::") and f == key:
                meth = fr.get("decl", fr["fn"]).rsplit("::", 1)[1]
                for pol in ("White", "Black"):
                    ik = f"<{ENG}{pol} as {ENG}Policy>::{meth}"
                    if ik in P.fns:
                        for bi, vn, ops in score_returns(P, ik):
                            if vn in ("BlackMateIn", "WhiteMateIn"):
                                mates.append((ik, bi, vn, ops, (cb, ct)))
                                cv = T.Engine(P).eval_closed(T.State(), f"<{ENG}{pol} as {ENG}Policy>::COLOR")
                                by_impl[(ik, bi)] = cv[2] if cv and cv[0] == "adt" else None
    ctx.floor("mate-score sites reachable in alphabeta", len(mates), 2)
    want_color = {"BlackMateIn": "White", "WhiteMateIn": "Black"}
    for f, bi, vn, ops, cs in mates:
        g, calls = guard_truth(P, f, bi)
        if cs is not None:
            # the helper's own guards decide the colour; the call site's guards decide when a mate score is produced; its argument is the payload
            g2, calls2 = guard_truth(P, key, cs[0])
            g, calls = g + g2, dict(calls2, **calls)
            fb = P.body(f)
            pmap = {("place", fb["locals"][i + 1]["n"], ()): k2.describe_operand(P, body, a) for i, a in enumerate(cs[1]["a"])}
            ops = [pmap.get(o, o) for o in ops]
        no_moves = calls.get(IS_EMPTY, (None,))[0] is True
        in_check = calls.get(IN_CHECK, (None,))[0] is True
        color = by_impl[(f, bi)] if (f, bi) in by_impl else k2.assoc_enum_guard(P, g, "<P as chess_engine::Policy>::COLOR", COLOR_T, key=f)
        payload_ok = ops == [depth_place]
        tag = vn if f == key else f"{vn} via {T.short(f)}"
        ctx.ob(f"{vn} guards", no_moves and in_check, f"Score::{tag} is returned under guards {[(T.short(c), v[0]) for c, v in calls.items()]}; a mate requires no legal move AND in check",
               site=site, sample={"no_moves": no_moves, "in_check": in_check})
        ctx.ob(f"{vn} colour", color == want_color[vn], f"Score::{tag} is returned when the side to move (P::COLOR) is {color}; {vn} means {want_color[vn]} is mated", site=site,
               sample={"P::COLOR": color})
        ctx.ob(f"{vn} distance", payload_ok, f"Score::{tag} carries {ops}, expected args.current_depth", site=site)
    # the emptiness test is on legals() of the position after the move
    first_empty = sorted(b for b, _ in k2.call_sites(P, key, IS_EMPTY))[:1]
    ok = False
    if first_empty:
        t = body["blocks"][first_empty[0]]["t"]
        src = k2.origins(P, body, t["a"][0]["p"]["l"])
        ok = any(o[0] == "call" and o[1] == LEGALS for o in src)
    ctx.ob("emptiness of legals(board)", ok, "the terminal test in alphabeta is not on `board.legals()`", site=site)
    # root calls pass current_depth: 1
    sk = P.find_fn("Engine::search_with", "chess_engine")
    ctx.used_body(sk)
    sb = P.body(sk)
    roots = []
    for f in sorted(k2.private_closure(P, sk) - k2.private_closure(P, key)):
        fb = P.body(f)
        for blk in fb["blocks"]:
            for s in blk["s"]:
                r = s.get("r", {})
                if r.get("k") == "agg" and r.get("adt") == ENG + "AlphaBetaArgs":
                    ops = dict(zip(r["fields"], r["ops"]))
                    roots.append(k2.describe_operand(P, fb, ops["current_depth"]) == ("int", 1, "u16"))
    depth1 = bool(roots) and all(roots)
    ctx.ob("root current_depth = 1", depth1, "search_with does not start alphabeta at current_depth 1: a mate in one would not be reported as mate-in-1", site=sb.get("def_span"))
    # recursion increments the depth by exactly one
    inc = False
    for blk in body["blocks"]:
        for s in blk["s"]:
            r = s.get("r", {})
            if r.get("k") == "agg" and r.get("adt") == ENG + "AlphaBetaArgs":
                ops = dict(zip(r["fields"], r["ops"]))
                d = k2.describe_operand(P, body, ops["current_depth"])
                b_ = d[1] if d[0] == "proj" else d
                inc = b_[0] == "bin" and b_[1].startswith("Add") and ("int", 1, "u16") in b_[2:] and depth_place in b_[2:]
    ctx.ob("recursion depth + 1", inc, "alphabeta does not pass current_depth + 1 to the next ply", site=site)


@rule("C12.R2", "who-may-construct mate scores")
def r2(ctx):
    P = ctx.P
    cons = k2.constructors_of(P, SCORE)
    # alphabeta and the private helpers only it calls (their constructions are checked at alphabeta's call sites by R1)
    ab = P.find_fn("Engine::alphabeta", "chess_engine")
    callers = P.callers()
    helpers = {f for f in k2.private_closure(P, ab) if f != ab and "{closure" not in f and {c for c, _ in callers.get(f, [])} <= {ab}}
    # the ABI decoder (its table is C16.R3) and private helpers only it calls
    dec = "chess_api::EvaluatedMove::score"
    dec_helpers = {f for f in k2.private_closure(P, dec) if f != dec and "{closure" not in f and {c for c, _ in callers.get(f, [])} <= {dec}} if dec in P.fns else set()   # chess_api is absent from single-package configurations
    # methods of the Policy trait that alphabeta (and nobody else) calls: checked per implementation by R1
    pol_methods = set()
    for f in k2.private_closure(P, ab):
        for _, ct in P.calls(f):
            d_ = ct["f"].get("decl", "") if ct["f"].get("k") == "fnref" else ""
            if d_.startswith(ENG + "Policy::") and f == ab:
                pol_methods.add(d_.rsplit("::", 1)[1])
    for k_ in P.fns:
        for _, ct in (P.calls(k_) if k_ not in k2.private_closure(P, ab) and P.fns[k_]["crate"] in ("chess_engine", "chess_api", "chess_bot") else []):
            d_ = ct["f"].get("decl", "") if ct["f"].get("k") == "fnref" else ""
            if d_.startswith(ENG + "Policy::"):
                pol_methods.discard(d_.rsplit("::", 1)[1])
    impl_methods = {f"<{ENG}{pol} as {ENG}Policy>::{m_}" for pol in ("White", "Black") for m_ in pol_methods}
    allowed = {ab, dec} | helpers | dec_helpers | impl_methods
    bad = {}
    for k, sites in cons.items():
        mate = [s for s in sites if s[1] in ("BlackMateIn", "WhiteMateIn")]
        if mate and k not in allowed and "fmt::Debug" not in k:
            bad[k] = mate
    ctx.ob("mate-score constructors", not bad, f"mate scores are also constructed in {sorted(bad)}", sample=sorted(k for k in cons if any(s[1].endswith('MateIn') for s in cons[k])))


@rule("C12.R3", "terminal detection precedes evaluation and draw scores; dead-position shortcut is sound")
def r3(ctx):
    P = ctx.P
    key = P.find_fn("Engine::alphabeta", "chess_engine")
    body = P.body(key)
    site = body.get("def_span")
    # every non-mate score returned directly, and the eval call, except the dead-position shortcut
    sites = [(bi, f"Raw@{i}") for i, (bi, vn, ops) in enumerate(score_returns(P, key)) if vn == "Raw"]
    sites += [(b, "eval") for b, _ in k2.call_sites(P, key, ENG + "Engine::eval")]
    n = 0
    for bi, label in sites:
        g, calls = guard_truth(P, key, bi)
        if calls.get(INSUFF, (None,))[0] is True:
            continue        # the shortcut itself
        n += 1
        empt = calls.get(IS_EMPTY, (None,))[0]
        ok = empt is False or (empt is True and calls.get(IN_CHECK, (None,))[0] is False)
        ctx.ob(f"{label} after terminal test", ok, f"alphabeta returns {label} under guards {[(T.short(c), v[0]) for c, v in calls.items()]}: it is reachable before (or without) "
               "the no-legal-move test, so a checkmate can be scored as something else", site=site, sample={"guards": {T.short(c): v[0] for c, v in calls.items()}})
    ctx.floor("non-mate return sites", n, 4)
    # the move loop is also behind the terminal test
    for b, _ in k2.call_sites(P, key, "alphabeta", pred=lambda k_, f: "Engine::alphabeta" in k_):
        g, calls = guard_truth(P, key, b)
        ctx.ob("recursion after terminal test", calls.get(IS_EMPTY, (None,))[0] is False, "the recursive search is reachable without the no-legal-move test", site=site)
    # dead-position predicate
    ctx.used_body(INSUFF)
    eng = T.Engine(P, opaque={"chess_movegen::Board::raw"})
    leaves = eng.tabulate(INSUFF)
    pd = {n_: d for n_, d in P.enum_variants("chess_bitboard::piece::Piece")}
    raw = None

    def classify(t, v):
        # heavy = (queens | rooks | pawns) != 0 ; knights / bishops = count_ones(pieces[k])
        s = T.show(t)
        th = T.threshold(t, v)
        def which(x):
            x = x[2] if x[0] == "cast" else x
            if x[0] == "count_ones":
                y = x[1]
                if y[0] == "field" and y[1][0] == "index" and T.is_const(y[1][2]):
                    return {pd["Knight"]: "knights", pd["Bishop"]: "bishops"}.get(y[1][2][1])
            return None
        if t[0] == "bin" and t[1] in ("Ne", "Eq") and T.I(0, "u64") in (t[2], t[3]):
            other_ = t[3] if t[2] == T.I(0, "u64") else t[2]
            idx = sorted(x[2][1] for x in _sub(other_) if x[0] == "index" and T.is_const(x[2]))
            if idx == sorted([pd["Queen"], pd["Rook"], pd["Pawn"]]):
                return ("heavy", (v == 1) if t[1] == "Ne" else (v == 0))
            return None
        if th:
            w = which(th[0])
            if w:
                return (f"{w}>={th[1]}", th[2])
        if t[0] == "bin" and t[1] in ("Eq", "Ne") and T.is_const(t[3]):
            w = which(t[2])
            if w:
                return (f"{w}=={t[3][1]}", (v == 1) if t[1] == "Eq" else (v == 0))
        return None

    # evaluate the table for knights, bishops in 0..3 and heavy in {F, T}
    bad, n = [], 0
    for heavy in (False, True):
        for kn in range(4):
            for bs in range(4):
                n += 1
                res = set()
                for lf in leaves:
                    ok = True
                    rv = lf.ret
                    conds = list(lf.cond)
                    if rv not in (T.TRUE, T.FALSE):
                        conds.append((rv, 1))
                    und = False
                    for t, v in conds:
                        c = classify(t, v)
                        if c is None:
                            und = True
                            break
                        name, truth = c
                        if name == "heavy":
                            val = heavy
                        else:
                            w, rest = (name.split(">=") + [None])[:2] if ">=" in name else (name.split("==")[0], None)
                            cnt = kn if w == "knights" else bs
                            val = cnt >= int(name.split(">=")[1]) if ">=" in name else cnt == int(name.split("==")[1])
                        if val != truth:
                            ok = False
                            break
                    if und:
                        res.add("undetermined")
                    elif ok:
                        res.add(True if rv != T.FALSE else False)
                    elif rv not in (T.TRUE, T.FALSE) and not und:
                        # all path conditions may hold with the result term false
                        path_ok = all((classify(t, v) is not None) for t, v in lf.cond)
                        if path_ok:
                            holds = True
                            for t, v in lf.cond:
                                name, truth = classify(t, v)
                                if name == "heavy":
                                    val = heavy
                                else:
                                    cnt = kn if name.startswith("knights") else bs
                                    val = cnt >= int(name.split(">=")[1]) if ">=" in name else cnt == int(name.split("==")[1])
                                if val != truth:
                                    holds = False
                            if holds:
                                res.add(False)
                want = (not heavy) and (kn + bs <= 1)
                if res != {want}:
                    bad.append((f"heavy={heavy},N={kn},B={bs}", f"insuffient_material(queens/rooks/pawns present={heavy}, knights={kn}, bishops={bs}) = {sorted(map(str, res))}; "
                                f"a dead position has no queen/rook/pawn and at most one minor piece: expected {want}"))
    ctx.bulk("dead-position predicate", n, bad, "the insufficient-material shortcut declares a position dead that can still be mate (or the reverse)", sample={"cases": n})
    # the shortcut is only taken after a capture
    for bi, vn, ops in score_returns(P, key):
        g, calls = guard_truth(P, key, bi)
        if calls.get(INSUFF, (None,))[0] is True:
            cap = any(d == ("place", "was_capture", ()) and taken != 0 for d, taken, _ in g)
            ctx.ob("shortcut only after a capture", cap, "the dead-position shortcut is not conditional on the move having been a capture", site=site)


def _sub(t):
    out = []

    def walk(x):
        if isinstance(x, tuple) and x:
            out.append(x)
            for y in x:
                walk(y)
    walk(t)
    return out


@rule("C12.R4", "root loops: complete unless the timeout fires; every root move goes through alphabeta::<Flip>")
def r4(ctx):
    P = ctx.P
    key = P.find_fn("Engine::search_with", "chess_engine")
    ctx.used_body(key)
    body = P.body(key)
    site = body.get("def_span")
    c = cfg_of(body)
    loops = c.loops()
    wr = k2.ab_wrappers(P)          # private helpers that stand for one alphabeta call (plain, or Some(score) / None on timeout)
    is_ab = lambda k_: "Engine::alphabeta" in k_ or T.strip_generics(k_) in wr
    ab_calls = k2.call_sites(P, key, None, pred=lambda k_, f: is_ab(k_))
    ctx.floor("alphabeta calls at the root", len(ab_calls), 3)
    flips = [t["f"].get("decl_args", "") for _, t in ab_calls]
    ctx.ob("root searches the opposite policy", all("<P as chess_engine::Policy>::Flip" in f for f in flips), f"root calls alphabeta with {flips}", site=site, sample=flips[:1])
    inner = [h for h in loops if any(body["blocks"][b]["t"]["k"] == "call" and is_ab(body["blocks"][b]["t"]["f"].get("fn", "")) for b in loops[h])]
    outer = max(loops, key=lambda h: len(loops[h])) if loops else None
    move_loops = [h for h in inner if h != outer]
    ctx.floor("root move loops", len(move_loops), 2)
    for h in move_loops:
        bl = loops[h]
        exits = [(x, s) for x in bl for s in c.succ[x] if s not in bl and body["blocks"][s]["t"]["k"] != "unreachable"]
        for x, s in exits:
            t = body["blocks"][x]["t"]
            d = k2.describe_operand(P, body, t["d"]) if t["k"] == "switch" else None
            why = None
            if d and d[0] == "discr" and d[1][0] == "call" and "Iterator>::next" in d[1][1] and "MoveGen" in d[1][1]:
                vals = [int(v) for v, b in t["tg"] if b == s]
                why = "exhausted" if (vals == [0] or (not vals and all(int(v) != 0 for v, _ in t["tg"]))) else None
                if vals == [0]:
                    why = "exhausted"
            if d and d[0] == "call" and "is_complete" in d[1]:
                vals = [int(v) for v, b in t["tg"] if b == s]
                why = "timeout" if vals != [0] else None
            if d and d[0] == "discr" and d[1][0] == "call" and wr.get(T.strip_generics(d[1][1]), {}).get("form") == "option":
                # the helper answers None exactly when the time limit expired while it searched the move
                vals = [int(v) for v, b in t["tg"] if b == s]
                why = "timeout" if (vals == [0] or (not vals and all(int(v) != 0 for v, _ in t["tg"]))) else None
            ctx.ob(f"loop@{move_loops.index(h)} exit@{exits.index((x, s))}", why is not None, f"a root move loop can be left on {str(d)[:120]}: neither generator exhaustion nor timeout", site=site,
                   sample={"exit": why})


def _unref(d):
    """the place behind `&mut x` / `&mut *(&mut x)` in a k2 description"""
    while True:
        if d[0] == "ref":
            d = d[1]
        elif d[0] == "proj" and all(e == "d" for e in d[2]):
            d = d[1]
        else:
            return d


def _is_better_helper(P, callee, writes=False):
    """callee (as printed at the call site) is a non-pub chess_engine function (&mut Score, Score) -> bool whose every path that returns true has
    P::is_better(*a0, a1) == true."""
    key = T.strip_generics(callee)
    f = P.fns.get(key)
    if not f or f.get("vis") == "pub" or not key.startswith("chess_engine::"):
        return False
    body = P.body(key)
    if body["argc"] != 2 or body["locals"][0]["ty"] != "bool":
        return False
    try:
        lv = T.Engine(P).tabulate(key)
    except T.NotTabulable:
        return False
    def is_ib(t):
        return (t[0] == "app" and t[1].endswith("Policy>::is_better") and len(t[2]) == 2
                and t[2][0] in (("obj", ("param", 0, "a0")), ("deref", ("param", 0, "a0"))) and t[2][1] == ("param", 1, "a1"))
    for l in lv:
        r = l.ret
        under = any(is_ib(c) and v == 1 for c, v in l.cond)
        if writes:
            # ... and on those paths (only) the running best is replaced by the candidate
            w = l.ext.get(("param", 0, "a0"))
            if (w == ("param", 1, "a1")) != under or (w is not None and not under):
                return False
        if is_ib(r):
            continue                                   # returns the comparison itself
        if T.is_const(r) and r[1] == 0:
            continue                                   # returns false
        if T.is_const(r) and r[1] == 1 and under:
            continue                                   # returns true under the comparison
        return False
    return bool(lv)


@rule("C12.R5", "root keeps a move only when strictly better")
def r5(ctx):
    P = ctx.P
    key = P.find_fn("Engine::search_with", "chess_engine")
    body = P.body(key)
    site = body.get("def_span")
    # locals by role, not by name: the running best score of a pass starts at P::WORST_SCORE; a candidate score is what alphabeta returned
    name_of = lambda i: body["locals"][i].get("n")
    score_locals, starts = set(), []
    for blk in body["blocks"]:
        for s in blk["s"]:
            if s["k"] == "assign" and name_of(s["p"]["l"]) and not s["p"]["pj"] and body["locals"][s["p"]["l"]]["ty"] == SCORE:
                d = k2.describe_def(P, body, "stmt", s)
                if d[0] == "uneval":
                    starts.append(d[1])
                    if d[1] == "<P as chess_engine::Policy>::WORST_SCORE":
                        score_locals.add(name_of(s["p"]["l"]))
    ab = P.find_fn("Engine::alphabeta", "chess_engine")
    cand_locals = set()
    for i, l in enumerate(body["locals"]):
        if l.get("n") and l["ty"] == SCORE and any(o[0] == "call" and (T.strip_generics(o[1]) == ab or T.strip_generics(o[1]) in k2.ab_wrappers(P)) for o in k2.origins(P, body, i)):
            cand_locals.add(l["n"])
    # every assignment `<Option<ChessMove> local> = Some(mv)` is guarded by P::is_better(running best, candidate) == true
    n = 0
    for bi, blk in enumerate(body["blocks"]):
        for s in blk["s"]:
            if (s["k"] == "assign" and name_of(s["p"]["l"]) and not s["p"]["pj"] and body["locals"][s["p"]["l"]]["ty"] == "core::option::Option<chess_movegen::ChessMove>"
                    and (lambda d: d[0] == "agg" and d[2] == "Some")(k2.describe_def(P, body, "stmt", s))):
                n += 1
                g = k2.guards_of(P, key, bi)
                calls = k2.guard_calls(g)
                ib = [(c, v) for c, v in calls.items() if c.endswith("Policy>::is_better")]
                ok = False
                if not ib:
                    # the comparison may sit in a private helper `h(&mut best, candidate) -> bool` that returns true only where
                    # P::is_better(*best, candidate) holds (evaluated on the helper's own paths)
                    ib = [(c, (v[0], tuple(_unref(a) for a in v[1]))) for c, v in calls.items() if v[0] is True and len(v[1]) == 2 and _is_better_helper(P, c)]
                if len(ib) == 1 and ib[0][1][0] is True:
                    a0, a1 = ib[0][1][1][0], ib[0][1][1][1]
                    ok = a0[0] == a1[0] == "place" and a0[2] == a1[2] == () and a0[1] in score_locals and a1[1] in cand_locals
                ctx.ob(f"best move update #{n}", ok, f"a root move replaces the best move under {[(T.short(c), v[0]) for c, v in calls.items()]}; expected P::is_better(<running best score>, <score just returned by alphabeta>)",
                       site=site, sample={"guard": "P::is_better(score, new)"})
    ctx.floor("best-move updates", n, 3)
    ctx.ob("pass starts at WORST_SCORE", starts and all(x == "<P as chess_engine::Policy>::WORST_SCORE" for x in starts), f"root score is initialised from {starts}", site=site, sample=starts[:1])


def _fold_sites(P, key):
    """(score locals, candidate locals, update sites) of a function that folds alphabeta results into a running best score.
    An update site is `best = candidate` guarded by P::is_better(best, candidate), or a call of a private helper doing exactly that."""
    body = P.body(key)
    name_of = lambda i: body["locals"][i].get("n")
    score_locals, score_idx = set(), set()      # by name (for descriptions) and by local index (another binding may reuse the name)
    for blk in body["blocks"]:
        for s in blk["s"]:
            if s["k"] == "assign" and name_of(s["p"]["l"]) and not s["p"]["pj"] and body["locals"][s["p"]["l"]]["ty"] == SCORE:
                d = k2.describe_def(P, body, "stmt", s)
                if d[0] == "uneval" and d[1] == "<P as chess_engine::Policy>::WORST_SCORE":
                    score_locals.add(name_of(s["p"]["l"]))
                    score_idx.add(s["p"]["l"])
    ab = P.find_fn("Engine::alphabeta", "chess_engine")
    cand_locals = set()
    for i, l in enumerate(body["locals"]):
        if l.get("n") and l["ty"] == SCORE and l["n"] not in score_locals and any(o[0] == "call" and (T.strip_generics(o[1]) == ab or T.strip_generics(o[1]) in k2.ab_wrappers(P)) for o in k2.origins(P, body, i)):
            cand_locals.add(l["n"])
    good, stray = [], []
    for bi, blk in enumerate(body["blocks"]):
        for s in blk["s"]:
            if s["k"] == "assign" and s["p"]["l"] in score_idx and not s["p"]["pj"]:
                d = k2.describe_def(P, body, "stmt", s)
                if d[0] == "uneval":
                    continue
                if d[0] == "place" and d[1] in score_locals and d[2] == ():
                    continue                            # a finished pass's best becomes the overall best (provenance: C12.R7)
                calls = k2.guard_calls(k2.guards_of(P, key, bi))
                ib = [v for c, v in calls.items() if c.endswith("Policy>::is_better")]
                ok = (d[0] == "place" and d[1] in cand_locals and d[2] == () and len(ib) == 1 and ib[0][0] is True
                      and ib[0][1][0] == ("place", name_of(s["p"]["l"]), ()) and ib[0][1][1] == d)
                (good if ok else stray).append((bi, T.short(str(d))[:80]))
        t_ = blk["t"]
        if t_["k"] == "call" and _is_better_helper(P, (t_["f"].get("fn") or ""), writes=True):
            a = [_unref(k2.describe_operand(P, body, o)) for o in t_["a"]]
            ok = a[0][0] == a[1][0] == "place" and a[0][1] in score_locals and a[1][1] in cand_locals and a[0][2] == a[1][2] == ()
            (good if ok else stray).append((bi, "helper " + T.short(t_["f"].get("fn") or "")))
    return score_locals, cand_locals, good, stray


@rule("C12.R8", "the running best score is replaced by a child's score exactly where P::is_better(best, child) holds (root passes and alphabeta)")
def r8(ctx):
    """The mating move survives the rest of the pass only if the running best really becomes the mate score when it is found, and the children
    return the best of *their* children: a fold that never stores the better score returns the policy's worst score from every inner node (which
    the parent reads as the opponent's best), and lets every later root move replace the mating move."""
    P = ctx.P
    for nm, floor in (("Engine::search_with", 3), ("Engine::alphabeta", 1)):
        key = P.find_fn(nm, "chess_engine")
        ctx.used_body(key)
        sl, cl, good, stray = _fold_sites(P, key)
        site = P.body(key).get("def_span")
        ctx.ob(f"{nm} fold locals", bool(sl) and bool(cl), f"{nm}: running best {sorted(sl)} (initialised from P::WORST_SCORE) / candidates {sorted(cl)} (results of alphabeta) not both found", site=site)
        ctx.ob(f"{nm} stray writes", not stray, f"{nm}: the running best score is also written at {stray[:3]}; expected only `best = child` under P::is_better(best, child)", site=site, sample=len(good))
        ctx.floor(f"{nm} fold updates", len(good), floor)


@rule("C12.R7", "the score search_with reports comes from the search (alphabeta) or is the policy's worst score, never from somewhere else")
def r7(ctx):
    """A mate in one is *reported* as such only if the reported score is the one alphabeta computed for the kept move: a shortcut that returns a
    static evaluation (a 'forced move' fast path, a cached value) reports Raw(..) for a mating move."""
    P = ctx.P
    from rules.C11 import return_sites
    key = P.find_fn("Engine::search_with", "chess_engine")
    ctx.used_body(key)
    body = P.body(key)
    ab = P.find_fn("Engine::alphabeta", "chess_engine")
    rs = return_sites(body)
    ctx.floor("return sites of search_with", len(rs), 1)
    for bi, s in rs:
        r = s["r"]
        if not (r.get("k") == "agg" and r.get("ak") == "tuple" and len(r["ops"]) == 2):
            ctx.ob(f"return@{bi} shape", False, "search_with's result is not built as a (move, score) pair", site=body.get("def_span"))
            continue
        o = r["ops"][1]
        src = k2.origins(P, body, o["p"]["l"], path=k2._field_path(o["p"]["pj"]) or ()) if o.get("k") in ("copy", "move") else {("const", str(k2.describe_operand(P, body, o)))}
        bad = []
        for x in src:
            if x[0] == "call" and (T.strip_generics(x[1]) == ab or T.strip_generics(x[1]) in k2.ab_wrappers(P)):
                continue
            if x[0] == "const" and "WORST_SCORE" in x[1]:
                continue
            bad.append(str(x)[:120])
        ctx.ob(f"return@{bi} score provenance", not bad, f"the score returned by search_with can originate from {bad[:2]}; expected only results of alphabeta (or P::WORST_SCORE when no pass completed)",
               site=body.get("def_span"), sample={"origins": len(src)})


@rule("C12.R6", "premise: the staged move iteration of the search (set_mask / next / len) loses no legal move (C10.R3, C10.R7, C10.R9 re-run)")
def r_premise(ctx):
    from analysis.runner import premise
    premise(ctx, "C10", {'C10.R9', 'C10.R7', 'C10.R3'}, "the search iterates captures first and then re-masks the same generator; that iteration no longer yields every legal move exactly once")



@rule("C12.R90", 'premises shared with other properties: C03 (C03.R4, C03.R5, C03.R6)')
def r_premises_shared(ctx):
    """This property's argument rests on these rules of other properties (what it calls is assumed to behave); they are re-run here so that a
    breakage of one of them is reported by this property's own check as well."""
    from analysis.runner import premise
    premise(ctx, 'C03', ['C03.R4', 'C03.R5', 'C03.R6'] and set(['C03.R4', 'C03.R5', 'C03.R6']), 'mate detection is `no legal move and in check`; the cached check information is no longer exact')


# ------------------------------------------------------------------ controls
def _swap_mate_colors(P):
    key = P.find_fn("Engine::alphabeta", "chess_engine")
    b = P.own("fns", key)
    for blk in b["blocks"]:
        for s in blk["s"]:
            r = s.get("r", {})
            if r.get("k") == "agg" and r.get("adt") == SCORE and r.get("vn") in ("BlackMateIn", "WhiteMateIn"):
                r["vn"] = "WhiteMateIn" if r["vn"] == "BlackMateIn" else "BlackMateIn"


def _insuff_loose(P):
    b = P.own("fns", INSUFF)
    for blk in b["blocks"]:
        for s in blk["s"]:
            r = s.get("r", {})
            if r.get("k") == "bin" and r.get("op") == "Eq" and r["b"].get("c", {}).get("int") == "0":
                r["op"] = "Le"
                r["b"]["c"]["int"] = r["b"]["c"]["bits"] = "1"


def _extra_mate(P):
    b = P.own("fns", ENG + "Engine::eval")
    for blk in b["blocks"]:
        for s in blk["s"]:
            r = s.get("r", {})
            if r.get("k") == "agg" and r.get("adt") == SCORE and r.get("vn") == "Raw":
                r["vn"] = "WhiteMateIn"
                return


def _drop_fold_store(P):
    key = P.find_fn("Engine::alphabeta", "chess_engine")
    b = P.own("fns", key)
    sl, cl, good, stray = _fold_sites(P, key)
    name_of = lambda i: b["locals"][i].get("n")
    for blk in b["blocks"]:
        blk["s"] = [s for s in blk["s"] if not (s["k"] == "assign" and name_of(s["p"]["l"]) in sl and not s["p"]["pj"]
                                                  and (lambda d: d[0] == "place" and d[1] in cl)(k2.describe_def(P, b, "stmt", s)))]


CONTROLS = [
    ("alphabeta never stores the better child score", "C12.R8", _drop_fold_store),
    ("mate colours swapped", "C12.R1", _swap_mate_colors),
    ("dead position: bishops <= 1 instead of == 0", "C12.R3", _insuff_loose),
    ("eval builds a mate score", "C12.R1", _extra_mate),
]
