"""C09 - geometry tables and constants equal their definitions."""
from analysis.runner import rule
from analysis.facts import AnchorError
from analysis import chessref as R

LEVEL = "proof"
EXHAUSTIVE = True
DECIDED = ("R1 every entry of the knight/king/pawn-attack/pawn-push/rook-ray/bishop-ray/between/line/adjacent-file/adjacent-rank tables equals its "
           "geometric definition on the 8x8 grid (no wrap-around; between/line empty for non-aligned pairs); R2 the castling, promotion, back-rank and "
           "double-step constants equal their definitions; R3 each accessor returns the table entry for its arguments and the pawn helpers/distance "
           "compute the stated formula (normalised MIR term).")
NOT_DECIDED = ("'the checked-in tables agree with what the table generator computes' is declined: that needs the generator to run. "
               "The tables are instead proved equal to the definitions the generator is meant to implement.")
EXPLANATION = ("Constant-data rules: the bytes of each static/const are the compiler's own evaluation of the item; each is decoded with the enum "
               "discriminants and layouts from the ADT facts and compared cell by cell with closed-form definitions in analysis/chessref.py.")
TRUSTED_BASE = ["rustc nightly const evaluator", "chessfacts serialiser", "analysis/chessref.py geometry (step/slide/between/line, 60 lines)", "Python rule engine"]

L = "chess_lookup::"


def table64(ctx, key):
    ctx.used_static(key)
    v = ctx.P.value_u64s(key)
    if len(v) != 64:
        raise AnchorError(f"{key}: {len(v)} entries, expected 64")
    return v


@rule("C09.R1", "generated geometry tables equal their definitions, cell by cell")
def r1(ctx):
    P = ctx.P
    g = R.Geo(P)

    def cmp1(key, fn, label):
        t = table64(ctx, key)
        bad = []
        for d in range(64):
            want = g.bb(fn(g.coord[d]))
            if t[d] != want:
                bad.append((g.name(d), f"{label}[{g.name(d)}] = {g.bbs(t[d])}, definition gives {g.bbs(want)}"))
        ctx.bulk(label, 64, bad, f"{label} table differs from its definition", sample={"a1": g.bbs(t[g.sq[(0, 0)]]), "e4": g.bbs(t[g.sq[(4, 3)]])})

    cmp1(L + "knight_moves::MOVES", lambda c: R.step(c, R.KNIGHT_OFFS), "knight_moves")
    cmp1(L + "king_moves::MOVES", lambda c: R.step(c, R.KING_OFFS), "king_moves")
    cmp1(L + "rook_rays::RAYS", lambda c: R.slide(c, R.ROOK_DIRS, ()), "rook_rays")
    cmp1(L + "bishop_rays::RAYS", lambda c: R.slide(c, R.BISHOP_DIRS, ()), "bishop_rays")

    # pawn tables: [[u64; 2]; 64] indexed [pos][color]
    white, black = g.color[0], g.color[1]
    for key, fn, label in ((L + "pawn::PAWN_ATTACKS", R.pawn_attack_squares, "pawn_attacks"), (L + "pawn::PAWN_QUIETS", R.pawn_quiet_squares, "pawn_quiets")):
        ctx.used_static(key)
        t = P.value_u64s(key)
        if len(t) != 128:
            raise AnchorError(f"{key}: {len(t)} words, expected 128")
        bad = []
        for d in range(64):
            for cd, is_white in ((white, True), (black, False)):
                want = g.bb(fn(g.coord[d], is_white))
                got = t[2 * d + cd]
                if got != want:
                    bad.append((f"{g.name(d)},{'W' if is_white else 'B'}", f"{label}[{g.name(d)}][{'White' if is_white else 'Black'}] = {g.bbs(got)}, definition gives {g.bbs(want)}"))
        ctx.bulk(label, 128, bad, f"{label} table differs from its definition", sample={"e2/White": g.bbs(t[2 * g.sq[(4, 1)] + white])})

    # between / line: [[u64; 64]; 64]
    for key, fn, label in ((L + "between::SOLUTIONS", R.between, "between"), (L + "line::SOLUTIONS", R.line, "line")):
        ctx.used_static(key)
        t = P.value_u64s(key)
        if len(t) != 4096:
            raise AnchorError(f"{key}: {len(t)} words, expected 4096")
        bad = []
        for a in range(64):
            for b in range(64):
                want = g.bb(fn(g.coord[a], g.coord[b]))
                if t[64 * a + b] != want:
                    bad.append((f"{g.name(a)},{g.name(b)}", f"{label}[{g.name(a)}][{g.name(b)}] = {g.bbs(t[64*a+b])}, definition gives {g.bbs(want)}"))
        ctx.bulk(label, 4096, bad, f"{label} table differs from its definition", sample={"a1,h8": g.bbs(t[64 * g.sq[(0, 0)] + g.sq[(7, 7)]]), "a1,b3": g.bbs(t[64 * g.sq[(0, 0)] + g.sq[(1, 2)]])})

    # adjacent files / ranks: [BitBoard; 8] indexed by File / Rank discriminant
    for key, label, axis in ((L + "ADJACENT_FILES", "ADJACENT_FILES", 0), (L + "ADJACENT_RANKS", "ADJACENT_RANKS", 1)):
        ctx.used_static(key)
        t = P.value_u64s(key)
        if len(t) != 8:
            raise AnchorError(f"{key}: {len(t)} entries, expected 8")
        enum = g.file if axis == 0 else g.rank
        bad = []
        for i in range(8):
            want = g.bb([(f, r) for f in range(8) for r in range(8) if abs((f, r)[axis] - i) == 1])
            if t[enum[i]] != want:
                bad.append((str(i), f"{label}[{i}] = {g.bbs(t[enum[i]])}, definition gives {g.bbs(want)}"))
        ctx.bulk(label, 8, bad, f"{label} differs from its definition", sample={"0": g.bbs(t[enum[0]])})


def file_bb(g, *fs):
    return g.bb([(f, r) for f in fs for r in range(8)])


def rank_bb(g, *rs):
    return g.bb([(f, r) for r in rs for f in range(8)])


@rule("C09.R2", "hand-written constants equal their definitions")
def r2(ctx):
    P = ctx.P
    g = R.Geo(P)
    W, B = g.color[0], g.color[1]

    def u64c(name):
        ctx.used_static(L + name)
        v = P.value_u64s(L + name)
        return v

    def enumc(name, enum):
        ctx.used_static(L + name)
        inv = {d: m for m, d in enum.items()}
        return [inv.get(x, f"?{x}") for x in P.value_bytes(L + name)]

    def eq(name, got, want, show=lambda x: x):
        ctx.ob(name, got == want, f"{name} is {show(got)}, its definition gives {show(want)}", sample={"value": show(got)})

    def by_color(vals):  # list indexed by colour discriminant -> (white, black)
        return [vals[W], vals[B]]

    bbs = lambda xs: [g.bbs(x) for x in xs]
    eq("PAWN_DOUBLE_SOURCE", u64c("PAWN_DOUBLE_SOURCE"), [rank_bb(g, 1, 6)], bbs)
    eq("PAWN_DOUBLE_DEST", u64c("PAWN_DOUBLE_DEST"), [rank_bb(g, 3, 4)], bbs)
    eq("BACKRANK", by_color(enumc("BACKRANK", g.rank)), [0, 7])
    eq("BACKRANK_BB", by_color(u64c("BACKRANK_BB")), [rank_bb(g, 0), rank_bb(g, 7)], bbs)
    eq("CASTLE_MOVES", u64c("CASTLE_MOVES"), [g.bb([(2, 0), (4, 0), (6, 0), (2, 7), (4, 7), (6, 7)])], bbs)
    eq("PAWN_DOUBLE_MOVE", by_color(u64c("PAWN_DOUBLE_MOVE")), [rank_bb(g, 1, 3), rank_bb(g, 6, 4)], bbs)
    eq("ROOK_CASTLE_QUEENSIDE", u64c("ROOK_CASTLE_QUEENSIDE"), [file_bb(g, 0, 3)], bbs)
    eq("ROOK_CASTLE_KINGSIDE", u64c("ROOK_CASTLE_KINGSIDE"), [file_bb(g, 7, 5)], bbs)
    # indexed by the king's destination file: files a-d -> queen side rook a->d, e-h -> king side rook h->f
    start = enumc("CASTLE_ROOK_START", g.file)
    end = enumc("CASTLE_ROOK_END", g.file)
    eq("CASTLE_ROOK_START", [start[g.file[i]] for i in range(8)], [0, 0, 0, 0, 7, 7, 7, 7])
    eq("CASTLE_ROOK_END", [end[g.file[i]] for i in range(8)], [3, 3, 3, 3, 5, 5, 5, 5])
    eq("PROMOTION_RANK", by_color(enumc("PROMOTION_RANK", g.rank)), [7, 0])
    eq("PAWN_DOUBLE_MOVE_SOURCE_RANK", by_color(enumc("PAWN_DOUBLE_MOVE_SOURCE_RANK", g.rank)), [1, 6])
    eq("PAWN_DOUBLE_MOVE_DEST_RANK", by_color(enumc("PAWN_DOUBLE_MOVE_DEST_RANK", g.rank)), [3, 4])
    eq("KINGSIDE_CASTLE_FILES", u64c("KINGSIDE_CASTLE_FILES"), [file_bb(g, 5, 6)], bbs)
    eq("QUEENSIDE_CASTLE_FILES", u64c("QUEENSIDE_CASTLE_FILES"), [file_bb(g, 1, 2, 3)], bbs)
    eq("KINGSIDE_CASTLE_SAFE_FILES", u64c("KINGSIDE_CASTLE_SAFE_FILES"), [file_bb(g, 5, 6)], bbs)
    eq("QUEENSIDE_CASTLE_SAFE_FILES", u64c("QUEENSIDE_CASTLE_SAFE_FILES"), [file_bb(g, 2, 3)], bbs)


def _perturb_u64(key, word, bit):
    def m(P):
        v = P.own("values", key)
        b = bytearray(bytes.fromhex(v["hex"]))
        b[8 * word + bit // 8] ^= 1 << (bit % 8)
        v["hex"] = b.hex()
    return m


def _perturb_const(P):
    v = P.own("values", L + "QUEENSIDE_CASTLE_SAFE_FILES")
    v["val"] = dict(v["val"])
    v["val"]["bits"] = str(int(v["val"]["bits"]) | 0x0202020202020202)


CONTROLS = [
    ("wrap-around bit in knight_moves[h1]", "C09.R1", _perturb_u64(L + "knight_moves::MOVES", 7, 16)),
    ("non-aligned pair non-empty in between", "C09.R1", _perturb_u64(L + "between::SOLUTIONS", 64 * 0 + 10 + 7, 9)),
    ("queen-side safe files include the b file", "C09.R2", _perturb_const),
]
