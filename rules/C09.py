"""C09 - geometry tables and constants equal their definitions."""
from analysis.runner import rule
from analysis.facts import AnchorError
from analysis import chessref as R

THOROUGH_CONFIGS = ['release', 'nobmi2', 'movegen-alone']
LEVEL = "proof"
EXHAUSTIVE = True
DECIDED = ("R1 every entry of the knight/king/pawn-attack/pawn-push/rook-ray/bishop-ray/between/line/adjacent-file/adjacent-rank tables equals its "
           "geometric definition on the 8x8 grid (no wrap-around; between/line empty for non-aligned pairs); R2 the castling, promotion, back-rank and "
           "double-step constants equal their definitions; R3 each accessor returns the table entry for its arguments and the pawn helpers/distance "
           "compute the stated formula (normalised MIR term).")
DECIDED = DECIDED + ' The pawn helpers (pawn_attacks, pawn_attacks_moves, pawn_quiets, pawn_moves) are decided by evaluating their extracted summaries on every square, both colours and a set of occupancies containing the blocking squares, against the pawn rules (captures only onto occupied squares, a push blocked by any piece, the double step by either square).'
DECIDED = DECIDED + ' R90 premises re-run here: C19 C19.R6.'
NOT_DECIDED = ("'the checked-in tables agree with what the table generator computes' is declined: that needs the generator to run. "
               "The tables are instead proved equal to the definitions the generator is meant to implement.")
EXPLANATION = ("Constant-data rules: the bytes of each static/const are the compiler's own evaluation of the item; each is decoded with the enum "
               "discriminants and layouts from the ADT facts and compared cell by cell with closed-form definitions in analysis/chessref.py.")
TRUSTED_BASE = ["rustc nightly const evaluator", "chessfacts serialiser", "analysis/chessref.py geometry (step/slide/between/line, 60 lines)", "Python rule engine"]

L = "chess_lookup::"


def table64(ctx, key):
    ctx.used_static(key)
    v = ctx.P.value_u64s(key)
    if len(v) != 64:
        raise AnchorError(f"{key}: {len(v)} entries, expected 64")
    return v


@rule("C09.R1", "generated geometry tables equal their definitions, cell by cell")
def r1(ctx):
    P = ctx.P
    g = R.Geo(P)

    def cmp1(key, fn, label):
        t = table64(ctx, key)
        bad = []
        for d in range(64):
            want = g.bb(fn(g.coord[d]))
            if t[d] != want:
                bad.append((g.name(d), f"{label}[{g.name(d)}] = {g.bbs(t[d])}, definition gives {g.bbs(want)}"))
        ctx.bulk(label, 64, bad, f"{label} table differs from its definition", sample={"a1": g.bbs(t[g.sq[(0, 0)]]), "e4": g.bbs(t[g.sq[(4, 3)]])})

    cmp1(L + "knight_moves::MOVES", lambda c: R.step(c, R.KNIGHT_OFFS), "knight_moves")
    cmp1(L + "king_moves::MOVES", lambda c: R.step(c, R.KING_OFFS), "king_moves")
    cmp1(L + "rook_rays::RAYS", lambda c: R.slide(c, R.ROOK_DIRS, ()), "rook_rays")
    cmp1(L + "bishop_rays::RAYS", lambda c: R.slide(c, R.BISHOP_DIRS, ()), "bishop_rays")

    # pawn tables: [[u64; 2]; 64] indexed [pos][color]
    white, black = g.color[0], g.color[1]
    for key, fn, label in ((L + "pawn::PAWN_ATTACKS", R.pawn_attack_squares, "pawn_attacks"), (L + "pawn::PAWN_QUIETS", R.pawn_quiet_squares, "pawn_quiets")):
        ctx.used_static(key)
        t = P.value_u64s(key)
        if len(t) != 128:
            raise AnchorError(f"{key}: {len(t)} words, expected 128")
        bad = []
        for d in range(64):
            for cd, is_white in ((white, True), (black, False)):
                want = g.bb(fn(g.coord[d], is_white))
                got = t[2 * d + cd]
                if got != want:
                    bad.append((f"{g.name(d)},{'W' if is_white else 'B'}", f"{label}[{g.name(d)}][{'White' if is_white else 'Black'}] = {g.bbs(got)}, definition gives {g.bbs(want)}"))
        ctx.bulk(label, 128, bad, f"{label} table differs from its definition", sample={"e2/White": g.bbs(t[2 * g.sq[(4, 1)] + white])})

    # between / line: [[u64; 64]; 64]
    for key, fn, label in ((L + "between::SOLUTIONS", R.between, "between"), (L + "line::SOLUTIONS", R.line, "line")):
        ctx.used_static(key)
        t = P.value_u64s(key)
        if len(t) != 4096:
            raise AnchorError(f"{key}: {len(t)} words, expected 4096")
        bad = []
        for a in range(64):
            for b in range(64):
                want = g.bb(fn(g.coord[a], g.coord[b]))
                if t[64 * a + b] != want:
                    bad.append((f"{g.name(a)},{g.name(b)}", f"{label}[{g.name(a)}][{g.name(b)}] = {g.bbs(t[64*a+b])}, definition gives {g.bbs(want)}"))
        ctx.bulk(label, 4096, bad, f"{label} table differs from its definition", sample={"a1,h8": g.bbs(t[64 * g.sq[(0, 0)] + g.sq[(7, 7)]]), "a1,b3": g.bbs(t[64 * g.sq[(0, 0)] + g.sq[(1, 2)]])})

    # adjacent files / ranks: [BitBoard; 8] indexed by File / Rank discriminant
    for key, label, axis in ((L + "ADJACENT_FILES", "ADJACENT_FILES", 0), (L + "ADJACENT_RANKS", "ADJACENT_RANKS", 1)):
        ctx.used_static(key)
        t = P.value_u64s(key)
        if len(t) != 8:
            raise AnchorError(f"{key}: {len(t)} entries, expected 8")
        enum = g.file if axis == 0 else g.rank
        bad = []
        for i in range(8):
            want = g.bb([(f, r) for f in range(8) for r in range(8) if abs((f, r)[axis] - i) == 1])
            if t[enum[i]] != want:
                bad.append((str(i), f"{label}[{i}] = {g.bbs(t[enum[i]])}, definition gives {g.bbs(want)}"))
        ctx.bulk(label, 8, bad, f"{label} differs from its definition", sample={"0": g.bbs(t[enum[0]])})


def file_bb(g, *fs):
    return g.bb([(f, r) for f in fs for r in range(8)])


def rank_bb(g, *rs):
    return g.bb([(f, r) for r in rs for f in range(8)])


@rule("C09.R2", "hand-written constants equal their definitions")
def r2(ctx):
    P = ctx.P
    g = R.Geo(P)
    W, B = g.color[0], g.color[1]

    def u64c(name):
        ctx.used_static(L + name)
        v = P.value_u64s(L + name)
        return v

    def enumc(name, enum):
        ctx.used_static(L + name)
        inv = {d: m for m, d in enum.items()}
        return [inv.get(x, f"?{x}") for x in P.value_bytes(L + name)]

    def eq(name, got, want, show=lambda x: x):
        ctx.ob(name, got == want, f"{name} is {show(got)}, its definition gives {show(want)}", sample={"value": show(got)})

    def by_color(vals):  # list indexed by colour discriminant -> (white, black)
        return [vals[W], vals[B]]

    bbs = lambda xs: [g.bbs(x) for x in xs]
    eq("PAWN_DOUBLE_SOURCE", u64c("PAWN_DOUBLE_SOURCE"), [rank_bb(g, 1, 6)], bbs)
    eq("PAWN_DOUBLE_DEST", u64c("PAWN_DOUBLE_DEST"), [rank_bb(g, 3, 4)], bbs)
    eq("BACKRANK", by_color(enumc("BACKRANK", g.rank)), [0, 7])
    eq("BACKRANK_BB", by_color(u64c("BACKRANK_BB")), [rank_bb(g, 0), rank_bb(g, 7)], bbs)
    eq("CASTLE_MOVES", u64c("CASTLE_MOVES"), [g.bb([(2, 0), (4, 0), (6, 0), (2, 7), (4, 7), (6, 7)])], bbs)
    eq("PAWN_DOUBLE_MOVE", by_color(u64c("PAWN_DOUBLE_MOVE")), [rank_bb(g, 1, 3), rank_bb(g, 6, 4)], bbs)
    eq("ROOK_CASTLE_QUEENSIDE", u64c("ROOK_CASTLE_QUEENSIDE"), [file_bb(g, 0, 3)], bbs)
    eq("ROOK_CASTLE_KINGSIDE", u64c("ROOK_CASTLE_KINGSIDE"), [file_bb(g, 7, 5)], bbs)
    # indexed by the king's destination file: files a-d -> queen side rook a->d, e-h -> king side rook h->f
    start = enumc("CASTLE_ROOK_START", g.file)
    end = enumc("CASTLE_ROOK_END", g.file)
    eq("CASTLE_ROOK_START", [start[g.file[i]] for i in range(8)], [0, 0, 0, 0, 7, 7, 7, 7])
    eq("CASTLE_ROOK_END", [end[g.file[i]] for i in range(8)], [3, 3, 3, 3, 5, 5, 5, 5])
    eq("PROMOTION_RANK", by_color(enumc("PROMOTION_RANK", g.rank)), [7, 0])
    eq("PAWN_DOUBLE_MOVE_SOURCE_RANK", by_color(enumc("PAWN_DOUBLE_MOVE_SOURCE_RANK", g.rank)), [1, 6])
    eq("PAWN_DOUBLE_MOVE_DEST_RANK", by_color(enumc("PAWN_DOUBLE_MOVE_DEST_RANK", g.rank)), [3, 4])
    eq("KINGSIDE_CASTLE_FILES", u64c("KINGSIDE_CASTLE_FILES"), [file_bb(g, 5, 6)], bbs)
    eq("QUEENSIDE_CASTLE_FILES", u64c("QUEENSIDE_CASTLE_FILES"), [file_bb(g, 1, 2, 3)], bbs)
    eq("KINGSIDE_CASTLE_SAFE_FILES", u64c("KINGSIDE_CASTLE_SAFE_FILES"), [file_bb(g, 5, 6)], bbs)
    eq("QUEENSIDE_CASTLE_SAFE_FILES", u64c("QUEENSIDE_CASTLE_SAFE_FILES"), [file_bb(g, 2, 3)], bbs)


def _perturb_u64(key, word, bit):
    def m(P):
        v = P.own("values", key)
        b = bytearray(bytes.fromhex(v["hex"]))
        b[8 * word + bit // 8] ^= 1 << (bit % 8)
        v["hex"] = b.hex()
    return m


def _perturb_const(P):
    v = P.own("values", L + "QUEENSIDE_CASTLE_SAFE_FILES")
    v["val"] = dict(v["val"])
    v["val"]["bits"] = str(int(v["val"]["bits"]) | 0x0202020202020202)


@rule("C09.R90", 'premises shared with other properties: C19 (C19.R6)')
def r_premises_shared(ctx):
    """This property's argument rests on these rules of other properties (what it calls is assumed to behave); they are re-run here so that a
    breakage of one of them is reported by this property's own check as well."""
    from analysis.runner import premise
    premise(ctx, 'C19', ['C19.R6'] and set(['C19.R6']), 'Pos::all() feeds the table definitions; its iterator now overrides a method nobody audited')


CONTROLS = [
    ("wrap-around bit in knight_moves[h1]", "C09.R1", _perturb_u64(L + "knight_moves::MOVES", 7, 16)),
    ("non-aligned pair non-empty in between", "C09.R1", _perturb_u64(L + "between::SOLUTIONS", 64 * 0 + 10 + 7, 9)),
    ("queen-side safe files include the b file", "C09.R2", _perturb_const),
]


# ------------------------------------------------------------------ R3: accessors (K4 terms)
from analysis import terms as T


def _static(name):
    return ("obj", ("static", L + name))


def _idx(*ps):
    return tuple(("cast", "usize", ("discr", p)) for p in ps)


def _bb(w):
    return ("adt", "chess_bitboard::BitBoard", "BitBoard", (w,))


@rule("C09.R3", "accessors return their table entry; pawn helpers and distance compute the stated formula")
def r3(ctx):
    P = ctx.P
    g = R.Geo(P)
    eng = T.Engine(P, opaque={"chess_bitboard::pos::Pos::rank", "chess_bitboard::pos::Pos::file"})
    pos, a, b = ("param", 0, "a0"), ("param", 0, "a0"), ("param", 1, "a1")

    def nest(table, *idx):
        t = _static(table)
        for i in idx:
            t = ("index", t, i)
        return t

    simple = {
        "rook_rays": _bb(nest("rook_rays::RAYS", *_idx(pos))),
        "bishop_rays": _bb(nest("bishop_rays::RAYS", *_idx(pos))),
        "knight_moves": _bb(nest("knight_moves::MOVES", *_idx(pos))),
        "king_moves": _bb(nest("king_moves::MOVES", *_idx(pos))),
        "between": _bb(nest("between::SOLUTIONS", *_idx(a, b))),
        "line": _bb(nest("line::SOLUTIONS", *_idx(a, b))),
    }
    for fn, want in simple.items():
        key = "chess_lookup::" + fn
        ctx.used_body(key)
        rets = {lf.ret for lf in eng.tabulate(key)}
        ctx.ob(f"accessor {fn}", rets == {want}, f"{fn} returns {[T.show(r)[:200] for r in rets]}; expected {T.show(want)}", site=P.body(key).get("def_span"), sample=T.show(want))

    # pawn helpers: the extracted summaries are evaluated for every square, both colours and a set of occupancies that contains, for each
    # square, the empty board, the full board, the single-step and the double-step square alone and together, and pseudo-random boards
    from analysis.effects import sample_words
    POS = g.pos_key
    pos_names = {d: nme for nme, d in P.enum_variants(POS)}
    COLOR = "chess_bitboard::color::Color"
    col_names = {d: nme for nme, d in P.enum_variants(COLOR)}
    W, B = g.color[0], g.color[1]

    def ref(fn, c, white, occ):
        att = g.bb([x for x in R.pawn_attack_squares(c, white)])
        if fn == "pawn_attacks_moves":
            return att
        if fn == "pawn_attacks":
            return att & occ
        qs = R.pawn_quiet_squares(c, white)
        quiet = 0
        if qs and not (occ >> g.sq[qs[0]]) & 1:
            quiet |= 1 << g.sq[qs[0]]
            if len(qs) > 1 and not (occ >> g.sq[qs[1]]) & 1:
                quiet |= 1 << g.sq[qs[1]]
        return quiet if fn == "pawn_quiets" else (quiet | (att & occ))
    for fn in ("pawn_attacks", "pawn_attacks_moves", "pawn_quiets", "pawn_moves"):
        key = "chess_lookup::" + fn
        ctx.used_body(key)
        body = P.body(key)
        leaves = eng.tabulate(key)
        prm = [("param", i, body["locals"][i + 1]["n"]) for i in range(body["argc"])]
        bad, n = [], 0
        for d, c in g.coord.items():
            for cd, white in ((W, True), (B, False)):
                qs = R.pawn_quiet_squares(c, white)
                occs = [0, (1 << 64) - 1] + [1 << g.sq[q] for q in qs] + ([(1 << g.sq[qs[0]]) | (1 << g.sq[qs[1]])] if len(qs) > 1 else []) + sample_words()[-6:]
                if fn == "pawn_attacks_moves":
                    occs = [0]
                for occ in occs:
                    env = {prm[0]: ("adt", POS, pos_names[d], ()), ("discr", prm[0]): T.I(d, "isize"), prm[1]: ("adt", COLOR, col_names[cd], ()), ("discr", prm[1]): T.I(cd, "isize")}
                    if len(prm) > 2:
                        env[("field", prm[2], "0")] = T.I(occ, "u64")
                    res = T.eval_table(eng, leaves, env)
                    n += 1
                    w = res[3][0] if isinstance(res, tuple) and res and res[0] == "adt" and res[3] else res
                    got = w[1] if T.is_const(w) else None
                    want = ref(fn, c, white, occ)
                    if got != want and len(bad) < 6:
                        bad.append((f"{g.name(d)},{'White' if white else 'Black'},{occ:#x}", f"{fn}({g.name(d)}, {'White' if white else 'Black'}, occupancy {occ:#x}) = "
                                    f"{hex(got) if got is not None else T.show(res)[:80]}, the rules give {want:#x}"))
        ctx.bulk(fn, n, bad, f"{fn} differs from the pawn rules (pushes blocked by any piece, the double step by either square; captures only onto occupied squares)", sample={"evaluations": n})

    key = "chess_lookup::distance"
    ctx.used_body(key)
    rets = {lf.ret for lf in eng.tabulate(key)}
    rk = lambda p: ("cast", "u8", ("discr", ("app", "chess_bitboard::pos::Pos::rank", (p,))))
    fl = lambda p: ("cast", "u8", ("discr", ("app", "chess_bitboard::pos::Pos::file", (p,))))
    srt = lambda *xs: tuple(sorted(xs, key=repr))
    want = ("max",) + srt(("abs_diff",) + srt(rk(a), rk(b)), ("abs_diff",) + srt(fl(a), fl(b)))
    from analysis.effects import index_chain, strip_casts
    ic = index_chain(list(rets)[0]) if len(rets) == 1 else None
    if ic and len(ic[1]) == 2 and [strip_casts(x) for x in ic[1]] == [("discr", a), ("discr", b)] and ic[0] in P.values:
        # table-based implementation: check the table itself against the definition
        raw = P.value_bytes(ic[0])
        w = len(raw) // 4096 if len(raw) % 4096 == 0 else 0
        bad = []
        for x in range(64):
            for y in range(64):
                got = int.from_bytes(raw[(64 * x + y) * w:(64 * x + y + 1) * w], "little") if w else None
                cx, cy = g.coord[x], g.coord[y]
                d = max(abs(cx[0] - cy[0]), abs(cx[1] - cy[1]))
                if got != d:
                    bad.append((f"{g.name(x)},{g.name(y)}", f"{ic[0]}[{g.name(x)}][{g.name(y)}] = {got}, Chebyshev distance is {d}"))
        ctx.bulk("distance (table form)", 4096, bad, "distance table differs from max(|dr|, |df|)")
        return
    ctx.ob("distance", rets == {want}, f"distance returns {[T.show(r)[:200] for r in rets]}; expected max(|rank a - rank b|, |file a - file b|)", site=P.body(key).get("def_span"),
           sample=T.show(want))


def _attacks_wrong_color(P):
    b = P.own("fns", "chess_lookup::pawn_attacks_moves")
    for blk in b["blocks"]:
        t = blk["t"]
        if t["k"] == "call" and "color::Color>" in t["f"].get("fn", "") and t["a"]:
            # index by a constant colour instead of the parameter
            t["a"][1] = {"k": "const", "ty": "chess_bitboard::color::Color", "c": {"int": "0", "bits": "0", "sz": 1}}


def _distance_min(P):
    b = P.own("fns", "chess_lookup::distance")
    for blk in b["blocks"]:
        t = blk["t"]
        if t["k"] == "call" and t["f"].get("fn", "").endswith("::max"):
            t["f"]["fn"] = t["f"]["fn"][:-3] + "min"
            t["f"]["fn_args"] = t["f"].get("fn_args", "").replace("::max", "::min")


CONTROLS.append(("distance uses min", "C09.R3", _distance_min))
