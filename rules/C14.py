"""C14 - scores form a total order matching game-theoretic preference."""
import itertools
from analysis.runner import rule
from analysis.effects import subterms
from analysis.facts import AnchorError
from analysis import terms as T

THOROUGH_CONFIGS = ['release', 'nobmi2', 'engine-alone']
LEVEL = "proof"
EXHAUSTIVE = True
DECIDED = ("<Score as Ord>::cmp is extracted from MIR as a 5x5 decision table over the variants of both operands (callees kind() and the derived "
           "ScoreKind::cmp inlined). Payloads occur only as arguments of the primitive integer Ord::cmp, so the verdict for ALL u16/i32 payloads "
           "reduces to the weak orderings of the payloads involved; over 15x15 pairs and 15^3 triples (variant x payload rank 0..2) the checker proves "
           "reflexivity, antisymmetry, transitivity, totality, the stated preference order (Min < BlackMateIn(.) < Raw(.) < WhiteMateIn(.) < Max, quicker white "
           "mate greater, slower black mate greater, Raw by value), cmp==Equal iff structurally equal (PartialEq is the derived one), and "
           "partial_cmp == Some(cmp). The engine's users (is_better, update_cutoff, the alpha-beta cutoff test) resolve to these impls.")
DECIDED = DECIDED + ' R5 `<`, `<=`, `>`, `>=` (and max/min/clamp) of Score are the provided methods, or overrides defined through cmp / partial_cmp that answer true exactly on the right orderings.'
DECIDED = DECIDED + ' R90 premises re-run here: C12 C12.R1; C16 C16.R3.'
NOT_DECIDED = "nothing of the statement; trusted: rustc's MIR for the impl, primitive integer ordering, the table extractor"
EXPLANATION = ("Decision-table extraction (K4): constants and copies are propagated through the loop-free body, splitting only on enum discriminants; "
               "the resulting table is compared with the specification order on an abstraction that is exact because payloads are only ever compared.")
TRUSTED_BASE = ["rustc nightly MIR builder", "chessfacts serialiser", "analysis/terms.py (propagation + std models for integer Ord::cmp)", "Python rule engine"]

SCORE = "chess_engine::score::Score"
SPEC_RANK = {"Min": 0, "BlackMateIn": 1, "Raw": 2, "WhiteMateIn": 3, "Max": 4}


def cmp_table(ctx, key, wrap_some=False):
    """{(va, vb): cell}; cell = 'Less'|'Equal'|'Greater'|('cmp', dir) with dir +1 (self,other) / -1 (other,self)."""
    P = ctx.P
    ctx.used_body(key)
    eng = T.Engine(P)
    allv = eng.tabulate(key, keep_panics=True)
    leaves = [lf for lf in allv if lf.ret[0] != "panic"]
    # a self-check (`debug_assert!(fact about constants, ..)`): a condition over constants only whose other outcome panics is not a case split
    asserted = {(t, 1 - v) for lf in allv if lf.ret[0] == "panic" for t, v in lf.cond[-1:] if v in (0, 1) and not any(s_[0] == "param" for s_ in subterms(t))}
    a0, a1 = ("obj", ("param", 0, P.body(key)["locals"][1].get("n", "arg0"))), ("obj", ("param", 1, P.body(key)["locals"][2].get("n", "arg1")))
    table = {}
    for lf in leaves:
        va = vb = None
        for t, v in lf.cond:
            if t == ("discr", a0):
                va = v
            elif t == ("discr", a1):
                vb = v
            elif (t, v) in asserted:
                continue
            else:
                raise AnchorError(f"{key}: branch on something other than the operands' variants: {T.show(t)}")
        ret = lf.ret
        if wrap_some:
            if not (ret[0] == "adt" and ret[2] == "Some"):
                table[(va, vb)] = ("bad", T.show(ret))
                continue
            ret = ret[3][0]
        if ret[0] == "adt" and ret[1] == "core::cmp::Ordering":
            cell = ret[2]
        elif ret[0] == "cmp":
            x, y = ret[1], ret[2]
            if x == ("vfield", a0, va, 0) and y == ("vfield", a1, vb, 0):
                cell = ("cmp", 1)
            elif x == ("vfield", a1, vb, 0) and y == ("vfield", a0, va, 0):
                cell = ("cmp", -1)
            else:
                cell = ("bad", T.show(ret))
        else:
            cell = ("bad", T.show(ret))
        if (va, vb) in table and table[(va, vb)] != cell:
            cell = ("bad", "two different results for one variant pair")
        table[(va, vb)] = cell
    return table


def eval_cell(cell, pa, pb):
    if cell in ("Less", "Equal", "Greater"):
        return {"Less": -1, "Equal": 0, "Greater": 1}[cell]
    if cell[0] == "cmp":
        return ((pa > pb) - (pa < pb)) * cell[1]
    return None


def spec_key(v, p):
    if v == "BlackMateIn":
        return (SPEC_RANK[v], p)
    if v == "WhiteMateIn":
        return (SPEC_RANK[v], -p)
    if v == "Raw":
        return (SPEC_RANK[v], p)
    return (SPEC_RANK[v], 0)


@rule("C14.R1", "Score variants and payload types are the five the order is stated over; PartialEq is derived (structural)")
def r1(ctx):
    P = ctx.P
    adt = P.adt(SCORE)
    got = {v["name"]: [f["ty"] for f in v["fields"]] for v in adt["variants"]}
    want = {"Min": [], "BlackMateIn": ["u16"], "Raw": ["i32"], "WhiteMateIn": ["u16"], "Max": []}
    ctx.ob("variants", got == want, f"Score variants are {got}, the order is specified over {want}", sample=got)
    eq = P.body(f"<{SCORE} as core::cmp::PartialEq>::eq")
    ctx.ob("PartialEq-derived", bool(eq.get("derived")), "PartialEq for Score is hand-written; its agreement with cmp is not established by the derive",
           site=eq.get("def_span"), sample={"derived": bool(eq.get("derived"))})


@rule("C14.R2", "cmp table: total order, matches the stated preference, Equal iff structurally equal (all payloads)")
def r2(ctx):
    key = f"<{SCORE} as core::cmp::Ord>::cmp"
    tab = cmp_table(ctx, key)
    variants = list(SPEC_RANK)
    site = ctx.P.body(key).get("def_span")
    ok_cells = True
    for va in variants:
        for vb in variants:
            cell = tab.get((va, vb))
            good = cell is not None and not (isinstance(cell, tuple) and cell[0] == "bad")
            if isinstance(cell, tuple) and cell[0] == "cmp" and va != vb:
                good = False
            ctx.ob(f"cell[{va},{vb}]", good, f"cmp({va}, {vb}) is not a constant or a comparison of the two payloads: {cell}", site=site,
                   sample={"cell": cell} if (va, vb) in (("WhiteMateIn", "WhiteMateIn"), ("Raw", "Min")) else None)
            ok_cells &= good
    if not ok_cells:
        return
    vals = [(v, p) for v in variants for p in ((0, 1, 2) if v in ("BlackMateIn", "Raw", "WhiteMateIn") else (0,))]

    def c(a, b):
        return eval_cell(tab[(a[0], b[0])], a[1], b[1])

    bad_pairs, n = [], 0
    for a in vals:
        for b in vals:
            n += 1
            r = c(a, b)
            want = (spec_key(*a) > spec_key(*b)) - (spec_key(*a) < spec_key(*b))
            if r != want:
                bad_pairs.append((f"{a}/{b}", f"cmp({a[0]}#{a[1]}, {b[0]}#{b[1]}) = {r}, stated preference gives {want} (payload ranks: larger # = larger payload)"))
            if r != -c(b, a):
                bad_pairs.append((f"{a}/{b}:antisym", f"cmp({a},{b}) = {r} but cmp({b},{a}) = {c(b, a)}"))
            if (r == 0) != (a == b):
                bad_pairs.append((f"{a}/{b}:eq", f"cmp({a},{b}) == Equal is {r == 0} but structural equality is {a == b}"))
    ctx.bulk("pairs: preference, antisymmetry, Equal<->==", n, bad_pairs, "score comparison disagrees with the stated order",
             sample={"pairs": n, "abstract_values": len(vals)})
    bad_tr, n = [], 0
    for a, b, d in itertools.product(vals, repeat=3):
        n += 1
        if c(a, b) <= 0 and c(b, d) <= 0 and not c(a, d) <= 0:
            bad_tr.append((f"{a}/{b}/{d}", f"{a} <= {b} <= {d} but cmp({a},{d}) = {c(a, d)}"))
        if c(a, b) < 0 and c(b, d) <= 0 and not c(a, d) < 0:
            bad_tr.append((f"{a}/{b}/{d}:strict", f"{a} < {b} <= {d} but cmp({a},{d}) = {c(a, d)}"))
    ctx.bulk("triples: transitivity", n, bad_tr, "score comparison is not transitive", sample={"triples": n})


@rule("C14.R3", "partial_cmp == Some(cmp) for every variant pair")
def r3(ctx):
    tab = cmp_table(ctx, f"<{SCORE} as core::cmp::Ord>::cmp")
    ptab = cmp_table(ctx, f"<{SCORE} as core::cmp::PartialOrd>::partial_cmp", wrap_some=True)
    bad = [(f"{k}", f"partial_cmp{k} = {ptab.get(k)} but cmp = {tab[k]}") for k in tab if ptab.get(k) != tab[k]]
    ctx.bulk("partial_cmp", len(tab), bad, "partial_cmp disagrees with cmp", sample={"cells": len(tab)})


@rule("C14.R5", "the comparison operators are the provided ones (or defined through cmp): `<`, `<=`, `>`, `>=`, max, min, clamp cannot disagree with cmp")
def r5(ctx):
    """partial_cmp == Some(cmp) settles `<` .. `>=` only while they are the provided methods; an override with its own table (a 'fast path')
    can disagree on a corner although cmp, partial_cmp and == are all right."""
    P = ctx.P
    want = {"lt": {"Less"}, "le": {"Less", "Equal"}, "gt": {"Greater"}, "ge": {"Greater", "Equal"}}
    n = 0
    for tr, names in (("core::cmp::PartialOrd", ("lt", "le", "gt", "ge")), ("core::cmp::Ord", ("max", "min", "clamp"))):
        for m_ in names:
            k = f"<{SCORE} as {tr}>::{m_}"
            if k not in P.fns:
                continue
            n += 1
            ctx.used_body(k)
            ok = False
            if m_ in want:
                cmpk, pk = f"<{SCORE} as core::cmp::Ord>::cmp", f"<{SCORE} as core::cmp::PartialOrd>::partial_cmp"
                try:
                    lv = T.Engine(P, opaque={cmpk, pk}).tabulate(k)
                except T.NotTabulable:
                    lv = []
                # every path: decided by the variant cmp / partial_cmp returned, true exactly on the wanted orderings
                seen = {}
                ok = bool(lv)
                for lf in lv:
                    ds = [(t_, v) for t_, v in lf.cond if t_[0] == "discr"]
                    others = [c for c in lf.cond if c[0][0] != "discr"]
                    ords = [v for t_, v in ds if isinstance(v, str) and v in ("Less", "Equal", "Greater")]
                    if others or len(ords) != 1 or not T.is_const(lf.ret):
                        ok = False
                        break
                    seen[ords[0]] = bool(lf.ret[1])
                ok = ok and all(seen.get(o, None) == (o in want[m_]) for o in ("Less", "Equal", "Greater"))
            ctx.ob(f"Score::{m_} override", ok, f"{k} overrides the provided method and is not defined through cmp: it can disagree with the order", site=P.body(k).get("def_span"))
    ctx.ob("comparison operators provided", True, "", sample={"overrides": n})


@rule("C14.R4", "users of the order resolve to these impls (best-move update, cutoff update, cutoff test)")
def r4(ctx):
    P = ctx.P
    # which comparison each user makes is C13.R1 / C12; here: it is made through Score's own order impls, not through a re-derived one
    users = ["<chess_engine::White as chess_engine::Policy>::is_better", "<chess_engine::Black as chess_engine::Policy>::is_better",
             "<chess_engine::White as chess_engine::Policy>::update_cutoff", "<chess_engine::Black as chess_engine::Policy>::update_cutoff"]
    impls = (f"<{SCORE} as core::cmp::PartialOrd>::", f"<{SCORE} as core::cmp::Ord>::")
    for fn in users:
        ctx.used_body(fn)
        calls = [t["f"].get("fn_args", t["f"].get("decl_args")) for _, t in P.calls(fn)]
        calls = [c for c in calls if c and ("cmp::" in c)]
        ctx.ob(f"{fn.split('::')[1].split(' ')[0]}::{fn.rsplit('::',1)[1]}", bool(calls) and all(c.startswith(impls) for c in calls),
               f"{fn} compares scores through {calls}, expected the PartialOrd/Ord impls of Score", site=P.body(fn).get("def_span"), sample={"calls": calls})
    ab = P.find_fn("Engine::alphabeta", "chess_engine")
    ctx.used_body(ab)
    calls = [t["f"].get("fn_args", "") for _, t in P.calls(ab)]
    ctx.ob("alphabeta cutoff test", any(c.startswith(impls[0]) and c.rsplit("::", 1)[1] in ("le", "ge", "lt", "gt") for c in calls),
           "alphabeta's cutoff test does not go through <Score as PartialOrd>", site=P.body(ab).get("def_span"), sample={"cmp": True})


# ---------------------------------------------------------------- perturbation controls
def _swap_white_mate_args(P):
    b = P.own("fns", f"<{SCORE} as core::cmp::Ord>::cmp")
    for blk in b["blocks"]:
        t = blk["t"]
        if t["k"] == "call" and "for u16>::cmp" in t["f"].get("fn", ""):
            # the WhiteMateIn arm is the one whose first argument derives from `other`; swapping makes both mate arms same-direction
            t["a"].reverse()


def _kind_swap(P):
    b = P.own("fns", "chess_engine::score::Score::kind")
    for blk in b["blocks"]:
        for s in blk["s"]:
            r = s.get("r", {})
            if r.get("k") == "agg" and r.get("vn") in ("Min", "BlackMateIn"):
                r["vn"] = "BlackMateIn" if r["vn"] == "Min" else "Min"


def _partial_none(P):
    b = P.own("fns", f"<{SCORE} as core::cmp::PartialOrd>::partial_cmp")
    for blk in b["blocks"]:
        for s in blk["s"]:
            r = s.get("r", {})
            if r.get("k") == "agg" and r.get("vn") == "Some":
                r["vn"], r["v"], r["ops"] = "None", 0, []


@rule("C14.R90", 'premises shared with other properties: C12 (C12.R1); C16 (C16.R3)')
def r_premises_shared(ctx):
    """This property's argument rests on these rules of other properties (what it calls is assumed to behave); they are re-run here so that a
    breakage of one of them is reported by this property's own check as well."""
    from analysis.runner import premise
    premise(ctx, 'C12', ['C12.R1'] and set(['C12.R1']), 'a quicker mate outranks a slower one only if the payload of a mate score is the distance in plies')
    premise(ctx, 'C16', ['C16.R3'] and set(['C16.R3']), 'scores cross the plugin boundary; the sentinels and mates no longer decode to themselves')


CONTROLS = [
    ("swap the operands of both u16 payload comparisons", "C14.R2", _swap_white_mate_args),
    ("swap Min/BlackMateIn in Score::kind", "C14.R2", _kind_swap),
    ("partial_cmp returns None", "C14.R3", _partial_none),
]
