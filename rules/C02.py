"""C02 - applying a legal move yields the correct successor position."""
from analysis.runner import rule
from analysis.effects import canon, acnorm
from analysis.facts import AnchorError
from analysis import terms as T, k2, makemove as M
from analysis import chessref as R
from analysis.cfg import cfg_of
from analysis.effects import subterms, strip_casts

THOROUGH_CONFIGS = ['release', 'nobmi2', 'movegen-alone']
LEVEL = "other"
DECIDED = ("R1 the per-square castling-right masks equal their definition for all 128 (colour, square) cells; R2-R5 the make-move skeleton, checked on EVERY path of "
           "move_unchecked_into up to the slider loop (120 paths over piece kind x capture x promotion x double step x en passant x castling side x colour): "
           "the set of board toggles is exactly {mover's piece on source^dest} + {captured piece of the opponent on dest, if any} + {pawn off / promoted piece on at dest, "
           "if promoting} + {opponent pawn on (dest file, mover's en-passant pawn rank), if capturing en passant} + {mover's rook on backrank & the castling side's rook files, "
           "if castling}; castling rights are reduced by (opponent, dest) and (mover, source); side to move flips; the en-passant marker is cleared and set to the destination "
           "file exactly on a non-promoting pawn double step; the half-move clock is 0 on a capture or pawn move and old+1 otherwise; the full-move number grows by 1 exactly "
           "after Black; R6 the checked operations call the unchecked one only under is_legal(mv) of the same board and move, and on refusal store nothing and return false/None.")
DECIDED = DECIDED + " R1/R2 also: the castling rights of the successor are read off the final value of the field - the mover's rights and-ed with exactly the masks (opponent, dest) and (mover, source) - whatever helper did it (`&mut self` method, by-value method returning Self, code in place); every function that reads the per-square mask table computes rights & MASK[colour][square]."
DECIDED = DECIDED + ' R7 PromotionPiece::to_piece and From<PromotionPiece> for Piece map every variant to the Piece of the same name (evaluated on the four variants; match or table form).'
DECIDED = DECIDED + ' R8 the accessors the summary keeps opaque are evaluated: piece_of_unchecked / color_of over every membership case, king_sq = member of colors[c] & kings, enpassant_pos = ep().map(file on the capture rank of the side to move), get / piece_of = composition of the two.'
DECIDED = DECIDED + ' R9 equality of ChessMove is field-by-field (derived, or a hand-written impl evaluated over all field-equality combinations), and Pos / PromotionPiece equality is derived or a discriminant comparison: the legality gate `legals().any(|m| m == mv)` cannot identify two different moves.'
NOT_DECIDED = ("that the xor arithmetic on concrete boards yields the prescribed placement for every legal move (the semantics of the toggles on real positions, e.g. that "
               "`mv_bb & PAWN_DOUBLE_MOVE[turn] == mv_bb` holds exactly for double steps, rests on C09's constants and on legality of the move); "
               "'accept exactly the legal moves' reduces to C01 through R6")
EXPLANATION = ("K1 for the mask table; K4 path enumeration of the make-move body with helpers opaque and their calls recorded, frame information taken from the helpers' own "
               "effect summaries; each path's assumptions (conditions) are classified and its effects compared with the rule of chess for that case; K2 for the legality gate.")

MG = "chess_movegen::"
CR = MG + "castle_rights::"
COLOR = "chess_bitboard::color::Color"
PIECE = "chess_bitboard::piece::Piece"


@rule("C02.R1", "CASTLE_RIGHTS_PER_SQ equals its definition (all 128 cells)")
def r1(ctx):
    P = ctx.P
    g = R.Geo(P)
    key = CR + "CASTLE_RIGHTS_PER_SQ"
    ctx.used_static(key)
    raw = P.value_bytes(key)
    if len(raw) != 128:
        raise AnchorError(f"{key}: {len(raw)} bytes, expected 128")
    # bit of (side, colour) from castle_rights::offset = side + 2*colour, read from its K4 term
    eng = T.Engine(P)
    lv = eng.tabulate(CR + "offset")
    side, color = ("param", 0, "a0"), ("param", 1, "a1")
    want_off = eng.binop("Add", ("cast", "u32", ("discr", side)), eng.binop("Mul", ("cast", "u32", ("discr", color)), T.I(2, "u32")))
    ctx.ob("offset formula", len(lv) == 1 and lv[0].ret == want_off, f"castle_rights::offset is {[T.show(l.ret) for l in lv]}, expected side + 2*colour", sample=T.show(want_off))
    bit = lambda s, c: 1 << (g.side[s] + 2 * g.color[c])
    home = {0: {(0, 0): bit("Q", 0), (7, 0): bit("K", 0), (4, 0): bit("Q", 0) | bit("K", 0)},
            1: {(0, 7): bit("Q", 1), (7, 7): bit("K", 1), (4, 7): bit("Q", 1) | bit("K", 1)}}
    bad = []
    for c in (0, 1):
        for sq, d in g.sq.items():
            got = raw[64 * g.color[c] + d]
            want = 0xFF & ~home[c].get(sq, 0)
            # only the low four bits are meaningful (`&=` on a value < 16)
            if (got & 0xF) != (want & 0xF):
                bad.append((f"{'WB'[c]},{g.name(d)}", f"mask[{'White' if c == 0 else 'Black'}][{g.name(d)}] keeps rights {got & 0xF:04b}, definition keeps {want & 0xF:04b} (bit = side + 2*colour)"))
    ctx.bulk("CASTLE_RIGHTS_PER_SQ", 128, bad, "castling-right mask differs from its definition", sample={"a1/White": bin(raw[64 * g.color[0] + g.sq[(0, 0)]] & 0xF)})
    # whoever applies the per-square masks (a `&mut self` method, a by-value method returning Self, ...) computes rights & MASK[colour][square]
    import json as _json
    appliers = sorted(k for k, b in P.fns.items() if b["crate"] == "chess_movegen" and "::{" not in k and k != M.KEY and ('"static": "%s"' % key) in _json.dumps(b["blocks"]))
    for ak in appliers:
        lv = eng.tabulate(ak)
        rb = P.body(ak)
        prm = [("param", i, rb["locals"][i + 1].get("n", f"arg{i}")) for i in range(rb["argc"])]
        ok = False
        if len(lv) == 1 and len(prm) == 3:
            slf = prm[0]
            by_ref = rb["locals"][1]["ty"].startswith("&")
            old_w = ("field", ("obj", slf), "0") if by_ref else ("field", slf, "0")
            v = eng.freeze(lv[0].state, lv[0].ext.get(slf, ("obj", slf))) if by_ref else lv[0].ret
            try:
                new = T.get_path(v, (("f", 0, "0", None),))
            except Exception:
                new = ("unreadable",)
            tab = ("field", ("index", ("index", ("obj", ("static", key)), ("cast", "usize", ("discr", prm[1]))), ("cast", "usize", ("discr", prm[2]))), "0")
            ok = canon(new) == canon(eng.binop("BitAnd", old_w, tab))
        ctx.ob(f"per-square mask applied by {T.short(ak)}", ok, f"{ak} does not compute rights & CASTLE_RIGHTS_PER_SQ[colour][square]", site=rb.get("def_span"), sample="rights & TABLE[colour][square].0")


def const_u64s(P, name):
    return P.value_u64s("chess_lookup::" + name)


def describe_color(t, p):
    if t == ("field", ("obj", ("param", 0, "self")), "turn"):
        return p.turn
    if t[0] == "adt" and t[1] == COLOR:
        return t[2]
    return "?" + T.show(t)[:40]


def describe_piece(t):
    if t[0] == "adt" and t[1] == PIECE:
        return t[2]
    if t[0] == "app" and t[1].endswith("piece_of_unchecked") and t[2][1] == ("field", ("param", 1, "a1"), "source"):
        return "moved"
    if t[0] == "vfield" and t[2] == "Some" and t[1][0] == "app" and t[1][1].endswith("RawBoard::piece_of") and t[1][2][1] == ("field", ("param", 1, "a1"), "dest"):
        return "captured"
    if t[0] == "app" and t[1].endswith("to_piece") and t[2][0] == ("vfield", ("field", ("param", 1, "a1"), "piece"), "Some", 0):
        return "promoted"
    return "?" + T.show(t)[:60]


def bit_of(sq_term):
    return ("bin", "Shl", T.I(1, "u64"), ("cast", "u8", ("discr", sq_term)))


def describe_diff(t, p, eng):
    mv = ("param", 1, "a1")
    src, dst = ("field", mv, "source"), ("field", mv, "dest")
    w = t[3][0] if t[0] == "adt" else t
    if w == eng.binop("BitXor", bit_of(src), bit_of(dst)):
        return "src^dst"
    if w == bit_of(dst):
        return "dst"
    if T.is_const(w):
        return ("const", w[1])
    if w[0] == "bin" and w[1] == "Shl" and w[2] == T.I(1, "u64"):
        s = strip_casts(w[3])
        s = s[1] if s[0] == "discr" else s
        if s[0] == "app" and s[1].endswith("Pos::new"):
            f, r = s[2]
            if f == ("app", "chess_bitboard::pos::Pos::file", (dst,)) and r[0] == "app" and r[1].endswith("enpassant_pawn_rank"):
                return ("ep_victim", describe_color(r[2][0], p))
    return "?" + T.show(w)[:80]


def other(c):
    return "Black" if c == "White" else "White"


def facts_of(p, consts):
    kind = p.kind or "other"
    masks = getattr(p, "masks", {})
    double = None
    for k, v in masks.items():
        if k in consts["double"]:
            double = v
    castles = None
    for k, v in masks.items():
        if k == consts["castle_moves"]:
            castles = v
    return kind, double, castles


@rule("C02.R2", "board toggles and castling-right updates on every path of make-move")
def r2(ctx):
    P = ctx.P
    g = R.Geo(P)
    r = M.analyse(P)
    ctx.used_body(M.KEY)
    site = P.body(M.KEY).get("def_span")
    eng = r["engine"]
    W, B = g.color[0], g.color[1]
    dm = const_u64s(P, "PAWN_DOUBLE_MOVE")
    consts = {"double": {dm[W], dm[B]}, "castle_moves": const_u64s(P, "CASTLE_MOVES")[0]}
    backrank = const_u64s(P, "BACKRANK_BB")
    rook_k, rook_q = const_u64s(P, "ROOK_CASTLE_KINGSIDE")[0], const_u64s(P, "ROOK_CASTLE_QUEENSIDE")[0]
    ctx.floor("make-move paths", len(r["paths"]), 100)
    ctx.ob("frame of Board::xor", r["mod_xor"] == {"raw", "zobrist"}, f"Board::xor modifies fields {r['mod_xor']}; expected only raw and zobrist", sample=sorted(r["mod_xor"] or []))
    n = 0
    for p in r["paths"]:
        n += 1
        kind, double, castles = facts_of(p, consts)
        me, opp = p.turn, other(p.turn)
        cidx = W if me == "White" else B
        exp = [(me, "moved", "src^dst")]
        if p.captured == "Some":
            exp.append((opp, "captured", "dst"))
        if kind == "Pawn" and p.promo == "Some":
            exp += [(me, "Pawn", "dst"), (me, "promoted", "dst")]
        if kind == "Pawn" and p.promo == "None" and double is False and p.ep:
            exp.append((opp, "Pawn", ("ep_victim", me)))
        if kind == "King" and castles:
            exp.append((me, "Rook", ("const", backrank[cidx] & (rook_k if p.side == "King" else rook_q))))
        got, rights = [], []
        for c in p.calls:
            a = c[2]
            if c[1] == M.XOR:
                got.append((describe_color(a[1], p), describe_piece(a[2]), describe_diff(a[3], p, eng)))
        base_n = 0
        for rr in p.rights:
            if rr[0] == "base":
                base_n += 1
            elif rr[0] == "mask":
                ct = rr[1]
                col = ({W: "White", B: "Black"}.get(ct[1], "?") if T.is_const(ct) else describe_color(ct[1] if ct[0] == "discr" else ct, p))
                sq = rr[2][1] if rr[2][0] == "discr" else rr[2]
                rights.append((col, "dest" if sq == ("field", ("param", 1, "a1"), "dest") else "source" if sq == ("field", ("param", 1, "a1"), "source") else "?"))
            else:
                rights.append(("?", T.show(rr[1])[:60]))
        if base_n != 1:
            rights.append(("?", f"the mover's own rights appear {base_n} times"))
        label = f"{me} {kind} cap={p.captured} promo={p.promo} double={double} ep={p.ep} castles={castles}/{p.side}"
        key = f"toggles[{label}]#{n}"
        ctx.ob(key, sorted(map(str, got)) == sorted(map(str, exp)), f"make-move ({label}) toggles {got}; the rules prescribe {exp}", site=site,
               sample={"case": label, "toggles": [str(x) for x in got]} if n in (1, 40, 90) else None)
        ctx.ob(f"rights[{label}]#{n}", sorted(rights) == sorted([(opp, "dest"), (me, "source")]),
               f"make-move ({label}) reduces castling rights by {rights}; expected (opponent, dest) and (mover, source)", site=site)


@rule("C02.R3", "clocks, side to move and en-passant marker on every path of make-move")
def r3(ctx):
    P = ctx.P
    g = R.Geo(P)
    r = M.analyse(P)
    site = P.body(M.KEY).get("def_span")
    W, B = g.color[0], g.color[1]
    dm = const_u64s(P, "PAWN_DOUBLE_MOVE")
    consts = {"double": {dm[W], dm[B]}, "castle_moves": const_u64s(P, "CASTLE_MOVES")[0]}
    slf = ("obj", ("param", 0, "self"))
    n = 0
    for p in r["paths"]:
        n += 1
        kind, double, castles = facts_of(p, consts)
        me, opp = p.turn, other(p.turn)
        label = f"{me} {kind} cap={p.captured} promo={p.promo} double={double} ep={p.ep}"
        turn = M.field_at_loop(p, "turn")
        ctx.ob(f"turn[{label}]#{n}", turn == ("adt", COLOR, opp, ()), f"after a {me} move the side to move is {T.show(turn)}", site=site)
        hm = M.field_at_loop(p, "half_move_clock")
        old = ("field", slf, "half_move_clock")
        if p.captured == "Some" or kind == "Pawn":
            ok = hm == T.I(0, "u16")
            want = "0"
        else:
            ok = hm in (("sat_add", old, T.I(1, "u16")), ("bin", "Add", old, T.I(1, "u16")), ("bin", "Add", T.I(1, "u16"), old))
            want = "old + 1"
        ctx.ob(f"half-move clock[{label}]#{n}", ok, f"make-move ({label}) sets the half-move clock to {T.show(hm)[:80]}; the rules prescribe {want}", site=site,
               sample={"case": label, "clock": T.show(hm)[:60]} if n in (2, 60) else None)
        fm = M.field_at_loop(p, "full_move_clock")
        oldf = ("field", slf, "full_move_clock")
        inc = 1 if me == "Black" else 0
        ok = fm in (("sat_add", oldf, T.I(inc, "u16")), ("bin", "Add", oldf, T.I(inc, "u16")), ("bin", "Add", T.I(inc, "u16"), oldf)) or (inc == 0 and fm == oldf)
        ctx.ob(f"full-move number[{label}]#{n}", ok, f"make-move by {me} changes the full-move number to {T.show(fm)[:80]}; expected old + {inc}", site=site)
        ep = M.field_at_loop(p, "enpassant_target")
        if kind == "Pawn" and p.promo == "None" and double:
            fc = [v for t, v in getattr(p, "other", []) if t[0] == "discr" and t[1][0] == "app" and t[1][1].endswith("Pos::file") and t[1][2][0] == ("field", ("param", 1, "a1"), "dest")]
            ok = ep[0] == "adt" and ep[1] == MG + "OptionalFile" and len(fc) == 1 and ep[2] == fc[0]
            want = f"file of the destination ({fc})"
        else:
            ok = ep == ("adt", MG + "OptionalFile", "None", ())
            want = "None"
        ctx.ob(f"en-passant marker[{label}]#{n}", ok, f"make-move ({label}) leaves the en-passant marker {T.show(ep)}; the rules prescribe {want}", site=site,
               sample={"case": label, "marker": T.show(ep)} if n in (3, 70) else None)
    # the double-step test is `mv_bb & PAWN_DOUBLE_MOVE[turn] == mv_bb` with the mover's own entry
    used = set()
    for p in r["paths"]:
        for k in getattr(p, "masks", {}):
            if k in consts["double"]:
                used.add((p.turn, k))
    ctx.ob("double-step mask per colour", used == {("White", dm[W]), ("Black", dm[B])}, f"double-step masks used per mover: {sorted(used)}; expected White->ranks 2|4, Black->ranks 7|5", site=site)


@rule("C02.R6", "checked move operations: legality gate, same board and move, nothing stored on refusal")
def r6(ctx):
    P = ctx.P
    is_legal = MG + "Board::is_legal"
    for fn, unchecked, refusal in (("move_into", "move_unchecked_into", T.FALSE), ("move_mut", "move_unchecked_mut", T.FALSE), ("move_new", "move_unchecked", T.OPT_NONE)):
        key = MG + "Board::" + fn
        ctx.used_body(key)
        body = P.body(key)
        # a checked wrapper may be written in terms of another checked wrapper (move_mut via move_new, ...): those are inlined, and
        # whichever unchecked operation is finally reached is the one the gate is about
        UNCHECKED = {MG + "Board::" + u for u in ("move_unchecked", "move_unchecked_mut", "move_unchecked_into")}
        eng = T.Engine(P, opaque={is_legal} | UNCHECKED)
        eng.trace_calls = set(UNCHECKED)
        leaves = eng.tabulate(key)
        gate_ok, refuse_ok, n_acc = True, True, 0
        for lf in leaves:
            conds = [(t, v) for t, v in lf.cond if t[0] == "app" and t[1] == is_legal]
            if len(conds) != 1:
                gate_ok = False
                continue
            (t, v), = conds
            a = t[2]
            same = a[0] in (("refv", ("obj", ("param", 0, "self"))), ("param", 0, "self")) and a[1] == ("param", 1, "a1")
            calls = [c for c in lf.trace if c[0] == "call"]
            if v == 1:
                n_acc += 1
                ok_call = len(calls) == 1 and calls[0][2][1] == ("param", 1, "a1")
                gate_ok &= same and ok_call
            else:
                stores = [b for b in lf.ext if b in (("param", 0, "self"), ("param", 2, "a2"))]
                ret = lf.ret
                for t2, v2 in lf.cond:          # `let legal = is_legal(mv); ... legal`: the result is the tested value itself
                    if t2 == ret and v2 in (0, 1):
                        ret = T.TRUE if v2 else T.FALSE
                refuse_ok &= same and not calls and not stores and ret == refusal
        ctx.ob(f"{fn} gate", gate_ok and n_acc == 1, f"{fn}: the unchecked operation is not called exactly under is_legal(mv) == true of the same board and move", site=body.get("def_span"),
               sample={"paths": len(leaves)})
        ctx.ob(f"{fn} refusal", refuse_ok, f"{fn}: on an illegal move something is stored or the result is not {T.show(refusal)}", site=body.get("def_span"))
    for fn in ("move_unchecked", "move_unchecked_mut", "move_unchecked_into"):
        b = P.body(MG + "Board::" + fn)
        ctx.ob(f"{fn} is unsafe fn", bool(b.get("unsafe")), f"Board::{fn} is a safe fn: the legality precondition is no longer a caller obligation the compiler enforces", site=b.get("def_span"))
    # move_unchecked / _mut forward the same move to move_unchecked_into
    for fn in ("move_unchecked", "move_unchecked_mut"):
        key = MG + "Board::" + fn
        cs = k2.call_sites(P, key, MG + "Board::move_unchecked_into")
        ctx.ob(f"{fn} forwards", len(cs) == 1, f"Board::{fn} does not forward to move_unchecked_into exactly once", site=P.body(key).get("def_span"))
    # is_legal = membership in legals() of the same board
    key = is_legal
    ctx.used_body(key)
    calls = [t["f"].get("fn") for _, t in P.calls(key)]
    legals = MG + "iter::<impl chess_movegen::Board>::legals"
    ctx.ob("is_legal = membership", legals in calls and any("Iterator" in (c or "") and c.endswith("::any") for c in calls),
           f"is_legal is not `self.legals().any(|m| m == mv)`: calls {calls}", site=P.body(key).get("def_span"), sample={"calls": [T.short(c or '') for c in calls]})
    ck = key + "::{closure#0}"
    if ck in P.fns:
        lv = T.Engine(P).tabulate(ck)
        flds = set()
        for lf in lv:
            for t, _ in lf.cond:
                for s in subterms(t):
                    if s[0] == "field" and s[2] in ("source", "dest", "piece"):
                        flds.add(s[2])
            for s in subterms(lf.ret):
                if s[0] == "field" and s[2] in ("source", "dest", "piece"):
                    flds.add(s[2])
        ctx.ob("is_legal compares all of the move", flds == {"source", "dest", "piece"}, f"is_legal's membership test compares only {sorted(flds)} of (source, dest, piece)",
               site=P.body(ck).get("def_span"), sample=sorted(flds))
    else:
        ctx.ob("is_legal compares all of the move", False, "is_legal has no membership closure")


@rule("C02.R7", "the promotion piece placed is the one the move names: PromotionPiece -> Piece conversions evaluated on every variant")
def r7(ctx):
    """make-move places `promotion.to_piece()` (kept opaque in the path summary): the conversion - a match, a table lookup, anything - must map each
    PromotionPiece to the Piece of the same name.  Perft cannot see a swapped pair (both under-promotions are always generated together)."""
    P = ctx.P
    PP, PC = "chess_bitboard::piece::PromotionPiece", "chess_bitboard::piece::Piece"
    keys = [k for k in (PP + "::to_piece", f"<{PC} as core::convert::From<{PP}>>::from") if k in P.fns]
    ctx.floor("promotion piece conversions", len(keys), 1)
    eng = T.Engine(P)
    for k in keys:
        ctx.used_body(k)
        lv = eng.tabulate(k, keep_panics=True)
        prm = ("param", 0, P.body(k)["locals"][1].get("n", "a0"))
        bad = []
        for n, _ in P.enum_variants(PP):
            try:
                r = T.eval_table(eng, lv, {prm: ("adt", PP, n, ())})
            except Exception as e:
                r = ("unevaluable", type(e).__name__)
            if r != ("adt", PC, n, ()):
                bad.append((n, f"{T.short(k)}({n}) = {T.show(r) if isinstance(r, tuple) else r}, expected Piece::{n}"))
        ctx.bulk(f"{T.short(k)[:60]} on every variant", len(P.enum_variants(PP)), bad, "a promotion piece is converted to a different piece",
                 sample={"variants": [n for n, _ in P.enum_variants(PP)]})


@rule("C02.R8", "the board accessors the make-move summary keeps opaque: king square, piece / colour on a square, en-passant square")
def r8(ctx):
    """The path summary of make-move trusts these small functions; each is evaluated here: the set memberships (a square is in exactly one piece
    set and one colour set) over every case, the others as terms."""
    P = ctx.P
    g = R.Geo(P)
    RB, BD = MG + "raw::RawBoard", MG + "Board"
    CONT = "chess_bitboard::BitBoard::contains"
    PC, CO = "chess_bitboard::piece::Piece", "chess_bitboard::color::Color"
    pidx = {d: n for n, d in P.enum_variants(PC)}
    cidx = {d: n for n, d in P.enum_variants(CO)}
    OPQ = {CONT, "chess_bitboard::BitBoard::pop_unchecked", BD + "::ep", "chess_bitboard::pos::Pos::new", "chess_bitboard::color::Color::enpassant_capture_rank",
           RB + "::color_of", RB + "::piece_of_unchecked"}
    slf, pos = ("param", 0, "self"), ("param", 1, "a1")

    def members(bbterm, fieldname):
        """indices i such that the set term is the union of self.<fieldname>[i] (None if it is anything else)"""
        w = bbterm[3][0] if bbterm[0] == "adt" else ("field", bbterm, "0")
        parts, work = [], [w]
        while work:
            x = work.pop()
            if x[0] == "bin" and x[1] == "BitOr":
                work += [x[2], x[3]]
            else:
                parts.append(x)
        out = set()
        for x in parts:
            if x[0] == "field" and x[2] in ("0", 0) and x[1][0] == "index" and x[1][1] == ("field", ("obj", slf), fieldname) and T.is_const(x[1][2]):
                out.add(x[1][2][1])
            else:
                return None
        return out

    def decide(key, fieldname, cases, want):
        """evaluate the membership tests of `key` for every case (the one index the square belongs to, or None)"""
        ctx.used_body(key)
        lv = T.Engine(P, opaque=OPQ - {key}).tabulate(key)
        bad = []
        for case in cases:
            hits = []
            for lf in lv:
                ok = True
                for t_, v in lf.cond:
                    if t_[0] == "app" and t_[1] == CONT and t_[2][1] == pos:
                        ms = members(t_[2][0], fieldname)
                        if ms is None:
                            ok = None
                            break
                        if (case in ms) != bool(v):
                            ok = False
                            break
                    elif t_[0] == "assert":
                        continue
                    else:
                        ok = None
                        break
                if ok is None:
                    bad.append((str(case), f"{T.short(key)}: a path tests something other than membership of the square in {fieldname}[..]: {T.show_cond(lf.cond)[:120]}"))
                    break
                if ok:
                    hits.append(lf.ret)
            else:
                if len(hits) != 1 or hits[0] != want(case):
                    bad.append((str(case), f"{T.short(key)} with the square in {fieldname}[{case}] only returns {[T.show(h) for h in hits]}, expected {T.show(want(case))}"))
        ctx.bulk(f"{T.short(key)} on every case", len(cases), bad, "an accessor names the wrong set", sample={"cases": len(cases)})

    decide(RB + "::piece_of_unchecked", "pieces", sorted(pidx), lambda i: ("adt", PC, pidx[i], ()))
    decide(RB + "::color_of", "colors", sorted(cidx) + [None],
           lambda i: T.OPT_NONE if i is None else ("adt", "core::option::Option", "Some", (("adt", CO, cidx[i], ()),)))
    # king_sq(c): the (only) member of colors[c] & pieces[King]
    k = BD + "::king_sq"
    ctx.used_body(k)
    eng = T.Engine(P, opaque=OPQ)
    lv = [lf for lf in eng.tabulate(k)]
    board = ("obj", slf)
    kd = [d for d, n in pidx.items() if n == "King"][0]
    want = eng.binop("BitAnd", ("field", ("index", ("field", ("field", board, "raw"), "colors"), ("cast", "usize", ("discr", pos))), "0"),
                     ("field", ("index", ("field", ("field", board, "raw"), "pieces"), T.I(kd, "usize")), "0"))
    ok = len(lv) == 1 and lv[0].ret[0] == "app" and lv[0].ret[1].endswith("pop_unchecked")
    if ok:
        a = lv[0].ret[2][0]
        a = a[1] if a[0] in ("refv", "ref") else a
        w = a[3][0] if a[0] == "adt" else a
        ok = canon(w) == canon(want)
    ctx.ob("king_sq", ok, f"king_sq(colour) is {[T.show(l.ret)[:140] for l in lv]}; expected the member of colors[colour] & pieces[King]", site=P.body(k).get("def_span"), sample="pop(colors[c] & kings)")
    # enpassant_pos: the marked file on the capture rank of the side to move
    k = BD + "::enpassant_pos"
    if k in P.fns:
        ctx.used_body(k)
        lv = eng.tabulate(k)
        epv = ("app", BD + "::ep", (("refv", board),))
        want_some = ("adt", "core::option::Option", "Some", (("app", "chess_bitboard::pos::Pos::new", (("vfield", epv, "Some", 0), ("app", "chess_bitboard::color::Color::enpassant_capture_rank", (("field", board, "turn"),)))),))
        got = {dict(((t_, v) for t_, v in lf.cond if t_ == ("discr", epv))).get(("discr", epv)): lf.ret for lf in lv}
        ctx.ob("enpassant_pos", got == {"None": T.OPT_NONE, "Some": want_some}, f"enpassant_pos is {[(k_, T.show(v)[:120]) for k_, v in got.items()]}; expected ep().map(|f| Pos::new(f, turn.enpassant_capture_rank()))",
               site=P.body(k).get("def_span"))
    # the en-passant marker is stored as OptionalFile and read back as Option<File>: both conversions keep the file (evaluated on all 9 values)
    OF, FL = MG + "OptionalFile", "chess_bitboard::pos::File"
    some = lambda x: ("adt", "core::option::Option", "Some", (x,))
    for k in sorted(k_ for k_ in P.fns if "OptionalFile" in k_ and "core::convert::From<" in k_ and k_.endswith("::from")):
        ctx.used_body(k)
        lv = eng.tabulate(k, keep_panics=True)
        prm = ("param", 0, P.body(k)["locals"][1].get("n", "a0"))
        to_opt = P.body(k)["locals"][0]["ty"].startswith("core::option::Option")
        bad = []
        for n, _ in [(None, None)] + list(P.enum_variants(FL)):
            arg = (("adt", OF, n or "None", ())) if to_opt else (T.OPT_NONE if n is None else some(("adt", FL, n, ())))
            want = (T.OPT_NONE if n is None else some(("adt", FL, n, ()))) if to_opt else ("adt", OF, n or "None", ())
            try:
                r = T.eval_table(eng, lv, {prm: arg})
            except Exception as e:
                r = ("unevaluable", type(e).__name__)
            if r != want:
                bad.append((str(n), f"{T.short(k)[:70]}({T.show(arg)}) = {T.show(r) if isinstance(r, tuple) else r}, expected {T.show(want)}"))
        ctx.bulk(f"{'OptionalFile -> Option<File>' if to_opt else 'Option<File> -> OptionalFile'} on every value", 9, bad, "the en-passant file changes in a conversion")
    # get(pos) = color_of(pos).map(|c| (c, piece_of_unchecked(pos)));  piece_of likewise
    for k, second in ((RB + "::get", True), (RB + "::piece_of", False)):
        if k not in P.fns:
            continue
        ctx.used_body(k)
        lv = eng.tabulate(k)
        cov = ("app", RB + "::color_of", (("refv", ("obj", slf)), pos))
        pov = ("app", RB + "::piece_of_unchecked", (("refv", ("obj", slf)), pos))
        payload = ("tuple", (("vfield", cov, "Some", 0), pov)) if second else pov
        got = {dict(((t_, v) for t_, v in lf.cond if t_ == ("discr", cov))).get(("discr", cov)): lf.ret for lf in lv}
        ctx.ob(T.short(k), got == {"None": T.OPT_NONE, "Some": ("adt", "core::option::Option", "Some", (payload,))},
               f"{k} is {[(k_, T.show(v)[:120]) for k_, v in got.items()]}; expected None on an empty square, else the colour / piece found there", site=P.body(k).get("def_span"))


@rule("C02.R9", "the legality gate compares moves structurally: equality of ChessMove (and of its field types) is field-by-field")
def r9(ctx):
    """is_legal(mv) is `legals().any(|m| m == mv)`: with an equality that identifies two different moves (a packed key in which `None` and
    `Some(Knight)` collide, a comparison that leaves the promotion piece out) the gate lets an illegal move through to move_unchecked."""
    P = ctx.P
    CM = MG + "ChessMove"
    ok, why = k2.structural_eq(P, f"<{CM} as core::cmp::PartialEq>::eq", CM)
    ctx.ob("ChessMove equality", ok, f"ChessMove::eq is not field-by-field equality: {why}", site=P.body(f"<{CM} as core::cmp::PartialEq>::eq").get("def_span"), sample=why)
    for ty in ("chess_bitboard::pos::Pos", "chess_bitboard::piece::PromotionPiece"):
        k = f"<{ty} as core::cmp::PartialEq>::eq"
        b = P.fns.get(k)
        good = b is not None and bool(b.get("derived"))
        if b is not None and not good:
            lv = T.Engine(P).tabulate(k)
            a0, a1 = ("obj", ("param", 0, b["locals"][1].get("n", "self"))), ("obj", ("param", 1, b["locals"][2].get("n", "a1")))
            good = len(lv) == 1 and not lv[0].cond and lv[0].ret[0] == "bin" and lv[0].ret[1] == "Eq" and {strip_casts(lv[0].ret[2]), strip_casts(lv[0].ret[3])} == {("discr", a0), ("discr", a1)}
        ctx.ob(f"{ty.rsplit('::', 1)[1]} equality", good, f"{k} is neither derived nor a comparison of the two discriminants", site=(b or {}).get("def_span"))
    hk = f"<{CM} as core::hash::Hash>::hash"
    if hk in P.fns:
        ctx.ob("ChessMove hash", bool(P.fns[hk].get("derived")) or ok, "ChessMove has a hand-written Hash next to a non-structural Eq", site=P.fns[hk].get("def_span"))


# ------------------------------------------------------------------ controls
def _mask_cell(P):
    v = P.own("values", CR + "CASTLE_RIGHTS_PER_SQ")
    b = bytearray(bytes.fromhex(v["hex"]))
    b[7] = 0xFF     # h1 for White no longer clears the king-side right
    v["hex"] = b.hex()


def _clock_no_reset(P):
    b = P.own("fns", M.KEY)
    done = False
    for blk in b["blocks"]:
        for s in blk["s"]:
            if (not done and s["k"] == "assign" and s["p"]["pj"] and isinstance(s["p"]["pj"][-1], dict) and s["p"]["pj"][-1].get("n") == "half_move_clock"
                    and s["r"].get("k") == "use" and s["r"]["o"].get("k") == "const"):
                s["r"]["o"]["c"]["int"] = s["r"]["o"]["c"]["bits"] = "1"
                done = True


def _gate_negated(P):
    b = P.own("fns", MG + "Board::move_mut")
    for blk in b["blocks"]:
        t = blk["t"]
        if t["k"] == "switch" and len(t["tg"]) == 1:
            t["tg"][0][1], t["o"] = t["o"], t["tg"][0][1]


def _capture_wrong_color(P):
    b = P.own("fns", M.KEY)
    # second call to Board::xor (the capture) passes self.turn instead of !self.turn: retarget its colour operand to the first xor's
    xs = [blk["t"] for blk in b["blocks"] if blk["t"]["k"] == "call" and blk["t"]["f"].get("fn") == M.XOR]
    if len(xs) >= 2:
        xs[1]["a"][1] = xs[0]["a"][1]


CONTROLS = [
    ("h1 no longer clears White's king-side right", "C02.R1", _mask_cell),
    ("first clock reset stores 1", "C02.R3", _clock_no_reset),
    ("move_mut gate negated", "C02.R6", _gate_negated),
    ("captured piece removed from the mover's colour", "C02.R2", _capture_wrong_color),
]
