//! K6 compile-fail witnesses. Nothing here is executed: every block is either `compile_fail,<code>` (the type checker
//! must reject it with exactly that error) or its `no_run` twin, which differs only by the offending line and must compile
//! (so a witness cannot pass because a path or a name is merely wrong).

/// C04/C02: the position hash field is private; outside code cannot desynchronise it from the pieces.
/// ```compile_fail,E0616
/// let mut b = chess_movegen::Board::standard();
/// b.{{field chess_movegen::Board u64}} = 0;
/// let _ = b;
/// ```
/// ```no_run
/// let mut b = chess_movegen::Board::standard();
/// let _ = b;
/// ```
pub mod c04_zobrist_field_private {}

/// C04/C02: the piece sets can be read through `raw()` but not written from outside.
/// ```compile_fail,E0616
/// let mut b = chess_movegen::Board::standard();
/// b.{{field chess_movegen::Board chess_movegen::raw::RawBoard}} = *chess_movegen::Board::standard().raw();
/// ```
/// ```no_run
/// let mut b = chess_movegen::Board::standard();
/// let _ = *chess_movegen::Board::standard().raw();
/// ```
pub mod c04_raw_field_private {}

/// C04: `raw()` returns `&RawBoard` (E0308 if asked for `&mut`).
/// ```compile_fail,E0308
/// let b = chess_movegen::Board::standard();
/// let r: &mut chess_movegen::raw::RawBoard = b.raw();
/// let _ = r;
/// ```
/// ```no_run
/// let b = chess_movegen::Board::standard();
/// let r: &chess_movegen::raw::RawBoard = b.raw();
/// let _ = r;
/// ```
pub mod c04_raw_shared_only {}

/// C03: the cached `checkers` / `pinned` sets are private.
/// ```compile_fail,E0616
/// let mut b = chess_movegen::Board::standard();
/// b.{{field chess_movegen::Board chess_bitboard::BitBoard}} = chess_bitboard::BitBoard::empty();
/// ```
/// ```no_run
/// let mut b = chess_movegen::Board::standard();
/// let _ = chess_bitboard::BitBoard::empty();
/// ```
pub mod c03_checkers_private {}

/// C03: see above, `pinned`.
/// ```compile_fail,E0616
/// let mut b = chess_movegen::Board::standard();
/// b.{{field chess_movegen::Board chess_bitboard::BitBoard}} = chess_bitboard::BitBoard::empty();
/// ```
/// ```no_run
/// let mut b = chess_movegen::Board::standard();
/// let _ = chess_bitboard::BitBoard::empty();
/// ```
pub mod c03_pinned_private {}

/// C06: the builder's board is private, so `build()` (which validates) is the only way out.
/// ```compile_fail,E0616
/// let b = chess_movegen::Board::builder();
/// let _ = b.{{field chess_movegen::BoardBuilder *}};
/// ```
/// ```no_run
/// let b = chess_movegen::Board::builder();
/// let _ = b.build();
/// ```
pub mod c06_builder_board_private {}

/// C07: applying a move without the legality check is an `unsafe fn`; safe code cannot call it.
/// ```compile_fail,E0133
/// let b = chess_movegen::Board::standard();
/// let mv: chess_movegen::ChessMove = "e2e4".parse().unwrap();
/// let _ = b.move_unchecked(mv);
/// ```
/// ```no_run
/// let b = chess_movegen::Board::standard();
/// let mv: chess_movegen::ChessMove = "e2e4".parse().unwrap();
/// let _ = b.move_new(mv);
/// ```
pub mod c07_move_unchecked_is_unsafe {}

/// C07: `BitBoard::pop_unchecked` is an `unsafe fn`.
/// ```compile_fail,E0133
/// let mut s = chess_bitboard::BitBoard::empty();
/// let _ = s.pop_unchecked();
/// ```
/// ```no_run
/// let mut s = chess_bitboard::BitBoard::empty();
/// let _ = s.pop();
/// ```
pub mod c07_pop_unchecked_is_unsafe {}

/// C07: `RawBoard::piece_of_unchecked` is an `unsafe fn`.
/// ```compile_fail,E0133
/// let b = chess_movegen::Board::standard();
/// let _ = b.raw().piece_of_unchecked(chess_bitboard::Pos::E2);
/// ```
/// ```no_run
/// let b = chess_movegen::Board::standard();
/// let _ = b.raw().get(chess_bitboard::Pos::E2);
/// ```
pub mod c07_piece_of_unchecked_is_unsafe {}

/// C10: the generator's cursor and list are private.
/// ```compile_fail,E0616
/// let mut g = chess_movegen::Board::standard().legals();
/// g.{{field chess_movegen::iter::MoveGen usize}} = 3;
/// ```
/// ```no_run
/// let mut g = chess_movegen::Board::standard().legals();
/// let _ = g.next();
/// ```
pub mod c10_movegen_cursor_private {}

/// C17: a book cursor cannot be forged at an arbitrary index (private field, no public constructor).
/// ```compile_fail,E0451
/// let m = chess_lookup::BookMoves { {{field chess_lookup::BookMoves *}}: 7 };
/// let _ = m;
/// ```
/// ```no_run
/// let m = chess_lookup::INITIAL_BOOOK_MOVES;
/// let _ = m;
/// ```
pub mod c17_book_cursor_unforgeable {}

/// C20: the thread-local override is not nameable from outside the crate.
/// ```compile_fail,E0603
/// let _ = &tracing_enabled::{{item tracing_enabled const std::thread::local::LocalKey}};
/// ```
/// ```no_run
/// let _ = &tracing_enabled::is_enabled;
/// ```
pub mod c20_local_private {}

/// C20: the global flag is not nameable from outside the crate.
/// ```compile_fail,E0603
/// let _ = &tracing_enabled::{{item tracing_enabled static core::sync::atomic::Atomic}};
/// ```
/// ```no_run
/// let _ = &tracing_enabled::enable;
/// ```
pub mod c20_global_private {}

/// C20: a saved override cannot be handed to another thread (`LocalEnableState` is `!Send`).
/// ```compile_fail,E0277
/// let saved = tracing_enabled::local_take();
/// std::thread::spawn(move || tracing_enabled::restore(saved));
/// ```
/// ```no_run
/// let saved = tracing_enabled::local_take();
/// (move || tracing_enabled::restore(saved))();
/// ```
pub mod c20_saved_state_not_send {}

/// C20: a saved override cannot be forged.
/// ```compile_fail,E0451
/// let base: tracing_enabled::LocalEnableState = tracing_enabled::local_take();
/// let s = tracing_enabled::LocalEnableState { ..base };       // no field is named: the witness does not depend on their names
/// tracing_enabled::restore(s);
/// ```
/// ```no_run
/// let s = tracing_enabled::local_take();
/// tracing_enabled::restore(s);
/// ```
pub mod c20_saved_state_unforgeable {}
