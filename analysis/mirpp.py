"""Human-readable rendering of the serialised MIR (development aid and report text)."""


def place_s(p):
    s = f"_{p['l']}"
    for e in p["pj"]:
        if e == "d":
            s = f"(*{s})"
        elif "f" in e:
            s = f"{s}.{e.get('n', e['f'])}"
        elif "dc" in e:
            s = f"({s} as {e.get('n', e['dc'])})"
        elif "i" in e:
            s = f"{s}[_{e['i']}]"
        elif "ci" in e:
            o, m, fe = e["ci"]
            s = f"{s}[{'-' if fe else ''}{o} of {m}]"
        elif "ss" in e:
            f, t, fe = e["ss"]
            s = f"{s}[{f}..{'-' if fe else ''}{t}]"
        else:
            s = f"{s}<{e}>"
    return s


def const_s(o):
    if "promoted" in o:
        return "promoted:" + o["promoted"].rsplit("::", 1)[-1]
    if "uneval" in o:
        return "uneval:" + o["uneval_args"]
    if "param" in o:
        return "param:" + o["param"]
    c = o.get("c")
    if c is None:
        return "const?"
    if "int" in c:
        return f"{c['int']}_{o['ty']}"
    if "fn" in c:
        return "fn:" + c.get("fn_args", c["fn"])
    if "str" in c:
        return repr(c["str"])
    if "zst" in c:
        return c["zst"]
    if "ptr" in c:
        t = c["ptr"]
        if "static" in t:
            return "&static:" + t["static"]
        return "&alloc"
    if "bytes" in c:
        return f"bytes:{c['bytes'][:32]}:{o['ty']}"
    return "const:" + str(c)[:40]


def op_s(o):
    k = o.get("k")
    if k == "copy":
        return place_s(o["p"])
    if k == "move":
        return "move " + place_s(o["p"])
    if k == "const":
        return const_s(o)
    if k == "fnref":
        return "fn:" + o.get("fn_args", o["fn"])
    return str(o)[:60]


def rv_s(r):
    k = r["k"]
    if k == "use":
        return op_s(r["o"])
    if k == "ref":
        return f"&{'mut ' if r['bk']=='mut' else ''}{place_s(r['p'])}"
    if k == "rawptr":
        return f"&raw {r['m']} {place_s(r['p'])}"
    if k == "cast":
        return f"{op_s(r['o'])} as {r['ty']} ({r['ck']})"
    if k == "bin":
        return f"{r['op']}({op_s(r['a'])}, {op_s(r['b'])})"
    if k == "un":
        return f"{r['op']}({op_s(r['o'])})"
    if k == "discr":
        return f"discriminant({place_s(r['p'])})"
    if k == "agg":
        ops = ", ".join(op_s(o) for o in r["ops"])
        if r["ak"] == "adt":
            return f"{r['adt'].rsplit('::',1)[-1]}::{r['vn']}{{{ops}}}"
        if r["ak"] == "closure":
            return f"closure:{r['fn']}[{ops}]"
        return f"{r['ak']}[{ops}]"
    if k == "cfd":
        return f"deref_copy {place_s(r['p'])}"
    if k == "repeat":
        return f"[{op_s(r['o'])}; {r['n']}]"
    if k == "tls":
        return f"tls:{r['def']}"
    return str(r)[:80]


def term_s(t):
    k = t["k"]
    if k == "goto":
        return f"goto bb{t['t']}"
    if k == "switch":
        tg = ", ".join(f"{v}: bb{b}" for v, b in t["tg"])
        return f"switchInt({op_s(t['d'])}: {t['ty']}) [{tg}, otherwise: bb{t['o']}]"
    if k == "call":
        args = ", ".join(op_s(a) for a in t["a"])
        u = f" unwind {t['u']}" if isinstance(t["u"], int) else ""
        return f"{place_s(t['d'])} = {op_s(t['f'])}({args}) -> {'bb'+str(t['t']) if t['t'] is not None else '!'}{u}"
    if k == "assert":
        m = t["m"]
        return f"assert({'!' if not t['e'] else ''}{op_s(t['c'])}, {m['k']}{'('+m['op']+')' if 'op' in m else ''}) -> bb{t['t']}"
    if k == "drop":
        return f"drop({place_s(t['p'])}) -> bb{t['t']}"
    if k == "ret":
        return "return"
    return k


def body_s(b, spans=False):
    out = [f"// {b.get('key')}  [{b.get('kind')}] argc={b['argc']}"]
    for i, l in enumerate(b["locals"]):
        out.append(f"  let _{i}: {l['ty']}{'  // ' + l['n'] if 'n' in l else ''}")
    for i, blk in enumerate(b["blocks"]):
        out.append(f"  bb{i}{' (cleanup)' if blk.get('cleanup') else ''}:")
        for st in blk["s"]:
            sp = f"   // {st['sp']}" if spans else ""
            if st["k"] == "assign":
                out.append(f"    {place_s(st['p'])} = {rv_s(st['r'])}{sp}")
            elif st["k"] == "setdiscr":
                out.append(f"    discriminant({place_s(st['p'])}) = {st['v']}{sp}")
            else:
                out.append(f"    {st['k']} {op_s(st.get('o', {}))}{sp}")
        t = blk["t"]
        out.append(f"    {term_s(t)}{'   // ' + t['sp'] if spans else ''}")
    return "\n".join(out)
