"""Fact extraction: runs the chessfacts driver over /repo's working tree (engine E1).

Nothing of the repository is executed; `cargo check` type-checks and builds MIR,
and the driver serialises it.  Results are cached by a hash of the working tree.
"""
import fcntl, hashlib, json, os, shutil, subprocess, sys, time

VERIF = os.path.dirname(os.path.dirname(os.path.abspath(__file__)))
REPO = os.environ.get("VERIF_REPO", "/repo")
CACHE = os.path.join(VERIF, ".cache")
DRIVER_DIR = os.path.join(VERIF, "driver")
DRIVER = os.path.join(DRIVER_DIR, "target", "release", "chessfacts")

MEMBERS = ["chess-bitboard", "chess-lookup", "chess-lookup-generator", "chess-movegen", "chess-engine",
           "chess-cli", "chess-wasm", "chess-api", "chess-bot", "tracing-enabled", "colorz-tracing"]
# crates whose fact files must exist after a workspace run
EXPECTED_WS = ["chess_bitboard", "chess_lookup", "chess_movegen", "chess_engine", "chess_api", "chess_bot",
               "tracing_enabled", "chess_cli-bin", "chess_wasm"]

# configuration matrix (DESIGN 2.1).  `ws` is what `cargo test --workspace` builds.
CONFIGS = {
    "ws": {"args": ["--workspace"], "flags": [], "expected": EXPECTED_WS},
    "release": {"args": ["--workspace"], "flags": ["-Cdebug-assertions=off", "-Coverflow-checks=off"], "expected": EXPECTED_WS},
    "nobmi2": {"args": ["--workspace"], "flags": [], "cpu": "x86-64", "expected": EXPECTED_WS},
    "movegen-alone": {"args": ["-p", "chess-movegen"], "flags": [], "expected": ["chess_bitboard", "chess_lookup", "chess_movegen"]},
    "engine-alone": {"args": ["-p", "chess-engine"], "flags": [], "expected": ["chess_bitboard", "chess_lookup", "chess_movegen", "chess_engine"]},
}


def tree_hash(repo=REPO):
    h = hashlib.sha256()
    for root, dirs, files in os.walk(repo):
        dirs[:] = sorted(d for d in dirs if d not in (".git", "target", "node_modules"))
        for f in sorted(files):
            p = os.path.join(root, f)
            rel = os.path.relpath(p, repo)
            h.update(rel.encode())
            h.update(b"\0")
            try:
                with open(p, "rb") as fh:
                    while True:
                        b = fh.read(1 << 20)
                        if not b:
                            break
                        h.update(b)
            except OSError:
                h.update(b"<unreadable>")
            h.update(b"\0")
    return h.hexdigest()[:24]


def repo_rustflags(repo=REPO):
    """build.rustflags of /repo/.cargo/config.toml (an explicit RUSTFLAGS overrides the file)."""
    p = os.path.join(repo, ".cargo", "config.toml")
    flags = []
    if os.path.exists(p):
        try:
            import tomllib
            with open(p, "rb") as fh:
                cfg = tomllib.load(fh)
            rf = cfg.get("build", {}).get("rustflags", [])
            if isinstance(rf, str):
                rf = rf.split()
            flags = list(rf)
        except Exception:
            flags = ["-Ctarget-cpu=native"]
    return flags


def sysroot():
    return subprocess.check_output(["rustc", "+nightly", "--print", "sysroot"], text=True).strip()


def ensure_driver():
    if os.path.exists(DRIVER) and os.path.getmtime(DRIVER) >= os.path.getmtime(os.path.join(DRIVER_DIR, "src", "main.rs")):
        return
    env = dict(os.environ, CARGO_NET_OFFLINE="true")
    r = subprocess.run(["cargo", "build", "--release", "--offline"], cwd=DRIVER_DIR, env=env,
                       stdout=subprocess.PIPE, stderr=subprocess.STDOUT, text=True)
    if r.returncode != 0:
        sys.stderr.write(r.stdout)
        raise SystemExit(2)


def git_status(repo):
    try:
        return subprocess.check_output(["git", "-C", repo, "status", "--porcelain"], text=True)
    except Exception:
        return None


def extract(config="ws", repo=REPO, verbose=False):
    """Return the directory holding the fact files for `config` of the current tree."""
    cfg = CONFIGS[config]
    os.makedirs(CACHE, exist_ok=True)
    ensure_driver()
    with open(os.path.join(DRIVER_DIR, "src", "main.rs"), "rb") as fh:
        drv = hashlib.sha256(fh.read()).hexdigest()[:8]
    th = tree_hash(repo) + "-" + drv
    out = os.path.join(CACHE, "facts", th, config)
    done = os.path.join(out, ".done")
    if os.path.exists(done):
        return out
    lock = open(os.path.join(CACHE, f"extract-{config}.lock"), "w")
    fcntl.flock(lock, fcntl.LOCK_EX)
    try:
        if os.path.exists(done):
            return out
        if os.path.isdir(out):
            shutil.rmtree(out)
        os.makedirs(out)
        target = os.path.join(CACHE, f"target-{config}")
        # cargo must not replay a cached result without running the wrapper
        fp = os.path.join(target, "debug", ".fingerprint")
        if os.path.isdir(fp):
            for d in os.listdir(fp):
                if any(d.startswith(m + "-") for m in MEMBERS):
                    shutil.rmtree(os.path.join(fp, d), ignore_errors=True)
        flags = ["-Zmir-opt-level=0", "-Awarnings"]
        for f in repo_rustflags(repo):
            if f.startswith("-Ctarget-cpu") and "cpu" in cfg:
                continue
            flags.append(f)
        if "cpu" in cfg:
            flags.append("-Ctarget-cpu=" + cfg["cpu"])
        flags += cfg["flags"]
        env = dict(os.environ)
        env.update({
            "CARGO_NET_OFFLINE": "true",
            "CHESSFACTS_OUT": out,
            "LD_LIBRARY_PATH": sysroot() + "/lib" + (":" + env["LD_LIBRARY_PATH"] if env.get("LD_LIBRARY_PATH") else ""),
            "RUSTFLAGS": " ".join(flags),
            "RUSTC_WORKSPACE_WRAPPER": DRIVER,
            "CARGO_TARGET_DIR": target,
        })
        before = git_status(repo)
        t0 = time.time()
        r = subprocess.run(["cargo", "+nightly", "check", "--offline"] + cfg["args"], cwd=repo, env=env,
                           stdout=subprocess.PIPE, stderr=subprocess.STDOUT, text=True)
        dt = time.time() - t0
        if r.returncode != 0:
            sys.stderr.write(r.stdout[-6000:])
            sys.stderr.write(f"\nchessfacts: cargo check failed for config {config}\n")
            shutil.rmtree(out, ignore_errors=True)
            raise SystemExit(2)
        after = git_status(repo)
        if before is not None and before != after:
            sys.stderr.write("chessfacts: WARNING cargo touched the working tree:\n" + (after or ""))
        missing = [c for c in cfg["expected"] if not os.path.exists(os.path.join(out, c + ".json"))]
        if missing:
            sys.stderr.write(f"chessfacts: fact files missing for {missing} (config {config})\n")
            shutil.rmtree(out, ignore_errors=True)
            raise SystemExit(2)
        with open(done, "w") as fh:
            json.dump({"config": config, "rustflags": flags, "args": cfg["args"], "wall_s": round(dt, 2), "tree": th}, fh)
        if verbose:
            sys.stderr.write(f"chessfacts: {config} extracted in {dt:.1f}s -> {out}\n")
        # keep the cache small: drop fact dirs of other trees (older than 2 h)
        base = os.path.join(CACHE, "facts")
        now = time.time()
        for d in os.listdir(base):
            p = os.path.join(base, d)
            if d != th and now - os.path.getmtime(p) > 7200:
                shutil.rmtree(p, ignore_errors=True)
        return out
    finally:
        fcntl.flock(lock, fcntl.LOCK_UN)
        lock.close()


if __name__ == "__main__":
    cfgs = sys.argv[1:] or ["ws"]
    for c in cfgs:
        print(extract(c, verbose=True))
