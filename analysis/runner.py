"""Rule engine: runs the rule module of one property, applies known findings, writes evidence.

Exit codes: 0 = every decided clause holds (known findings are printed, not alarms);
1 = at least one violation not listed in known_findings.json (a `VIOLATION` line each);
2 = the checker itself is broken (driver failed, a perturbation control stayed silent).
"""
import argparse, copy, importlib, json, os, sys, time, traceback

from . import facts
from .facts import AnchorError

VERIF = os.path.dirname(os.path.dirname(os.path.abspath(__file__)))
EVID = os.environ.get("VERIF_EVIDENCE_DIR") or os.path.join(VERIF, "evidence")  # seed runs redirect their evidence


class Violation:
    def __init__(self, rule, key, what, site=None, detail=None, kind="RULE"):
        self.rule, self.key, self.what, self.site, self.detail, self.kind = rule, key, what, site, detail, kind

    def ident(self):
        return f"{self.rule}|{self.key}"

    def base_ident(self):
        return f"{self.rule}|{self.key.split('@')[0]}"

    def to_json(self, prop):
        return {"property": prop, "rule": self.rule, "key": self.key, "kind": self.kind, "what": self.what,
                "site": self.site, "detail": self.detail}


class Ctx:
    """Per-run context handed to rule functions."""

    def __init__(self, prop, tier, config="ws", shadow=False):
        self.prop, self.tier, self.config, self.shadow = prop, tier, config, shadow
        self.P = None
        self.violations = []
        self.obligations = 0
        self.discharged = 0
        self.evaluations = 0
        self.instances = {}      # rule -> list of instance keys (distinct, non-trivial)
        self.samples = []
        self.rules_run = []
        self.notes = []
        self.analysed = {"bodies": set(), "statics": set(), "call_sites": 0}
        self.cur_rule = None

    # -- registration -------------------------------------------------
    def ob(self, key, ok, what="", site=None, detail=None, sample=None, n_eval=1):
        """One obligation (rule instance) of the current rule with its verdict."""
        r = self.cur_rule
        self.obligations += 1
        self.evaluations += n_eval
        inst = self.instances.setdefault(r, [])
        if key not in inst:
            inst.append(key)
        if ok:
            self.discharged += 1
        else:
            self.violations.append(Violation(r, key, what, site, detail))
        if sample is not None and len([s for s in self.samples if s.get("rule") == r]) < 3:
            self.samples.append({"rule": r, "instance": key, "verdict": "holds" if ok else "VIOLATED", "case": sample,
                                 **({"site": site} if site else {})})
        return ok

    def bulk(self, key, n, bad, what="", sample=None):
        """`n` evaluated cells of one table-like instance; `bad` = list of (cellkey, detail) mismatches."""
        r = self.cur_rule
        self.obligations += 1
        self.evaluations += n
        inst = self.instances.setdefault(r, [])
        if key not in inst:
            inst.append(key)
        if not bad:
            self.discharged += 1
        for cell, detail in bad[:20]:
            self.violations.append(Violation(r, f"{key}[{cell}]", what, None, detail))
        if sample is not None and len([s for s in self.samples if s.get("rule") == r]) < 3:
            self.samples.append({"rule": r, "instance": key, "cells": n, "verdict": "holds" if not bad else "VIOLATED", "case": sample})
        return not bad

    def floor(self, what, found, minimum):
        """Fail closed when a rule matches fewer instances than were confirmed by hand."""
        self.obligations += 1
        if found >= minimum:
            self.discharged += 1
            return True
        self.violations.append(Violation(self.cur_rule, f"floor:{what}", f"rule matched {found} instances of {what}; at least {minimum} were confirmed on the pinned tree",
                                         kind="ANCHOR"))
        return False

    def note(self, text):
        self.notes.append(f"{self.cur_rule}: {text}")

    def used_body(self, key):
        self.analysed["bodies"].add(key)

    def used_static(self, key):
        self.analysed["statics"].add(key)


_RULES = {}


def rule(rid, title):
    def deco(fn):
        fn.rule_id, fn.title = rid, title
        _RULES.setdefault(rid.split(".")[0], []).append(fn)
        return fn
    return deco


def premise(ctx, module, rule_ids, why):
    """Re-run rules of another property whose conclusion this property's argument rests on; their violations are reported here too."""
    import importlib
    mod = importlib.import_module(f"rules.{module}")
    if ctx.config not in (None, "ws") and ctx.config not in getattr(mod, "THOROUGH_CONFIGS", []):
        # the other property is not analysed in this build configuration (its crates are not part of it): nothing to re-run here
        ctx.note(f"premise {module} {sorted(rule_ids)} not applicable in configuration {ctx.config}")
        return
    c = Ctx(module, ctx.tier, config=ctx.config, shadow=True)
    c.P = ctx.P
    ran = 0
    for fn in _RULES.get(module, []):
        if fn.rule_id in rule_ids:
            run_rule(c, fn)
            ran += 1
    ctx.floor("premise rules run", ran, len(rule_ids))
    ctx.bulk(f"premise obligations ({', '.join(sorted(rule_ids))})", c.obligations, [])
    for v in c.violations:
        ctx.ob(f"premise {v.rule}:{v.key}"[:120], False, f"{why}: " + v.what[:300], site=getattr(v, "site", None))


def _unevaluable():
    from analysis.terms import NotTabulable
    return (KeyError, IndexError, TypeError, ValueError, AttributeError, AssertionError, RecursionError, NameError, NotTabulable)


def run_rule(ctx, fn):
    ctx.cur_rule = fn.rule_id
    ctx.rules_run.append({"rule": fn.rule_id, "title": fn.title})
    try:
        fn(ctx)
    except AnchorError as e:
        ctx.obligations += 1
        ctx.violations.append(Violation(fn.rule_id, "anchor", f"rule unevaluable: {e}", kind="ANCHOR"))
    except _unevaluable() as e:
        # fail closed: the code no longer has the shape the rule can evaluate (the rule is silent on nothing it could not read)
        import traceback as _tb
        fr = _tb.extract_tb(e.__traceback__)[-1]
        sys.stderr.write(_tb.format_exc())
        ctx.obligations += 1
        ctx.violations.append(Violation(fn.rule_id, "anchor", f"rule unevaluable: {type(e).__name__} {str(e)[:120]} at {os.path.basename(fr.filename)}:{fr.lineno} "
                                        f"(the analysed code lost the shape this rule reads)", kind="ANCHOR"))
    finally:
        ctx.cur_rule = None


def load_known():
    p = os.path.join(VERIF, "known_findings.json")
    if not os.path.exists(p):
        return []
    with open(p) as fh:
        return json.load(fh).get("findings", [])


def run_controls(mod, ctx_factory, P):
    """Perturbation controls: each must make its rule fire on a perturbed copy of the fact base."""
    silent = []
    ran = []
    for ctl in getattr(mod, "CONTROLS", []):
        name, rid, mutate = ctl
        fns = [f for f in _RULES.get(rid.split(".")[0], []) if f.rule_id == rid]
        if not fns:
            silent.append(f"{name}: rule {rid} does not exist")
            continue
        P2 = PerturbedProgram(P)
        try:
            mutate(P2)
        except AnchorError as e:
            silent.append(f"{name}: cannot perturb ({e})")
            continue
        c = ctx_factory()
        c.P = P2
        c.shadow = True
        run_rule(c, fns[0])
        fired = [v for v in c.violations if v.rule == rid]
        ran.append({"control": name, "rule": rid, "fired": len(fired), "first": fired[0].what[:160] if fired else None})
        if not fired:
            silent.append(f"{name}: rule {rid} stayed silent on the perturbed facts")
    return ran, silent


class PerturbedProgram:
    """Copy-on-write view of a Program for perturbation controls."""

    def __init__(self, base):
        self.__dict__["_base"] = base
        self.__dict__["_own"] = {}

    def __getattr__(self, name):
        own = self.__dict__["_own"]
        if name in own:
            return own[name]
        return getattr(self.__dict__["_base"], name)

    def own(self, table, key):
        """Deep-copied, writable entry `key` of dict `table` (fns, values, adts, const_bodies)."""
        own = self.__dict__["_own"]
        if table not in own:
            own[table] = dict(getattr(self.__dict__["_base"], table))
        t = own[table]
        if key not in t:
            raise AnchorError(f"{table}[{key}] missing")
        if not t[key].get("_perturbed"):
            t[key] = copy.deepcopy(t[key])
            t[key]["_perturbed"] = True
        own["_callers"] = None
        return t[key]

    # methods of Program that must see the perturbed tables
    def body(self, key):
        return facts.Program.body(self, key)

    def has_body(self, key):
        return facts.Program.has_body(self, key)

    def value(self, key):
        return facts.Program.value(self, key)

    def value_bytes(self, key):
        return facts.Program.value_bytes(self, key)

    def value_u64s(self, key):
        return facts.Program.value_u64s(self, key)

    def value_ints(self, key, width):
        return facts.Program.value_ints(self, key, width)

    def find_fn(self, suffix, crate=None):
        return facts.Program.find_fn(self, suffix, crate)

    def find_value(self, suffix, crate=None):
        return facts.Program.find_value(self, suffix, crate)

    def find_adt(self, suffix, crate=None):
        return facts.Program.find_adt(self, suffix, crate)

    def adt(self, key):
        return facts.Program.adt(self, key)

    def enum_variants(self, key):
        return facts.Program.enum_variants(self, key)

    def variant_name(self, key, d):
        return facts.Program.variant_name(self, key, d)

    def calls(self, key):
        return facts.Program.calls(self, key)

    def callee_key(self, t):
        return facts.Program.callee_key(self, t)

    def callers(self):
        self.__dict__["_own"].setdefault("_callers", None)
        return facts.Program.callers(self)

    def src_line(self, span):
        return facts.Program.src_line(self, span)

    def __setattr__(self, k, v):
        self.__dict__["_own"][k] = v


def main(argv):
    ap = argparse.ArgumentParser()
    ap.add_argument("prop")
    ap.add_argument("--tier", default=os.environ.get("VERIF_TIER", "quick"), choices=["quick", "thorough"])
    ap.add_argument("--no-controls", action="store_true")
    a = ap.parse_args(argv)
    prop = a.prop
    t0 = time.time()
    seed = int(os.environ.get("VERIF_SEED", "0") or 0)
    try:
        mod = importlib.import_module(f"rules.{prop}")
    except ModuleNotFoundError:
        sys.stderr.write(f"no rule module for {prop}\n")
        return 2
    try:
        P = facts.load("ws")
    except SystemExit:
        return 2
    ctx = Ctx(prop, a.tier)
    ctx.P = P
    if getattr(P, "renamed", None):
        ctx.note("private items matched with the pinned tree by type / accessor / signature and analysed under their pinned names: " + "; ".join(P.renamed[:12]))
    for fn in _RULES.get(prop, []):
        if getattr(fn, "thorough_only", False) and a.tier != "thorough":
            continue
        try:
            run_rule(ctx, fn)
        except Exception:
            traceback.print_exc()
            sys.stderr.write(f"{prop}: rule {fn.rule_id} crashed\n")
            return 2
    # thorough tier: configuration matrix
    configs_done = ["ws"]
    if a.tier == "thorough":
        for cfg in getattr(mod, "THOROUGH_CONFIGS", []):
            try:
                P2 = facts.load(cfg)
            except SystemExit:
                return 2
            c2 = Ctx(prop, a.tier, config=cfg)
            c2.P = P2
            for fn in _RULES.get(prop, []):
                if cfg in getattr(fn, "skip_configs", ()):
                    continue
                try:
                    run_rule(c2, fn)
                except Exception:
                    traceback.print_exc()
                    return 2
            for v in c2.violations:
                v.key = f"{v.key}@{cfg}"
                ctx.violations.append(v)
            ctx.obligations += c2.obligations
            ctx.discharged += c2.discharged
            ctx.evaluations += c2.evaluations
            configs_done.append(cfg)
        extra = getattr(mod, "thorough_extra", None)
        if extra:
            try:
                extra(ctx)
            except Exception:
                traceback.print_exc()
                return 2

    controls_ran, silent = ([], [])
    if not a.no_controls:
        try:
            controls_ran, silent = run_controls(mod, lambda: Ctx(prop, a.tier), P)
        except Exception:
            traceback.print_exc()
            return 2

    # known findings: suppress by exact key only
    known = [k for k in load_known() if k.get("property") == prop]
    known_keys = {k["key"]: k for k in known if k.get("status") == "known"}
    new, suppressed = [], []
    seen = set()
    for v in ctx.violations:
        if v.ident() in seen:
            continue
        seen.add(v.ident())
        if v.ident() in known_keys or v.base_ident() in known_keys:
            suppressed.append(v)
        else:
            new.append(v)
    os.makedirs(os.path.join(EVID, "violations"), exist_ok=True)
    for f in os.listdir(os.path.join(EVID, "violations")):
        if f.startswith(prop + "-"):
            os.remove(os.path.join(EVID, "violations", f))
    for v in suppressed:
        kf = known_keys.get(v.ident()) or known_keys.get(v.base_ident())
        print(f"KNOWN-FINDING: property={prop} {kf.get('what', v.what)} [{v.ident()}]")
    for i, v in enumerate(new):
        path = os.path.join(EVID, "violations", f"{prop}-{i}.json")
        with open(path, "w") as fh:
            json.dump(v.to_json(prop), fh, indent=1)
        print(f"{v.kind} {v.rule} key={v.key}: {v.what}" + (f"  at {v.site}" if v.site else ""))
        if v.detail:
            print(f"    {str(v.detail)[:400]}")
        print(f"VIOLATION property={prop} replay={path}")

    distinct = sum(len(v) for v in ctx.instances.values())
    level = getattr(mod, "LEVEL", "other")
    cov = {
        "obligations": ctx.obligations,
        "discharged": ctx.discharged,
        "evaluations": max(ctx.evaluations, 1),
        "distinct_nontrivial": distinct,
        "rule": getattr(mod, "COVERAGE_RULE", "one obligation per rule instance (table, call site, CFG path family, table cell group); distinct_nontrivial counts distinct instance keys that matched a site in the analysed program"),
        "explanation": getattr(mod, "EXPLANATION", ""),
        "samples": ctx.samples[:24] or [{"note": "no instance sampled"}],
        "checker_cmd": f"python3 verif.py check {prop} --tier {a.tier}",
        "trusted_base": getattr(mod, "TRUSTED_BASE", ["rustc nightly front end + MIR builder + const evaluator", "chessfacts serialiser", "Python rule engine"]),
        "exhaustive": bool(getattr(mod, "EXHAUSTIVE", False)),
        "rules": ctx.rules_run,
        "instances_per_rule": {r: len(v) for r, v in ctx.instances.items()},
        "decided": getattr(mod, "DECIDED", ""),
        "not_decided": getattr(mod, "NOT_DECIDED", ""),
        "analysed": {"configs": configs_done, "crates": sorted(P.crates), "bodies_in_program": len(P.fns),
                     "bodies_used": len(ctx.analysed["bodies"]), "statics_used": sorted(ctx.analysed["statics"])[:40],
                     "tree": os.path.basename(os.path.dirname(P.dir)), "compile_fail_witnesses": sorted(ctx.analysed.get("witnesses", ()))},
        "controls": controls_ran,
        "known_findings_matched": [v.ident() for v in suppressed],
        "notes": ctx.notes[:40],
    }
    ev = {
        "property_id": prop,
        "tier": a.tier,
        "seed": seed,
        "level": level,
        "coverage": cov,
        "assumptions": getattr(mod, "ASSUMPTIONS", []),
        "wall_s": round(time.time() - t0, 2),
        "violations": len(new),
    }
    os.makedirs(EVID, exist_ok=True)
    with open(os.path.join(EVID, f"{prop}.json"), "w") as fh:
        json.dump(ev, fh, indent=1)
    if silent:
        for sline in silent:
            sys.stderr.write(f"CONTROL-SILENT {prop}: {sline}\n")
        return 2
    print(f"{prop}: {ctx.discharged}/{ctx.obligations} obligations discharged, {len(new)} violation(s), "
          f"{len(suppressed)} known finding(s), {len(controls_ran)} control(s) fired, {ev['wall_s']}s")
    return 1 if new else 0
