"""Helpers for reading effect summaries (final values of mutated objects) out of K4 leaves."""


def upd_entries(v):
    """[(path, value)] of an `upd` chain, innermost first, plus the base."""
    out = []
    while isinstance(v, tuple) and v and v[0] == "upd":
        out.append((v[2], v[3]))
        v = v[1]
    out.reverse()
    return v, out


def xor_terms(t):
    """Flatten nested BitXor into a list of operands."""
    if isinstance(t, tuple) and t and t[0] == "bin" and t[1] == "BitXor":
        return xor_terms(t[2]) + xor_terms(t[3])
    return [t]


def strip_casts(t):
    while isinstance(t, tuple) and t and t[0] == "cast":
        t = t[2]
    return t


def subterms(t):
    out = []

    def walk(x):
        if isinstance(x, tuple) and x:
            out.append(x)
            for y in x:
                walk(y)
    walk(t)
    return out


def index_chain(t):
    """`*(static S)[i][j][k]` -> (S, [i, j, k]) for nested ("index", base, idx) over a static; else None."""
    idx = []
    while isinstance(t, tuple) and t and t[0] == "index":
        idx.append(t[2])
        t = t[1]
    if isinstance(t, tuple) and t and t[0] == "obj" and t[1][0] == "static":
        return t[1][1], list(reversed(idx))
    if isinstance(t, tuple) and t and t[0] == "static":
        return t[1], list(reversed(idx))
    return None


def path_names(path):
    """('f', idx, name, variant) elements -> 'a.b[i]' string."""
    out = []
    for e in path:
        if e[0] == "f":
            out.append(str(e[2] if e[2] is not None else e[1]))
        elif e[0] == "i":
            out.append("[]")
        else:
            out.append(e[0])
    return ".".join(out).replace(".[]", "[]")


def fields_read(t, base):
    """Names of the fields of opaque object `base` that occur in term t."""
    out = set()
    for s in subterms(t):
        if s[0] == "field" and s[1] == base:
            out.add(s[2])
    return out


AC_OPS = {"BitAnd", "BitOr", "BitXor", "Add", "Mul"}


def acnorm(t):
    """Associative-commutative normal form: nested same-op applications are flattened and sorted, so harmless
    reassociation / reordering of operands does not change the term."""
    if not isinstance(t, tuple) or not t:
        return t
    if t[0] == "bin" and t[1] in AC_OPS:
        ops = []

        def collect(x):
            if isinstance(x, tuple) and x and x[0] == "bin" and x[1] == t[1]:
                collect(x[2])
                collect(x[3])
            else:
                ops.append(acnorm(x))
        collect(t)
        return ("ac", t[1], tuple(sorted(ops, key=repr)))
    return tuple(acnorm(x) if isinstance(x, tuple) else x for x in t)
