"""Helpers for reading effect summaries (final values of mutated objects) out of K4 leaves."""


def upd_entries(v):
    """[(path, value)] of an `upd` chain, innermost first, plus the base."""
    out = []
    while isinstance(v, tuple) and v and v[0] == "upd":
        out.append((v[2], v[3]))
        v = v[1]
    out.reverse()
    return v, out


def xor_terms(t):
    """Flatten nested BitXor into a list of operands."""
    if isinstance(t, tuple) and t and t[0] == "bin" and t[1] == "BitXor":
        return xor_terms(t[2]) + xor_terms(t[3])
    return [t]


def strip_casts(t):
    while isinstance(t, tuple) and t and t[0] == "cast":
        t = t[2]
    return t


def subterms(t):
    out = []

    def walk(x):
        if isinstance(x, tuple) and x:
            out.append(x)
            for y in x:
                walk(y)
    walk(t)
    return out


def index_chain(t):
    """`*(static S)[i][j][k]` -> (S, [i, j, k]) for nested ("index", base, idx) over a static; else None."""
    idx = []
    while isinstance(t, tuple) and t and t[0] == "index":
        idx.append(t[2])
        t = t[1]
    if isinstance(t, tuple) and t and t[0] == "obj" and t[1][0] == "static":
        return t[1][1], list(reversed(idx))
    if isinstance(t, tuple) and t and t[0] == "static":
        return t[1], list(reversed(idx))
    return None


def path_names(path):
    """('f', idx, name, variant) elements -> 'a.b[i]' string."""
    out = []
    for e in path:
        if e[0] == "f":
            out.append(str(e[2] if e[2] is not None else e[1]))
        elif e[0] == "i":
            out.append("[]")
        else:
            out.append(e[0])
    return ".".join(out).replace(".[]", "[]")


def fields_read(t, base):
    """Names of the fields of opaque object `base` that occur in term t."""
    out = set()
    for s in subterms(t):
        if s[0] == "field" and s[1] == base:
            out.add(s[2])
    return out


AC_OPS = {"BitAnd", "BitOr", "BitXor", "Add", "Mul"}


def acnorm(t):
    """Associative-commutative normal form: nested same-op applications are flattened and sorted, so harmless
    reassociation / reordering of operands does not change the term."""
    if not isinstance(t, tuple) or not t:
        return t
    if t[0] == "bin" and t[1] in AC_OPS:
        ops = []

        def collect(x):
            if isinstance(x, tuple) and x and x[0] == "bin" and x[1] == t[1]:
                collect(x[2])
                collect(x[3])
            else:
                ops.append(acnorm(x))
        collect(t)
        return ("ac", t[1], tuple(sorted(ops, key=repr)))
    return tuple(acnorm(x) if isinstance(x, tuple) else x for x in t)


# ---------------------------------------------------------------------- equivalence of word-level bit algebra
BITOPS = ("BitAnd", "BitOr", "BitXor")
_ONES = {"u8": 0xFF, "u16": 0xFFFF, "u32": 0xFFFFFFFF, "u64": 0xFFFFFFFFFFFFFFFF, "usize": 0xFFFFFFFFFFFFFFFF, "u128": (1 << 128) - 1}


def _is_bitroot(t):
    return isinstance(t, tuple) and t and ((t[0] == "bin" and t[1] in BITOPS) or (t[0] == "un" and t[1] == "Not"))


def bitcanon(t):
    """Canonical form that identifies all word expressions denoting the same bit-wise function of their maximal non-bit-wise subterms
    (De Morgan, distribution, absorption, `a & !b` vs set difference, operand order): the function's truth table over its support.
    Exact for and/or/xor/not; everything else (shifts, arithmetic, table reads, calls) is an atom, canonicalised recursively."""
    if not isinstance(t, tuple) or not t:
        return t
    if not _is_bitroot(t):
        if t[0] == "bin" and t[1] in AC_OPS and t[1] not in BITOPS:
            ops = []

            def flat(x):
                if isinstance(x, tuple) and x and x[0] == "bin" and x[1] == t[1]:
                    flat(x[2])
                    flat(x[3])
                else:
                    ops.append(bitcanon(x))
            flat(t)
            return ("ac", t[1], tuple(sorted(ops, key=repr)))
        return tuple(bitcanon(x) if isinstance(x, tuple) else x for x in t)
    atoms = []

    def collect(x):
        if _is_bitroot(x):
            for y in (x[2:] if x[0] == "bin" else x[2:3]):
                collect(y)
        elif isinstance(x, tuple) and x and x[0] == "int" and (x[1] == 0 or x[1] == _ONES.get(x[2] if len(x) > 2 else "", -1)):
            pass
        else:
            c = bitcanon(x)
            if c not in atoms:
                atoms.append(c)
    collect(t)
    atoms.sort(key=repr)
    if len(atoms) > 10:
        return acnorm(t)

    def table(vs):
        k = len(vs)
        width = 1 << k
        full = (1 << width) - 1
        basis = {}
        for i, a in enumerate(vs):
            w = 0
            for j in range(width):
                if (j >> i) & 1:
                    w |= 1 << j
            basis[a] = w

        def ev(x):
            if _is_bitroot(x):
                if x[0] == "un":
                    return full ^ ev(x[2])
                a, b = ev(x[2]), ev(x[3])
                return a & b if x[1] == "BitAnd" else (a | b if x[1] == "BitOr" else a ^ b)
            if isinstance(x, tuple) and x and x[0] == "int" and x[1] == 0:
                return 0
            if isinstance(x, tuple) and x and x[0] == "int" and x[1] == _ONES.get(x[2] if len(x) > 2 else "", -1):
                return full
            return basis.get(bitcanon(x), 0)      # an atom outside the support: any value
        return ev(t), width
    tt, width = table(atoms)
    # support: atoms the function really depends on
    support = []
    for i, a in enumerate(atoms):
        lo = hi = 0
        for j in range(width):
            bit = (tt >> j) & 1
            if (j >> i) & 1:
                hi |= bit << (j & ~(1 << i))
            else:
                lo |= bit << j
        if lo != hi:
            support.append(a)
    if len(support) != len(atoms):
        tt, width = table(support)
    if len(support) == 1 and tt == 0b10:
        return support[0]           # the expression reduces to one of its atoms
    return ("bitfn", tuple(support), tt)


def eqv(a, b):
    """Same value for every assignment of the atoms (exact for bit-wise algebra; AC-normal form otherwise)."""
    return a == b or acnorm(a) == acnorm(b) or bitcanon(a) == bitcanon(b)


canon = bitcanon


# ---------------------------------------------------------------------- equality of word formulas by evaluation on sample words
_SAMPLES = None


def sample_words():
    """Deterministic sample of 64-bit words: 0, all ones, every single bit, every complement of a single bit, edges, and pseudo-random words."""
    global _SAMPLES
    if _SAMPLES is None:
        ws = [0, (1 << 64) - 1] + [1 << i for i in range(64)] + [((1 << 64) - 1) ^ (1 << i) for i in range(0, 64, 7)]
        ws += [0x00000000000000FF, 0xFF00000000000000, 0x0101010101010101, 0x8080808080808080, 0x00FF00FF00FF00FF, 0xAAAAAAAAAAAAAAAA, 0x5555555555555555]
        x = 0x9E3779B97F4A7C15
        for _ in range(96):
            x ^= (x << 13) & ((1 << 64) - 1)
            x ^= x >> 7
            x ^= (x << 17) & ((1 << 64) - 1)
            ws.append(x)
        _SAMPLES = ws
    return _SAMPLES


def word_equal(eng, a, b, leaf, samples=None, extra_env=None):
    """True if the two extracted word formulas evaluate to the same constant for every sample value of the opaque word `leaf`
    (the formulas are data read from the source; nothing of the repository runs); None if a sample does not evaluate to a constant."""
    from . import terms as T
    for w in (samples if samples is not None else sample_words()):
        env = dict(extra_env or {})
        env[leaf] = ("int", w, "u64")
        x, y = T.concretize(eng, a, env), T.concretize(eng, b, env)
        if not (T.is_const(x) and T.is_const(y)):
            return None
        if x[1] != y[1]:
            return False
    return True
