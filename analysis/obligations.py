"""Enumeration of panic/UB-capable sites (C07 obligations) from the MIR and HIR facts."""
import re
from .facts import AnchorError

CORE = ("chess_bitboard", "chess_lookup", "chess_movegen", "chess_engine", "chess_api", "chess_bot", "tracing_enabled")
PANIC_CALLEES = re.compile(r"^(core::panicking::|std::rt::begin_panic|core::option::Option::<T>::unwrap$|core::option::Option::<T>::expect$|core::result::Result::<T, E>::unwrap$|"
                           r"core::result::Result::<T, E>::expect$|core::option::unwrap_failed|core::result::unwrap_failed|core::option::expect_failed|core::hint::unreachable_unchecked|"
                           r"core::option::Option::<T>::unwrap_unchecked$|core::slice::index::|core::str::slice_error_fail)")
DEBUG_ASSERT = re.compile(r"^\s*(?:core::|std::)?debug_assert(?:_eq|_ne)?!")
GENERATED = re.compile(r"(ChessEngineTrait_trait|StableTimeout_trait|_::<impl |::_::|__sabi|_item_info_const_|<impl abi_stable::|abi_stable::StableAbi)")


def is_generated(key, body):
    return bool(GENERATED.search(key)) or bool(body.get("derived")) or "fmt::Debug" in key and bool(body.get("derived"))


def enumerate_sites(P, crates=CORE):
    """[{fn, kind, what, ord, span, exp}] for every Assert terminator, panic-family call and unsafe operation."""
    sites = []
    skipped_debug_asserts = P.__dict__.setdefault("debug_asserts", [])
    del skipped_debug_asserts[:]
    for key, body in P.fns.items():
        if body["crate"] not in crates or is_generated(key, body) or body.get("kind") == "promoted":
            continue
        counts = {}
        for bi, blk in enumerate(body["blocks"]):
            if blk.get("cleanup"):
                continue
            t = blk["t"]
            what = None
            if t["k"] == "assert":
                m = t["m"]
                what = ("assert", m["k"] + (f"({m['op']})" if "op" in m else ""))
            elif t["k"] == "call" and t["f"].get("k") == "fnref":
                fn = t["f"]["fn"]
                if PANIC_CALLEES.match(fn):
                    what = ("call", fn)
            if what and what[0] == "call" and t.get("exp") and what[1].startswith("core::panicking::") and DEBUG_ASSERT.match(P.src_line(t.get("sp")) or ""):
                # `debug_assert!`: the repository's own debug-only self-check (compiled out of release builds), not an unchecked operation and
                # not a way the shipped code can fail; recognised by the macro named at the expansion site
                skipped_debug_asserts.append((key, t.get("sp")))
                what = None
            if what:
                k = (what[0], what[1])
                counts[k] = counts.get(k, 0) + 1
                site = {"fn": key, "kind": what[0], "what": what[1], "ord": counts[k] - 1, "span": t.get("sp"), "exp": bool(t.get("exp")), "block": bi, "crate": body["crate"]}
                if t["k"] == "assert":
                    a_ = t["m"].get("a") or {}
                    site["ty"] = a_.get("ty") or (a_.get("p") or {}).get("ty")       # the integer type the checked operation is carried out in
                sites.append(site)
    # unsafe operations from HIR
    ucount = {}
    for u in P.unsafe_blocks:
        if u["crate"] not in crates or GENERATED.search(u["fn"]):
            continue
        if u.get("exp"):
            # `write!`/`format_args!` expansions call the unsafe `Arguments::new`
            if all(o.get("callee", "").startswith("core::fmt::") for o in u["ops"]):
                continue
        for o in u["ops"]:
            what = o.get("callee") or o["k"]
            if what.startswith("core::fmt::"):
                continue
            k = (u["fn"], what)
            ucount[k] = ucount.get(k, 0) + 1
            sites.append({"fn": u["fn"], "kind": "unsafe", "what": what, "ord": ucount[k] - 1, "span": o.get("sp"), "exp": bool(o.get("exp")), "crate": u["crate"]})
    for s in sites:
        s["key"] = f"{s['fn']}|{s['kind']}:{s['what']}#{s['ord']}"
    return sites
