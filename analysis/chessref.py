"""Closed-form definitions the constant data is compared with (trusted base of K1).

Geometry on an 8x8 grid in (file, rank) coordinates and a compact reference implementation
of the rules of chess used to replay the opening book.  Square numbers / enum discriminants are
NOT assumed: `Geo` reads them from the ADT facts (variant name -> discriminant).
"""
from .facts import AnchorError

FILES = "ABCDEFGH"
ROOK_DIRS = [(1, 0), (-1, 0), (0, 1), (0, -1)]
BISHOP_DIRS = [(1, 1), (1, -1), (-1, 1), (-1, -1)]
KNIGHT_OFFS = [(1, 2), (2, 1), (2, -1), (1, -2), (-1, -2), (-2, -1), (-2, 1), (-1, 2)]
KING_OFFS = ROOK_DIRS + BISHOP_DIRS


def on(f, r):
    return 0 <= f < 8 and 0 <= r < 8


class Geo:
    """Coordinate <-> discriminant maps taken from the program's own enums."""

    def __init__(self, P):
        pos = P.find_adt("pos::Pos", "chess_bitboard")
        self.pos_key = pos
        self.sq = {}      # (f, r) -> discriminant
        self.coord = {}   # discriminant -> (f, r)
        for name, d in P.enum_variants(pos):
            if len(name) != 2 or name[0] not in FILES or name[1] not in "12345678":
                raise AnchorError(f"Pos variant `{name}` is not a square name")
            c = (FILES.index(name[0]), int(name[1]) - 1)
            self.sq[c] = d
            self.coord[d] = c
        if len(self.sq) != 64 or sorted(self.coord) != list(range(64)):
            raise AnchorError("Pos does not have 64 variants with discriminants 0..63")
        self.file = self._enum(P, "pos::File", {n: i for i, n in enumerate(FILES)})
        self.rank = self._enum(P, "pos::Rank", {f"_{i+1}": i for i in range(8)})
        self.color = self._enum(P, "color::Color", {"White": 0, "Black": 1})
        self.piece = self._enum(P, "piece::Piece", {n: n for n in ["Pawn", "Knight", "Bishop", "Rook", "Queen", "King"]})
        self.side = self._enum(P, "side::Side", {"King": "K", "Queen": "Q"})
        self.promo = self._enum(P, "piece::PromotionPiece", {n: n for n in ["Knight", "Bishop", "Rook", "Queen"]})

    @staticmethod
    def _enum(P, suffix, names):
        key = P.find_adt(suffix, "chess_bitboard")
        out = {}
        vs = P.enum_variants(key)
        if sorted(n for n, _ in vs) != sorted(names):
            raise AnchorError(f"{suffix}: variants {[n for n, _ in vs]} differ from the expected {sorted(names)}")
        for n, d in vs:
            out[names[n]] = d
        return out  # meaning -> discriminant

    def bb(self, coords):
        x = 0
        for c in coords:
            x |= 1 << self.sq[c]
        return x

    def coords(self, bb):
        return [self.coord[i] for i in range(64) if bb >> i & 1]

    def name(self, d):
        f, r = self.coord[d]
        return f"{FILES[f].lower()}{r+1}"

    def bbs(self, bb):
        return "{" + ",".join(sorted(self.name(self.sq[c]) for c in self.coords(bb))) + "}"


def slide(c, dirs, occ_coords):
    """Squares reached by sliding from c, up to and including the first occupied square."""
    out = []
    for df, dr in dirs:
        f, r = c[0] + df, c[1] + dr
        while on(f, r):
            out.append((f, r))
            if (f, r) in occ_coords:
                break
            f, r = f + df, r + dr
    return out


def inner_ray_squares(c, dirs):
    """Relevant-occupancy squares: every ray square except the last one of each ray."""
    out = []
    for df, dr in dirs:
        f, r = c[0] + df, c[1] + dr
        while on(f + df, r + dr):
            out.append((f, r))
            f, r = f + df, r + dr
    return out


def step(c, offs):
    return [(c[0] + df, c[1] + dr) for df, dr in offs if on(c[0] + df, c[1] + dr)]


def pawn_attack_squares(c, white):
    d = 1 if white else -1
    return [(c[0] + df, c[1] + d) for df in (-1, 1) if on(c[0] + df, c[1] + d)]


def pawn_quiet_squares(c, white):
    """Push squares on an empty board (single step, and double step from the start rank)."""
    d = 1 if white else -1
    out = []
    if on(c[0], c[1] + d):
        out.append((c[0], c[1] + d))
        if c[1] == (1 if white else 6):
            out.append((c[0], c[1] + 2 * d))
    return out


def between(a, b):
    df, dr = b[0] - a[0], b[1] - a[1]
    if a == b or not (df == 0 or dr == 0 or abs(df) == abs(dr)):
        return []
    sf, sr = (df > 0) - (df < 0), (dr > 0) - (dr < 0)
    out = []
    f, r = a[0] + sf, a[1] + sr
    while (f, r) != b:
        out.append((f, r))
        f, r = f + sf, r + sr
    return out


def line(a, b):
    df, dr = b[0] - a[0], b[1] - a[1]
    if a == b or not (df == 0 or dr == 0 or abs(df) == abs(dr)):
        return []
    sf, sr = (df > 0) - (df < 0), (dr > 0) - (dr < 0)
    out = [a]
    for s in (1, -1):
        f, r = a[0] + s * sf, a[1] + s * sr
        while on(f, r):
            out.append((f, r))
            f, r = f + s * sf, r + s * sr
    return out


# --------------------------------------------------------------------------
# Reference rules of chess (for the opening book replay).  Board: dict (f, r) -> (color, piece),
# color 0 = white, piece in "PNBRQK".
def start_position():
    b = {}
    back = "RNBQKBNR"
    for f in range(8):
        b[(f, 0)] = (0, back[f])
        b[(f, 1)] = (0, "P")
        b[(f, 6)] = (1, "P")
        b[(f, 7)] = (1, back[f])
    return {"b": b, "turn": 0, "castle": {(0, "K"), (0, "Q"), (1, "K"), (1, "Q")}, "ep": None}


def attacked(b, c, by):
    """Is square c attacked by colour `by`?"""
    for s in step(c, KNIGHT_OFFS):
        if b.get(s) == (by, "N"):
            return True
    for s in step(c, KING_OFFS):
        if b.get(s) == (by, "K"):
            return True
    # a pawn of colour `by` attacks c from the squares a pawn of the other colour on c would attack
    for s in pawn_attack_squares(c, white=(by == 1)):
        if b.get(s) == (by, "P"):
            return True
    for dirs, kinds in ((ROOK_DIRS, "RQ"), (BISHOP_DIRS, "BQ")):
        for s in slide(c, dirs, b):
            p = b.get(s)
            if p and p[0] == by and p[1] in kinds:
                return True
    return False


def king_square(b, color):
    for c, p in b.items():
        if p == (color, "K"):
            return c
    return None


def apply_move(pos, src, dst, promo=None):
    b = dict(pos["b"])
    color, piece = b.pop(src)
    castle = set(pos["castle"])
    ep = None
    if piece == "P":
        if dst == pos["ep"]:
            del b[(dst[0], src[1])]
        if abs(dst[1] - src[1]) == 2:
            ep = (src[0], (src[1] + dst[1]) // 2)
        if dst[1] in (0, 7):
            piece = promo or "Q"
    if piece == "K":
        castle -= {(color, "K"), (color, "Q")}
        if abs(dst[0] - src[0]) == 2:
            if dst[0] == 6:
                b[(5, src[1])] = b.pop((7, src[1]))
            else:
                b[(3, src[1])] = b.pop((0, src[1]))
    for c, right in (((0, 0), (0, "Q")), ((7, 0), (0, "K")), ((0, 7), (1, "Q")), ((7, 7), (1, "K"))):
        if src == c or dst == c:
            castle.discard(right)
    b[dst] = (color, piece)
    return {"b": b, "turn": 1 - pos["turn"], "castle": castle, "ep": ep}


def legal_moves(pos):
    """Set of (src, dst, needs_promotion) legal in `pos`."""
    b, me = pos["b"], pos["turn"]
    out = set()
    cand = []
    for c, (col, p) in b.items():
        if col != me:
            continue
        if p == "N":
            tg = step(c, KNIGHT_OFFS)
        elif p == "K":
            tg = step(c, KING_OFFS)
        elif p == "R":
            tg = slide(c, ROOK_DIRS, b)
        elif p == "B":
            tg = slide(c, BISHOP_DIRS, b)
        elif p == "Q":
            tg = slide(c, ROOK_DIRS + BISHOP_DIRS, b)
        else:
            tg = []
            d = 1 if me == 0 else -1
            one = (c[0], c[1] + d)
            if on(*one) and one not in b:
                tg.append(one)
                two = (c[0], c[1] + 2 * d)
                if c[1] == (1 if me == 0 else 6) and two not in b:
                    tg.append(two)
            for s in pawn_attack_squares(c, white=(me == 0)):
                if (s in b and b[s][0] != me) or s == pos["ep"]:
                    tg.append(s)
        for s in tg:
            if s in b and b[s][0] == me:
                continue
            cand.append((c, s, p))
    for c, s, p in cand:
        nxt = apply_move(pos, c, s)
        if not attacked(nxt["b"], king_square(nxt["b"], me), 1 - me):
            out.add((c, s, p == "P" and s[1] in (0, 7)))
    # castling
    r = 0 if me == 0 else 7
    if b.get((4, r)) == (me, "K") and not attacked(b, (4, r), 1 - me):
        if (me, "K") in pos["castle"] and b.get((7, r)) == (me, "R") and (5, r) not in b and (6, r) not in b \
                and not attacked(b, (5, r), 1 - me) and not attacked(b, (6, r), 1 - me):
            out.add(((4, r), (6, r), False))
        if (me, "Q") in pos["castle"] and b.get((0, r)) == (me, "R") and all((f, r) not in b for f in (1, 2, 3)) \
                and not attacked(b, (3, r), 1 - me) and not attacked(b, (2, r), 1 - me):
            out.add(((4, r), (2, r), False))
    return out


def is_legal(pos, src, dst):
    """Legality of one (src, dst) move; returns (legal, needs_promotion_choice)."""
    b, me = pos["b"], pos["turn"]
    p = b.get(src)
    if p is None or p[0] != me:
        return False, False
    kind = p[1]
    if dst in b and b[dst][0] == me:
        return False, False
    if kind == "K" and abs(dst[0] - src[0]) == 2 and dst[1] == src[1]:
        return (src, dst, False) in legal_moves(pos), False
    if kind == "N":
        ok = dst in step(src, KNIGHT_OFFS)
    elif kind == "K":
        ok = dst in step(src, KING_OFFS)
    elif kind == "R":
        ok = dst in slide(src, ROOK_DIRS, b)
    elif kind == "B":
        ok = dst in slide(src, BISHOP_DIRS, b)
    elif kind == "Q":
        ok = dst in slide(src, ROOK_DIRS + BISHOP_DIRS, b)
    else:
        d = 1 if me == 0 else -1
        ok = False
        if dst == (src[0], src[1] + d) and dst not in b:
            ok = True
        elif dst == (src[0], src[1] + 2 * d) and src[1] == (1 if me == 0 else 6) and dst not in b and (src[0], src[1] + d) not in b:
            ok = True
        elif dst in pawn_attack_squares(src, white=(me == 0)) and ((dst in b and b[dst][0] != me) or dst == pos["ep"]):
            ok = True
    if not ok:
        return False, False
    nxt = apply_move(pos, src, dst)
    if attacked(nxt["b"], king_square(nxt["b"], me), 1 - me):
        return False, False
    return True, kind == "P" and dst[1] in (0, 7)


def perft(pos, depth):
    if depth == 0:
        return 1
    n = 0
    for src, dst, pr in legal_moves(pos):
        if pr:
            for k in "NBRQ":
                n += perft(apply_move(pos, src, dst, k), depth - 1)
        else:
            n += perft(apply_move(pos, src, dst), depth - 1)
    return n
