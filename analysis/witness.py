"""K6: compile-fail witnesses (/verif/witness). The type checker is the deciding step: `cargo +nightly test --doc` compiles every
block, runs nothing (`compile_fail,<code>` blocks must be rejected with exactly that code; their `no_run` twins must compile)."""
import json, os, re, shutil, subprocess, fcntl
from analysis import extract
from analysis.facts import AnchorError

VERIF = os.path.dirname(os.path.dirname(os.path.abspath(__file__)))
WIT = os.path.join(VERIF, "witness")
_RES = {}


def _resolve(P, ph):
    """names a placeholder stands for, read from the current tree's facts (so that renaming a private field or item does not break a witness):
    `field <adt> <type|*>` -> fields of that struct with that type; `item <crate> <static|const> <type prefix>` -> items of that crate."""
    parts = ph.split()
    if parts[0] == "field":
        a = P.adt(parts[1])
        fs = [f["name"] for f in a["variants"][0]["fields"] if parts[2] == "*" or f["ty"] == parts[2]]
        if not fs:
            raise AnchorError(f"witness placeholder {{{{{ph}}}}}: {parts[1]} has no field of type {parts[2]}")
        return fs
    if parts[0] == "item":
        names = [k.rsplit("::", 1)[1] for k, v in P.values.items() if v.get("crate") == parts[1] and v.get("kind") == parts[2] and k.count("::") == 1 and v.get("ty", "").startswith(parts[3])]
        if not names:
            raise AnchorError(f"witness placeholder {{{{{ph}}}}}: crate {parts[1]} has no {parts[2]} of type {parts[3]}..")
        return sorted(names)
    raise AnchorError(f"witness placeholder {{{{{ph}}}}} not understood")


def expand(P, text):
    """lib.rs with every documented item that uses placeholders instantiated once per matching name (all instances must behave)."""
    out, doc = [], []
    for line in text.splitlines():
        if line.startswith("///"):
            doc.append(line)
            continue
        if doc:
            body = "\n".join(doc)
            phs = sorted(set(re.findall(r"\{\{([^{}]+)\}\}", body)))
            if phs:
                choices = {ph: _resolve(P, ph) for ph in phs}
                n = max(len(v) for v in choices.values())
                inst = []
                for i in range(n):
                    b = body
                    for ph, names in choices.items():
                        b = b.replace("{{" + ph + "}}", names[i % len(names)])
                    inst.append(b)
                body = "\n".join(inst)
            out.append(body)
            doc = []
        out.append(line)
    return "\n".join(out) + "\n"


def results(P):
    import hashlib
    with open(os.path.join(WIT, "src", "lib.rs")) as fh:
        lib = expand(P, fh.read())
    th = extract.tree_hash() + "-" + hashlib.sha256(lib.encode()).hexdigest()[:8]
    if th in _RES:
        return _RES[th]
    cdir = os.path.join(extract.CACHE, "witness")
    os.makedirs(cdir, exist_ok=True)
    cf = os.path.join(cdir, th + ".json")
    lock = open(os.path.join(extract.CACHE, "witness.lock"), "w")
    fcntl.flock(lock, fcntl.LOCK_EX)
    try:
        if os.path.exists(cf):
            _RES[th] = json.load(open(cf))
            return _RES[th]
        # the crate is generated (placeholders resolved, dependencies pointing at the tree under analysis) outside the sources of /verif
        gen = os.path.join(extract.CACHE, "witness-gen")
        shutil.rmtree(gen, ignore_errors=True)
        os.makedirs(os.path.join(gen, "src"))
        os.makedirs(os.path.join(gen, ".cargo"))
        with open(os.path.join(WIT, "Cargo.toml")) as fh:
            toml = fh.read().replace('"/repo/', '"' + extract.REPO.rstrip("/") + "/")
        open(os.path.join(gen, "Cargo.toml"), "w").write(toml)
        open(os.path.join(gen, "src", "lib.rs"), "w").write(lib)
        shutil.copy(os.path.join(WIT, "rust-toolchain.toml"), os.path.join(gen, "rust-toolchain.toml"))
        shutil.copy(os.path.join(WIT, ".cargo", "config.toml"), os.path.join(gen, ".cargo", "config.toml"))
        shutil.copy(os.path.join(extract.REPO, "Cargo.lock"), os.path.join(gen, "Cargo.lock"))
        env = dict(os.environ, CARGO_NET_OFFLINE="true", CARGO_TARGET_DIR=os.path.join(extract.CACHE, "target-witness"))
        env.pop("RUSTC_WORKSPACE_WRAPPER", None)
        r = subprocess.run(["cargo", "+nightly", "test", "--doc", "--offline"], cwd=gen, env=env, stdout=subprocess.PIPE, stderr=subprocess.STDOUT, text=True)
        res = {}
        for m in re.finditer(r"^test src/lib\.rs - (\w+) \(line (\d+)\) - (compile fail|compile) \.\.\. (ok|FAILED)", r.stdout, re.M):
            slot = res.setdefault(m.group(1), {})
            k = "witness" if m.group(3) == "compile fail" else "twin"
            slot[k] = "FAILED" if (slot.get(k) == "FAILED" or m.group(4) == "FAILED") else "ok"      # every instance must behave
        if not res:
            raise AnchorError("witness crate did not build: " + r.stdout[-800:])
        out = {"results": res, "tail": r.stdout[-3000:] if "FAILED" in r.stdout else ""}
        with open(cf, "w") as fh:
            json.dump(out, fh)
        _RES[th] = out
        return out
    finally:
        fcntl.flock(lock, fcntl.LOCK_UN)
        lock.close()


def check(ctx, names):
    """names: {witness module name: what a failure means}"""
    out = results(ctx.P)
    res = out["results"]
    for n, meaning in names.items():
        r = res.get(n)
        if not r or "witness" not in r or "twin" not in r:
            raise AnchorError(f"compile-fail witness {n} or its compiling twin is missing from /verif/witness")
        if r["twin"] != "ok":
            ctx.obligations += 1
            from analysis.runner import Violation
            ctx.violations.append(Violation(ctx.cur_rule, f"witness-twin:{n}", f"the compiling twin of witness {n} no longer compiles (the API it names changed): the witness cannot be evaluated", kind="ANCHOR"))
            continue
        ctx.ob(f"witness:{n}", r["witness"] == "ok", f"the compiler no longer rejects the program of witness {n}: {meaning}", sample={"witness": n, "rejected_with_expected_code": r["witness"] == "ok"})
    ctx.analysed.setdefault("witnesses", set()).update(names)
