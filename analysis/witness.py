"""K6: compile-fail witnesses (/verif/witness). The type checker is the deciding step: `cargo +nightly test --doc` compiles every
block, runs nothing (`compile_fail,<code>` blocks must be rejected with exactly that code; their `no_run` twins must compile)."""
import json, os, re, shutil, subprocess, fcntl
from analysis import extract
from analysis.facts import AnchorError

VERIF = os.path.dirname(os.path.dirname(os.path.abspath(__file__)))
WIT = os.path.join(VERIF, "witness")
_RES = {}


def results():
    th = extract.tree_hash()
    with open(os.path.join(WIT, "src", "lib.rs"), "rb") as fh:
        import hashlib
        th += "-" + hashlib.sha256(fh.read()).hexdigest()[:8]
    if th in _RES:
        return _RES[th]
    cdir = os.path.join(extract.CACHE, "witness")
    os.makedirs(cdir, exist_ok=True)
    cf = os.path.join(cdir, th + ".json")
    lock = open(os.path.join(extract.CACHE, "witness.lock"), "w")
    fcntl.flock(lock, fcntl.LOCK_EX)
    try:
        if os.path.exists(cf):
            _RES[th] = json.load(open(cf))
            return _RES[th]
        shutil.copy(os.path.join(extract.REPO, "Cargo.lock"), os.path.join(WIT, "Cargo.lock"))
        env = dict(os.environ, CARGO_NET_OFFLINE="true", CARGO_TARGET_DIR=os.path.join(extract.CACHE, "target-witness"))
        env.pop("RUSTC_WORKSPACE_WRAPPER", None)
        r = subprocess.run(["cargo", "+nightly", "test", "--doc", "--offline"], cwd=WIT, env=env, stdout=subprocess.PIPE, stderr=subprocess.STDOUT, text=True)
        res = {}
        for m in re.finditer(r"^test src/lib\.rs - (\w+) \(line (\d+)\) - (compile fail|compile) \.\.\. (ok|FAILED)", r.stdout, re.M):
            res.setdefault(m.group(1), {})["witness" if m.group(3) == "compile fail" else "twin"] = m.group(4)
        if not res:
            raise AnchorError("witness crate did not build: " + r.stdout[-800:])
        out = {"results": res, "tail": r.stdout[-3000:] if "FAILED" in r.stdout else ""}
        with open(cf, "w") as fh:
            json.dump(out, fh)
        _RES[th] = out
        return out
    finally:
        fcntl.flock(lock, fcntl.LOCK_UN)
        lock.close()


def check(ctx, names):
    """names: {witness module name: what a failure means}"""
    out = results()
    res = out["results"]
    for n, meaning in names.items():
        r = res.get(n)
        if not r or "witness" not in r or "twin" not in r:
            raise AnchorError(f"compile-fail witness {n} or its compiling twin is missing from /verif/witness")
        if r["twin"] != "ok":
            ctx.obligations += 1
            from analysis.runner import Violation
            ctx.violations.append(Violation(ctx.cur_rule, f"witness-twin:{n}", f"the compiling twin of witness {n} no longer compiles (the API it names changed): the witness cannot be evaluated", kind="ANCHOR"))
            continue
        ctx.ob(f"witness:{n}", r["witness"] == "ok", f"the compiler no longer rejects the program of witness {n}: {meaning}", sample={"witness": n, "rejected_with_expected_code": r["witness"] == "ok"})
    ctx.analysed.setdefault("witnesses", set()).update(names)
