"""K5: interval evaluation of K4 terms and automatic discharge of panic/UB obligations.

Ranges come from: constants, enum discriminants (ADT facts), integer parameter types, casts, masks, intrinsic results,
loads from constant statics (value set of the table column), return types of opaque callees, and the path conditions
already passed (comparisons with constants refine the compared term).  No widening, no fixpoint."""
import re
from . import terms as T
from .facts import AnchorError

INT_RANGES = {"u8": (0, 255), "u16": (0, 65535), "u32": (0, 2 ** 32 - 1), "u64": (0, 2 ** 64 - 1), "usize": (0, 2 ** 64 - 1), "u128": (0, 2 ** 128 - 1),
              "i8": (-128, 127), "i16": (-32768, 32767), "i32": (-2 ** 31, 2 ** 31 - 1), "i64": (-2 ** 63, 2 ** 63 - 1), "isize": (-2 ** 63, 2 ** 63 - 1), "i128": (-2 ** 127, 2 ** 127 - 1),
              "bool": (0, 1), "char": (0, 0x10FFFF)}


def ty_range_str(P, ty):
    if ty in INT_RANGES:
        return INT_RANGES[ty]
    ty = ty.lstrip("&").replace("mut ", "").strip()
    a = P.adts.get(ty)
    if a and a["kind"] == "enum" and all(not v["fields"] for v in a["variants"]):
        ds = [int(v["discr"]) if "discr" in v else i for i, v in enumerate(a["variants"])]
        return ("enum", min(ds), max(ds))
    return None


# result ranges of workspace callees established elsewhere (a checked summary); such callees stay opaque in analyse_fn
CALL_RANGES = {}
# ADTs that wrap a `Range<u8>` in a private field and are only ever built with a constant range (established by the caller from the
# constructor facts): {adt key: (field name, lo, hi)}; the items that range yields lie in [lo, hi)
WRAPPED_RANGES = {}
# iterator types whose `for` loops have a known trip bound (a set of squares has at most 64 members; C18 shows next() removes one)
TRIP_BOUNDS = {"chess_bitboard::BitBoardIter": 64, "chess_bitboard::pos::AllPosIter": 64}


class Ranges:
    def __init__(self, P, body):
        self.P = P
        self.body = body
        self.acc = {}           # (loop header, place id) -> (lo, hi) total drift of a bounded accumulator
        self.refine = {}        # term -> (lo, hi)
        self.nonzero = set()    # terms a passed condition found != 0
        self.ptypes = {}
        for i in range(body["argc"]):
            l = body["locals"][i + 1]
            self.ptypes[("param", i, l.get("n", f"arg{i}"))] = l["ty"]

    def copy(self):
        r = Ranges(self.P, self.body)
        r.refine = dict(self.refine)
        r.nonzero = set(self.nonzero)
        r.acc = self.acc
        return r

    def enum_range_of_type(self, ty):
        r = ty_range_str(self.P, ty)
        return (r[1], r[2]) if r and r[0] == "enum" else None

    def static_column(self, t):
        """Range of a load from a constant static: the value set of the column addressed (any index)."""
        # ("field", ("index", ("obj", ("static", K)), idx), fname)  or nested index chains ending in an integer element
        fname = None
        x = t
        if x[0] == "field":
            fname, x = x[2], x[1]
        depth = 0
        while x[0] == "index":
            x = x[1]
            depth += 1
        if x[0] == "const" and depth:
            x = ("obj", ("static", x[1]))          # a `const` table: same value-set argument
        if x[0] == "obj" and x[1][0] == "static":
            key = x[1][1]
            v = self.P.values.get(key)
            if v and "hex" not in v and isinstance(v.get("val"), dict) and "bytes" in v["val"] and not v["val"].get("relocs"):
                v = dict(v, hex=v["val"]["bytes"])
            if not v or "hex" not in v:
                return None
            tj = v.get("tj", {})
            # peel arrays
            elem = tj
            while elem.get("k") == "array":
                elem = elem["of"]
            raw = bytes.fromhex(v["hex"])
            if elem.get("k") == "int":
                w = elem["bits"] // 8
                vals = [int.from_bytes(raw[i:i + w], "little", signed=bool(elem.get("signed"))) for i in range(0, len(raw), w)]
                return (min(vals), max(vals)) if vals else None
            if elem.get("k") == "adt":
                a = self.P.adts.get(elem["adt"])
                if a and a["kind"] == "struct" and fname is not None:
                    fs = [f for f in a["variants"][0]["fields"] if f["name"] == fname]
                    if fs and fs[0]["tj"].get("k") == "int":
                        w, off, size = fs[0]["tj"]["bits"] // 8, fs[0]["offset"], a["size"]
                        vals = [int.from_bytes(raw[i + off:i + off + w], "little", signed=bool(fs[0]["tj"].get("signed"))) for i in range(0, len(raw), size)]
                        return (min(vals), max(vals))
                if a and a["kind"] == "struct" and fname in ("0", 0) and len(a["variants"][0]["fields"]) == 1 and a["variants"][0]["fields"][0]["tj"].get("k") == "int":
                    w = a["variants"][0]["fields"][0]["tj"]["bits"] // 8
                    vals = [int.from_bytes(raw[i:i + w], "little") for i in range(0, len(raw), w)]
                    return (min(vals), max(vals))
        return None

    def rng(self, t):
        """(lo, hi) or None (unknown)."""
        if t in self.refine:
            return self.refine[t]
        r = self._rng(t)
        return r

    def _rng(self, t):
        k = t[0]
        if k == "int":
            return (t[1], t[1])
        if k == "param":
            ty = self.ptypes.get(t)
            if ty in INT_RANGES:
                return INT_RANGES[ty]
            return None
        if k == "discr":
            x = t[1]
            ty = None
            if x[0] == "param":
                ty = self.ptypes.get(x)
            elif x[0] == "obj" and x[1][0] == "param":
                ty = self.ptypes.get(x[1])
            elif x[0] == "app":
                ty = self.ret_type(x[1])
            elif x[0] == "loopvar":
                return self._rng(("discr", x[3])) if x[3][0] != "undef" else None
            elif x[0] == "vfield" and x[1][0] == "app":
                # payload of Option<Enum> returned by a callee
                rt = self.ret_type(x[1][1])
                if rt and rt.startswith("core::option::Option<") and x[2] == "Some":
                    ty = rt[len("core::option::Option<"):-1]
            elif x[0] == "adt":
                d = T.Engine.variant_discr(T.Engine(self.P), x[1], x[2])
                return (d, d) if d is not None else None
            if ty:
                return self.enum_range_of_type(ty)
            return None
        if k == "cast":
            r = self.rng(t[2])
            tr = INT_RANGES.get(t[1])
            if r and tr and tr[0] <= r[0] and r[1] <= tr[1]:
                return r
            return tr
        if k == "bin":
            op = t[1]
            a, b = self.rng(t[2]), self.rng(t[3])
            if op in ("Eq", "Ne", "Lt", "Le", "Gt", "Ge"):
                return (0, 1)
            if op == "BitAnd":
                cands = [x for x in (a, b) if x and x[0] >= 0]
                return (0, min(x[1] for x in cands)) if cands else None
            if a is None or b is None:
                if op in ("Rem",) and b and b[0] > 0:
                    return (0, b[1] - 1)
                if op == "Shr" and a:
                    return (0, a[1]) if a[0] >= 0 else None
                return None
            if op == "Add":
                return (a[0] + b[0], a[1] + b[1])
            if op == "Sub":
                return (a[0] - b[1], a[1] - b[0])
            if op == "Mul":
                ps = [a[0] * b[0], a[0] * b[1], a[1] * b[0], a[1] * b[1]]
                return (min(ps), max(ps))
            if op == "Div" and b[0] > 0 and a[0] >= 0:
                return (a[0] // b[1], a[1] // b[0])
            if op == "Rem" and b[0] > 0 and a[0] >= 0:
                return (0, min(a[1], b[1] - 1))
            if op == "Shl" and a[0] >= 0 and b[0] >= 0 and b[1] < 128:
                return (a[0] << b[0], a[1] << b[1])
            if op == "Shr" and a[0] >= 0 and b[0] >= 0:
                return (a[0] >> min(b[1], 200), a[1] >> b[0])
            if op in ("BitOr", "BitXor") and a[0] >= 0 and b[0] >= 0:
                hi = (1 << max(a[1].bit_length(), b[1].bit_length())) - 1
                return (0, hi)
            return None
        if k in ("sat_add", "sat_sub"):
            return None
        if k == "count_ones":
            return (0, 64)
        if k == "app":
            name = t[1]
            if name in CALL_RANGES:
                return CALL_RANGES[name]
            if "trailing_zeros" in name:
                a = t[2][0] if t[2] else None
                return (0, 63) if a is not None and a[0] == "nonzero" else (0, 64)
            if "count_ones" in name:
                return (0, 64)
            if "NonZero" in name and T.strip_turbofish(name).endswith("::get"):
                # the value of a NonZero is at least 1 (type invariant)
                m_ = re.search(r"NonZero::?<([ui](?:8|16|32|64|128|size))>", name)
                hi_ = INT_RANGES.get(m_.group(1) if m_ else "u64", (0, 2 ** 64 - 1))[1]
                return (1, hi_)
            rt = self.ret_type(name)
            if rt in INT_RANGES:
                return INT_RANGES[rt]
            return None
        if k == "trailing_zeros":
            # of a word the path has found non-zero: the index of its lowest set bit
            r = self.refine.get(t[1])
            return (0, 63) if (t[1] in self.nonzero or (r and r[0] >= 1)) else (0, 64)
        if k == "abs_diff":
            a, b = self.rng(t[1]), self.rng(t[2])
            if a and b:
                return (0, max(a[1] - b[0], b[1] - a[0]))
            return None
        if k in ("max", "min"):
            a, b = self.rng(t[1]), self.rng(t[2])
            if a and b:
                return (max(a[0], b[0]), max(a[1], b[1])) if k == "max" else (min(a[0], b[0]), min(a[1], b[1]))
            return None
        if k == "cindex":
            return (0, 255) if True else None
        if k == "len":
            return (0, 2 ** 63)
        if k in ("field", "index"):
            c = self.static_column(t)
            if c:
                return c
            if k == "field" and t[2] in ("0", 0):
                # newtype over an enum-like? unknown
                return None
            return None
        if k == "obj" and t[1][0] == "app":
            # dereferenced result of an opaque `impl Index<_> for [T; N]`: an element of the indexed array
            import re as _re
            m = _re.search(r"core::ops::index::Index<[^>]*> for \[(\w+); \d+\]>::index$", t[1][1])
            if m:
                a0 = t[1][2][0] if t[1][2] else None
                if a0 is not None and a0[0] == "refv" and a0[1][0] in ("obj", "const"):
                    c = self.static_column(("index", a0[1], ("int", 0, "usize")))
                    if c:
                        return c
                return INT_RANGES.get(m.group(1))
            rt = self.ret_type(t[1][1])
            if rt and rt.lstrip("&").replace("mut ", "").strip() in INT_RANGES:
                return INT_RANGES[rt.lstrip("&").replace("mut ", "").strip()]
            return None
        if k == "loopvar":
            d = self.acc.get((t[1], t[2]))
            if d is not None:
                ir = self.rng(t[3])
                if ir is not None:
                    return (ir[0] + d[0], ir[1] + d[1])
            return None
        if k == "vfield":
            # Some-payload of Range::<u8>::{next, nth, next_back, nth_back} on the private range of a wrapper that is only built with lo..hi
            x = t[1]
            if t[2] == "Some" and x[0] == "app" and "core::ops::range::Range<" in x[1] and x[2]:
                a0 = x[2][0]
                owner = fld_ = None
                if a0[0] == "refv" and a0[1][0] == "field" and a0[1][1][0] == "obj" and a0[1][1][1][0] == "param":
                    owner, fld_ = a0[1][1][1], a0[1][2]
                elif a0[0] == "ref" and a0[1][0] == "ext" and a0[1][1][0] == "param" and len(a0[1]) > 2 and a0[1][2] and a0[1][2][0][0] == "f":
                    owner, fld_ = a0[1][1], a0[1][2][0][2]
                if owner is not None:
                    ty = (self.ptypes.get(owner) or "").lstrip("&").replace("mut ", "").strip()
                    w = WRAPPED_RANGES.get(ty)
                    if w and w[0] == fld_:
                        return (w[1], w[2] - 1)
            return None
        return None

    def ret_type(self, name):
        key = T.strip_turbofish(name) if name not in self.P.fns else name
        b = self.P.fns.get(name) or self.P.fns.get(key)
        if b:
            return b["locals"][0]["ty"]
        return None

    # ---- refinement from a passed path condition
    def assume(self, t, v):
        if t[0] == "assert":
            t, v = t[2], v
        if t[0] == "un" and t[1] == "Not" and v in (0, 1):
            return self.assume(t[2], 1 - v)
        if t[0] == "bin" and t[1] in ("Eq", "Ne", "Lt", "Le", "Gt", "Ge") and v in (0, 1):
            op = t[1]
            a, b = t[2], t[3]
            if not v:
                op = {"Eq": "Ne", "Ne": "Eq", "Lt": "Ge", "Le": "Gt", "Gt": "Le", "Ge": "Lt"}[op]
            for x, y, o in ((a, b, op), (b, a, {"Lt": "Gt", "Le": "Ge", "Gt": "Lt", "Ge": "Le"}.get(op, op))):
                ry = self.rng(y)
                rx = self.rng(x)
                if ry is None or T.is_const(x):
                    continue
                lo, hi = rx if rx else (-2 ** 130, 2 ** 130)
                if o == "Eq":
                    lo, hi = max(lo, ry[0]), min(hi, ry[1])
                elif o == "Lt":
                    hi = min(hi, ry[1] - 1)
                elif o == "Le":
                    hi = min(hi, ry[1])
                elif o == "Gt":
                    lo = max(lo, ry[0] + 1)
                elif o == "Ge":
                    lo = max(lo, ry[0])
                elif o == "Ne" and ry[0] == ry[1]:
                    if ry[0] == 0:
                        self.nonzero.add(x)
                    if lo == ry[0]:
                        lo += 1
                    if hi == ry[0]:
                        hi -= 1
                self.refine[x] = (lo, hi)
            return
        if isinstance(v, int) and t[0] not in ("discr",):
            r = self.rng(t)
            self.refine[t] = (v, v)
            return
        if isinstance(v, tuple) and v and v[0] == "not":
            r = self.rng(t)
            if r:
                lo, hi = r
                excl = set(x for x in v[1] if isinstance(x, int))
                while lo in excl:
                    lo += 1
                while hi in excl:
                    hi -= 1
                self.refine[t] = (lo, hi)

    def infeasible(self):
        return any(lo > hi for lo, hi in self.refine.values())

    # ---- can this assert fail?
    def assert_can_fail(self, kind, cond, expected):
        """False = proved safe; True = cannot prove."""
        if cond[0] == "ovf":
            op, a, b = cond[1], cond[2], cond[3]
            ty = cond[4] if len(cond) > 4 else None
            tr = INT_RANGES.get(ty) if ty else None
            ra, rb = self.rng(a), self.rng(b)
            if not (tr and ra and rb):
                return True
            if op == "Add":
                lo, hi = ra[0] + rb[0], ra[1] + rb[1]
            elif op == "Sub":
                lo, hi = ra[0] - rb[1], ra[1] - rb[0]
            elif op == "Mul":
                ps = [ra[0] * rb[0], ra[0] * rb[1], ra[1] * rb[0], ra[1] * rb[1]]
                lo, hi = min(ps), max(ps)
            else:
                return True
            return not (tr[0] <= lo and hi <= tr[1])
        # boolean condition with an expected value: fails when cond != expected
        c = cond
        want = expected
        if c[0] == "un" and c[1] == "Not":
            c, want = c[2], 1 - want
        if c[0] == "bin" and c[1] == "Lt" and want == 1 and _range_item_below(c[2], c[3]):
            return False        # `for i in a..n { .. xs[i] .. }` with n = xs.len(): the items of a Range lie below its end
        if c[0] == "bin" and c[1] in ("Lt", "Le", "Gt", "Ge", "Eq", "Ne"):
            ra, rb = self.rng(c[2]), self.rng(c[3])
            if ra is None or rb is None:
                return True
            op = c[1]
            always_true = {"Lt": ra[1] < rb[0], "Le": ra[1] <= rb[0], "Gt": ra[0] > rb[1], "Ge": ra[0] >= rb[1],
                           "Eq": ra[0] == ra[1] == rb[0] == rb[1], "Ne": ra[1] < rb[0] or rb[1] < ra[0]}[op]
            always_false = {"Lt": ra[0] >= rb[1], "Le": ra[0] > rb[1], "Gt": ra[1] <= rb[0], "Ge": ra[1] < rb[0],
                            "Eq": ra[1] < rb[0] or rb[1] < ra[0], "Ne": ra[0] == ra[1] == rb[0] == rb[1]}[op]
            if want == 1:
                return not always_true
            return not always_false
        return True


def _norm_len(t):
    """len(&S) where S is the loop-carried pointee of a `&mut [T]` (elements may have been swapped or overwritten): a slice cannot be
    resized through a reference, so its length is that of the slice on loop entry."""
    while (isinstance(t, tuple) and t and t[0] == "len" and t[1][0] == "refv" and t[1][1][0] == "loopvar"
           and t[1][1][2][1] and t[1][1][2][1][-1] in ("d", ("d",))):
        t = ("len", ("refv", t[1][1][3]))
    return t


def _range_item_below(idx, bound):
    while isinstance(idx, tuple) and idx and idx[0] == "cast":
        idx = idx[2]
    if not (isinstance(idx, tuple) and idx and idx[0] == "vfield" and idx[2] == "Some" and idx[1][0] == "app"
            and "Iterator for core::ops::range::Range<" in idx[1][1] and idx[1][1].endswith(">::next")):
        return False
    it = idx[1][2][0]
    if it[0] in ("refv", "ref"):
        it = it[1]
    if it[0] == "loopvar":
        it = it[3]
    if it[0] == "app" and it[1].endswith("IntoIterator>::into_iter") and it[2]:
        it = it[2][0]
    if not (it[0] == "adt" and it[1] == "core::ops::range::Range" and len(it[3]) == 2):
        return False
    return _norm_len(it[3][1]) == _norm_len(bound)


def loop_accumulators(P, body, eng, loop_leaves, trips=None):
    """{(header, place id): (lo, hi)}: integer locals that every generic iteration of a loop with a known trip bound leaves unchanged or
    increases/decreases by an amount the intervals can bound; (lo, hi) is the total drift over at most N iterations."""
    by_h = {}
    for lf in loop_leaves:
        if lf.ret[2] == 0:
            by_h.setdefault(lf.ret[1], []).append(lf)
    out = {}
    for h, lfs in by_h.items():
        # the loop must carry an iterator with a trip bound which every generic iteration advances
        n = None
        cands = {}
        fr0 = lfs[0].state.frames[0]
        for i, v in fr0.locals.items():
            ty = body["locals"][i]["ty"]
            for pre, nn in (trips or {}).items():
                if ty.startswith(pre):
                    ty = pre
            if ty == "core::ops::range::Range<usize>":
                # `for i in a..xs.len()`: at most as many iterations as a slice has elements (< 2^63)
                rv = [s for s in _sub(eng.freeze(lfs[0].state, v)) if s[0] == "loopvar" and s[1] == h and s[2] == (i, ())]
                init = rv[0][3] if rv else None
                if init is not None and init[0] == "app" and init[1].endswith("IntoIterator>::into_iter") and init[2]:
                    init = init[2][0]
                if (init is not None and init[0] == "adt" and init[1] == "core::ops::range::Range" and len(init[3]) == 2 and init[3][0][0] == "int" and init[3][0][1] >= 0
                        and init[3][1][0] == "len" and all(eng.freeze(lf.state, lf.state.frames[0].locals.get(i)) != rv[0] for lf in lfs)):
                    n = 2 ** 63 if n is None else min(n, 2 ** 63)
            if ty in TRIP_BOUNDS or ty in (trips or {}):
                lv = [s for s in _sub(eng.freeze(lfs[0].state, v)) if s[0] == "loopvar" and s[1] == h and s[2] == (i, ())]
                if lv and all(eng.freeze(lf.state, lf.state.frames[0].locals.get(i)) != lv[0] for lf in lfs):
                    nb = TRIP_BOUNDS.get(ty) or trips[ty]
                    n = nb if n is None else min(n, nb)
            elif ty in INT_RANGES and ty != "bool":
                cands[i] = ty
        if n is None:
            continue
        for i in cands:
            lo, hi, ok, L = 0, 0, True, None
            for lf in lfs:
                new = eng.freeze(lf.state, lf.state.frames[0].locals.get(i, ("undef",)))
                lvs = [s for s in _sub(new) if s[0] == "loopvar" and s[1] == h and s[2] == (i, ())]
                if not lvs:
                    ok = False          # overwritten with something unrelated to its previous value
                    break
                L = lvs[0]
                if new == L:
                    continue
                e = None
                if new[0] == "bin" and new[1] == "Add" and L in (new[2], new[3]):
                    e, sign = (new[3] if new[2] == L else new[2]), 1
                elif new[0] == "bin" and new[1] == "Sub" and new[2] == L:
                    e, sign = new[3], -1
                if e is None or any(s[0] == "loopvar" and s[1] == h and s[2] == (i, ()) for s in _sub(e)):
                    ok = False
                    break
                R = Ranges(P, body)
                for c, v in lf.cond:
                    R.assume(c, v)
                r = R.rng(e)
                if r is None:
                    ok = False
                    break
                r = (r[0], r[1]) if sign > 0 else (-r[1], -r[0])
                lo, hi = min(lo, r[0]), max(hi, r[1])
            if ok and L is not None:
                out[(h, (i, ()))] = (n * lo, n * hi)
    return out


def _sub(t):
    if isinstance(t, tuple) and t and isinstance(t[0], str):
        yield t
        for x in t:
            if isinstance(x, tuple):
                yield from _sub(x)
    elif isinstance(t, tuple):
        for x in t:
            if isinstance(x, tuple):
                yield from _sub(x)


_HEAVY = {}


def heavy_fns(P):
    """Workspace functions whose call closure contains a body of >= 40 blocks or >= 200 blocks in total: kept opaque when full inlining explodes
    (their results are then bounded by their types or by a checked result-range summary)."""
    ck = id(P)
    if ck in _HEAVY:
        return _HEAVY[ck]
    callees = {}
    for k in P.fns:
        callees[k] = {t["f"].get("fn") for _, t in P.calls(k) if t["f"].get("fn") in P.fns}
    memo = {}

    def closure(k):
        seen, todo = set(), [k]
        while todo:
            x = todo.pop()
            if x in seen:
                continue
            seen.add(x)
            todo.extend(callees.get(x, ()))
        return seen
    out = set()
    for k in P.fns:
        cl = closure(k)
        sizes = [len(P.fns[x]["blocks"]) for x in cl]
        if max(sizes) >= 40 or sum(sizes) >= 200:
            out.add(k)
    _HEAVY[ck] = out
    return out


def _paths(P, key, inline, opaque, max_states):
    """paths() with decreasing precision: full inlining, inlining with heavy callees opaque, no inlining."""
    err = None
    attempts = [(6, set())] + ([(6, heavy_fns(P) - {key})] if inline else []) if inline else []
    attempts.append((0, set()))
    for depth, extra in attempts:
        eng = T.Engine(P, opaque=set(opaque) | set(CALL_RANGES) | extra, inline_depth=depth, max_states=max_states)
        try:
            return eng, eng.paths(key), None
        except T.NotTabulable as e:
            err = str(e)
    return None, None, err


def ret_range(P, key, max_states=60000, trips=None):
    """Range of the integer result of `key` over all its paths (loops summarised by bounded accumulators), or None.
    `trips`: extra {iterator type prefix: trip bound} valid inside this function only."""
    body = P.body(key)
    if body["locals"][0]["ty"] not in INT_RANGES:
        return None
    eng, res, err = _paths(P, key, True, set(), max_states)
    if eng is None:
        return None
    rets, loops, panics = res
    acc = loop_accumulators(P, body, eng, loops, trips)
    lo, hi = None, None
    for lf in rets:
        R = Ranges(P, body)
        R.acc = acc
        for c, v in lf.cond:
            R.assume(c, v)
        if R.infeasible():
            continue
        r = R.rng(lf.ret)
        if r is None:
            return None
        lo, hi = (r[0] if lo is None else min(lo, r[0])), (r[1] if hi is None else max(hi, r[1]))
    tr = INT_RANGES[body["locals"][0]["ty"]]
    if lo is None or lo < tr[0] or hi > tr[1]:
        return None
    return (lo, hi)


def analyse_fn(P, key, inline=False, opaque=None, max_states=30000, init=None):
    """{(fn, block): 'safe' | 'unknown'} for the asserts and panic calls of function `key`, from a local (parameters opaque) analysis.
    A site is 'safe' only if on EVERY enumerated path reaching it the failing outcome is infeasible."""
    body = P.body(key)
    eng, res, err = _paths(P, key, inline, opaque or set(), max_states)
    if eng is None:
        return None, err
    rets, loops, panics = res
    verdict = {}
    acc = loop_accumulators(P, body, eng, loops)

    def mark(site, safe):
        # sites of inlined callees are recorded too (keyed by their own function): the verdict of a private helper's site *in this calling context*
        if safe:
            verdict.setdefault(site, "safe")
        else:
            verdict[site] = "unknown"
    for lf in rets + loops + panics:
        R = Ranges(P, body)
        R.acc = acc
        if init:
            R.refine.update(init)        # ranges of parameter parts established by the (only) calling context
        dead = False
        events = [tr for tr in lf.trace if tr[0] == "site"]
        for t, v in lf.cond:
            if t[0] == "assert":
                site = t[3] if len(t) > 3 else None
                if site is not None and not dead:
                    can_fail = R.assert_can_fail(t[1], t[2], v)
                    mark(site, not can_fail)
                R.assume(t, v)
            else:
                R.assume(t, v)
            if R.infeasible():
                dead = True
        infeasible = dead or R.infeasible()
        for _, site, status in events:
            mark(site, status == "safe" or infeasible)
        if lf.ret[0] == "panic" and len(lf.ret) > 3:
            site = lf.ret[3]
            # the path to this panic is infeasible if the refinements are contradictory
            mark(site, infeasible)
    return verdict, None
