"""Path-wise summary of Board::move_unchecked_into up to the slider loop (shared by C02 and C03).

The body is explored from its entry to the header of the loop over the mover's sliders with the K4 engine
(helpers kept opaque, their calls recorded in order).  Each path yields: the facts it assumed about the move
(piece kind, capture, promotion, double step, en-passant capture, castling) and what it did
(xor calls, castling-right removals, clock/marker/turn/checkers values at the loop entry)."""
from . import terms as T, cfg
from .facts import AnchorError

MG = "chess_movegen::"
KEY = MG + "Board::move_unchecked_into"
XOR = MG + "Board::xor"
RIGHTS_TABLE = MG + "castle_rights::CASTLE_RIGHTS_PER_SQ"
OPAQUE = {XOR, MG + "Board::king_sq", MG + "raw::RawBoard::piece_of_unchecked", MG + "raw::RawBoard::piece_of", MG + "Board::enpassant_pos",
          "chess_bitboard::pos::Pos::new", "chess_bitboard::pos::Pos::file", "chess_bitboard::pos::Pos::rank", "chess_bitboard::pos::File::side",
          "chess_bitboard::piece::PromotionPiece::to_piece", "chess_bitboard::color::Color::enpassant_pawn_rank"}
_CACHE = {}


class Path:
    pass


def analyse(P):
    ck = id(P)
    if ck in _CACHE:
        return _CACHE[ck]
    body = P.body(KEY)
    c = cfg.cfg_of(body)
    loops = c.loops()
    sl = [h for h, bl in loops.items() if any(body["blocks"][b]["t"]["k"] == "call" and body["blocks"][b]["t"]["f"].get("fn") == "chess_lookup::between" for b in bl)]
    stop_terms = set()
    if len(sl) != 1:
        # the slider phase may live in a private helper, or in a closure handed to an iterator adaptor: the summary then ends in front of that call
        from . import k2
        calls_between = lambda f: any(t_["f"].get("fn") == "chess_lookup::between" for _, t_ in P.calls(f))
        phase = {f for f in k2.private_closure(P, KEY) if f != KEY and any(calls_between(g_) for g_ in k2.private_closure(P, f))}
        for bi, blk in enumerate(body["blocks"]):
            t_ = blk["t"]
            if t_["k"] == "call" and t_["f"].get("fn") in phase:
                stop_terms.add(bi)
            if any(s_.get("r", {}).get("k") == "agg" and s_["r"].get("ak") == "closure" and s_["r"].get("fn") in phase for s_ in blk["s"]):
                stop_terms.add(bi)
        if sl or len(stop_terms) != 1:
            raise AnchorError(f"{KEY}: expected exactly one slider phase (a loop calling chess_lookup::between, or one call handing it to a helper/closure), found loops {sl}, calls {sorted(stop_terms)}")
    eng = T.Engine(P, opaque=OPAQUE)
    eng.stop_terms = set(stop_terms)
    eng.trace_calls = {XOR}
    xm = T.mod_fields(P, XOR, 0, opaque={"<chess_bitboard::BitBoardIter as core::iter::traits::iterator::Iterator>::next"})
    if xm is not None:
        eng.mod_summaries[XOR] = (0, MG + "Board", xm)
    leaves = eng.region(KEY, 0, {sl[0]} if sl else set())
    slf, mv, out = ("obj", ("param", 0, "self")), ("param", 1, "a1"), ("param", 2, "a2")
    piece_adt = P.find_adt("piece::Piece", "chess_bitboard")
    pd = {d: n for n, d in P.enum_variants(piece_adt)}
    src_piece = None
    paths = []
    for lf in leaves:
        if lf.ret[0] != "stop":
            continue
        p = Path()
        p.leaf = lf
        p.turn = lf.known.get(("field", slf, "turn"))
        p.kind, p.captured, p.promo, p.double, p.ep, p.castle_mask, p.side = None, None, "untested", None, None, None, None
        p.not_kind = set()
        p.promo_rank_ok = None
        for t, v in lf.cond:
            if t[0] == "assert":
                continue
            if t[0] == "bin" and t[1] == "Eq" and t[2][0] == "discr" and t[2][1][0] == "app" and t[2][1][1].endswith("piece_of_unchecked") and T.is_const(t[3]):
                nm = pd.get(t[3][1])
                if v == 1:
                    p.kind = nm
                else:
                    p.not_kind.add(nm)
                continue
            if t[0] == "discr" and t[1][0] == "app" and t[1][1].endswith("RawBoard::piece_of"):
                p.captured = v
                p.captured_term = t[1]
                continue
            if t == ("discr", ("field", mv, "piece")):
                p.promo = v if p.promo in ("untested", v) else "conflict"
                continue
            if t[0] == "bin" and t[1] == "Eq" and t[2] == ("discr", ("vfield", ("field", mv, "piece"), "Some", 0)):
                p.promo_knight = bool(v) if pd.get(t[3][1]) == "Knight" else None
                continue
            if t[0] == "bin" and t[1] == "Eq" and T.is_const(t[2]) is False and t[2][0] == "bin" and t[2][1] == "BitAnd":
                # (mv_bb & CONST) == mv_bb
                consts = [x for x in (t[2][2], t[2][3]) if T.is_const(x)]
                if consts:
                    p.masks = getattr(p, "masks", {})
                    if T.is_const(t[3]) and t[3][1] == 0:
                        # (mv_bb & !CONST) == 0, i.e. `(mv_bb - CONST).none()`: the same subset test written as an empty difference
                        p.masks[~consts[0][1] & 0xFFFFFFFFFFFFFFFF] = bool(v)
                    else:
                        p.masks[consts[0][1]] = bool(v)
                continue
            if t[0] == "app" and "PartialEq" in t[1] and any(s_[0] == "app" and s_[1].endswith("enpassant_pos") for s_ in _sub(t)):
                p.ep = bool(v)
                continue
            if t[0] == "un" and t[1] == "Not" and t[2][0] == "app" and "PartialEq" in t[2][1]:
                p.ep = not bool(v)
                continue
            if t[0] == "eq" and any(s_[0] == "app" and s_[1].endswith("enpassant_pos") for s_ in _sub(t)):
                p.ep = bool(v)
                continue
            if t[0] == "discr" and t[1][0] == "app" and t[1][1].endswith("File::side"):
                p.side = v
                continue
            if t[0] == "bin" and t[1] == "Eq" and t[2][0] == "discr" and t[2][1][0] == "app" and t[2][1][1].endswith("Pos::rank"):
                continue
            if t == ("discr", ("field", slf, "turn")):
                continue
            p.other = getattr(p, "other", []) + [(t, v)]
        final = eng.freeze(lf.state, lf.ext.get(out, ("obj", out)))
        p.final = final
        p.rights = rights_of(P, slf, final)
        p.calls = [tr for tr in lf.trace if tr[0] == "call"]
        p.eng = eng
        paths.append(p)
    res = {"mod_xor": xm, "paths": paths, "engine": eng, "loop": (sl[0] if sl else None), "panics": [lf for lf in leaves if lf.ret[0] == "panic"], "piece_discr": pd}
    _CACHE[ck] = res
    return res


def rights_of(P, slf, final):
    """How the castling rights of the successor are derived from the mover's, read off the final value of the field (whatever helper - a `&mut self`
    method, a by-value method, or code written in place - did it): the conjuncts of `rights.0`, as ('base',) for the mover's own rights,
    ('mask', colour index term, square term) for a read of the per-square table, ('other', term) for anything else."""
    names = [f["name"] for f in P.adt(MG + "Board")["variants"][0]["fields"]]
    try:
        cr = T.get_path(final, (("f", names.index("castle_rights"), "castle_rights", None),))
        w = T.get_path(cr, (("f", 0, "0", None),))
    except Exception:
        return [("other", ("unreadable",))]
    parts, work = [], [w]
    while work:
        x = work.pop()
        if x[0] == "bin" and x[1] == "BitAnd":
            work += [x[2], x[3]]
        else:
            parts.append(x)
    out = []
    for x in parts:
        if x == ("field", ("field", slf, "castle_rights"), "0"):
            out.append(("base",))
        elif (x[0] == "field" and x[2] in ("0", 0) and x[1][0] == "index" and x[1][1][0] == "index" and x[1][1][1] == ("obj", ("static", RIGHTS_TABLE))):
            strip = lambda i: i[2] if i[0] == "cast" else i
            out.append(("mask", strip(x[1][1][2]), strip(x[1][2])))
        else:
            out.append(("other", x))
    return out


def _sub(t):
    out = []

    def walk(x):
        if isinstance(x, tuple) and x:
            out.append(x)
            for y in x:
                walk(y)
    walk(t)
    return out


def field_at_loop(p, name, idx=None):
    """Final value of output.<name> at the loop entry (through the upd chain)."""
    v = p.final
    # strip `mutated` wrappers produced by opaque &mut callees: look through to the inner object for fields they do not touch
    return _get_field(v, name)


def _get_field(v, name):
    while True:
        if v[0] == "upd":
            path, val = v[2], v[3]
            if len(path) == 1 and path[0][0] == "f" and path[0][2] == name:
                return val
            if path and path[0][0] == "f" and path[0][2] == name:
                return ("upd_partial", _get_field(v[1], name), path[1:], val)
            v = v[1]
            continue
        if v[0] == "mutated":
            # mutated(key, args, i): the object passed as args[i] before the call
            inner = v[2][v[3]]
            v = inner[1] if inner[0] == "refv" else inner
            continue
        return ("field", v, name)
