"""K4: decision-table extraction / term reconstruction over the serialised MIR.

Constant and copy propagation through loop-free bodies, splitting only on the discriminant of an
enum-typed value or on a SwitchInt over an (opaque) integer/bool term.  Workspace callees are
inlined to a bounded depth; anything else stays an uninterpreted application `("app", f, args)`.
No loops are unrolled (a back edge raises NotTabulable), no solver is consulted: the only path
information kept is "term t has value v" for terms that were switched on.

Terms are nested tuples (hashable):
  ("int", v, ty)                      integer / bool / char constant
  ("adt", adt, variant, (fields..))   constructor application
  ("tuple", (..)) ("array", (..)) ("repeat", t, n)
  ("ref", loc)                        loc = ("local", frame, idx, path) | ("ext", base, path)
  ("param", i, name)                  opaque parameter
  ("obj", base)                       the object an opaque reference `base` points to
  ("field", t, name) ("vfield", t, variant, i) ("index", t, i) ("cindex", t, off, from_end)
  ("app", fn, (args..))               uninterpreted call
  ("bin", op, a, b) ("un", op, a) ("cast", ty, a) ("discr", t) ("len", t)
  ("fn", key) ("closure", key, (captures..)) ("str", s) ("zst", ty) ("const", key) ("static", key)
  ("upd", base, path, value)          opaque aggregate with one component overwritten
"""
import re
from . import cfg as _cfg
from . import facts as _facts

MASKS = {"u8": 8, "u16": 16, "u32": 32, "u64": 64, "u128": 128, "usize": 64,
         "i8": 8, "i16": 16, "i32": 32, "i64": 64, "i128": 128, "isize": 64, "bool": 1, "char": 32}
COMMUTATIVE = {"BitAnd", "BitOr", "BitXor", "Add", "Mul", "Eq", "Ne", "AddUnchecked", "MulUnchecked"}
WORKSPACE = ("chess_bitboard", "chess_lookup", "chess_movegen", "chess_engine", "chess_api", "chess_bot", "tracing_enabled",
             "chess_cli", "chess_wasm")

STD_ENUMS = {
    "core::option::Option": [("None", 0, 0), ("Some", 1, 1)],
    "core::result::Result": [("Ok", 0, 1), ("Err", 1, 1)],
    "core::cmp::Ordering": [("Less", -1, 0), ("Equal", 0, 0), ("Greater", 1, 0)],
    "core::ops::control_flow::ControlFlow": [("Continue", 0, 1), ("Break", 1, 1)],
}


class NotTabulable(Exception):
    pass


def is_const(t):
    return t[0] == "int"


def I(v, ty):
    bits = MASKS.get(ty)
    if bits is not None:
        if ty.startswith("i"):
            v &= (1 << bits) - 1
            if v >> (bits - 1):
                v -= 1 << bits
        else:
            v &= (1 << bits) - 1
    return ("int", v, ty)


TRUE, FALSE = ("int", 1, "bool"), ("int", 0, "bool")


def mk_bool(b):
    return TRUE if b else FALSE


def ordering(c):
    return ("adt", "core::cmp::Ordering", {-1: "Less", 0: "Equal", 1: "Greater"}[c], ())


def strip_generics(name):
    """`core::option::Option::<T>::map::<U, F>` -> `core::option::Option::map`."""
    out, depth = [], 0
    i = 0
    while i < len(name):
        c = name[i]
        if c == "<" and i >= 2 and name[i - 2:i] == "::":
            depth += 1
            del out[-2:]
        elif depth and c == "<":
            depth += 1
        elif depth and c == ">" and (i == 0 or name[i - 1] != "-"):
            depth -= 1
        elif not depth:
            out.append(c)
        i += 1
    return "".join(out)


class Frame:
    __slots__ = ("id", "key", "locals", "body")

    def __init__(self, fid, key, body):
        self.id, self.key, self.body, self.locals = fid, key, body, {}

    def copy(self):
        f = Frame(self.id, self.key, self.body)
        f.locals = dict(self.locals)
        return f


class State:
    def __init__(self):
        self.frames = {}
        self.ext = {}
        self.cond = []
        self.known = {}     # term -> variant name (discriminant knowledge)
        self.vals = {}      # opaque int term -> int it was found equal to
        self.neq = {}       # opaque int term -> set of ints it differs from
        self.trace = []     # ordered effects of modelled operations
        self.next_frame = 0
        self.stack = ()

    def fork(self):
        s = State()
        s.frames = {k: f.copy() for k, f in self.frames.items()}
        s.ext = dict(self.ext)
        s.cond = list(self.cond)
        s.known = dict(self.known)
        s.vals = dict(self.vals)
        s.neq = {k: set(v) for k, v in self.neq.items()}
        s.trace = list(self.trace)
        s.next_frame = self.next_frame
        s.stack = self.stack
        return s

    def new_frame(self, key, body):
        f = Frame(self.next_frame, key, body)
        self.next_frame += 1
        self.frames[f.id] = f
        return f


class Leaf:
    def __init__(self, state, ret, eng=None):
        cond = state.cond
        self.cond, self.ret, self.ext, self.trace, self.known, self.state = cond, ret, state.ext, state.trace, state.known, state

    def __repr__(self):
        return f"Leaf(cond={self.cond}, ret={self.ret})"


# ------------------------------------------------------------------ path helpers
def get_path(v, path):
    for e in path:
        v = project(v, e)
    return v


def project(v, e):
    k = e[0]
    if v[0] == "upd":
        _, base, wp, new = v
        # handled one element at a time: compare first element
        if wp and wp[0] == e:
            if len(wp) == 1:
                return new
            return ("upd", project(base, e), wp[1:], new)
        return project(base, e)
    if k == "f":          # ("f", idx, name, variant or None)
        _, idx, name, variant = e
        if v[0] == "adt":
            if variant is not None and v[2] != variant:
                return ("unknown", f"field of variant {variant} read from {v[2]}")
            if idx < len(v[3]):
                return v[3][idx]
            return ("unknown", "field index out of range")
        if v[0] == "tuple":
            return v[1][idx] if idx < len(v[1]) else ("unknown", "tuple index")
        if v[0] == "closure":
            return v[2][idx] if idx < len(v[2]) else ("unknown", "capture index")
        if v[0] == "downcast":
            return ("vfield", v[1], v[2], idx)
        if variant is not None:
            return ("vfield", v, variant, idx)
        return ("field", v, name if name is not None else idx)
    if k == "dc":
        if v[0] == "adt":
            return v if v[2] == e[1] else ("unknown", f"downcast to {e[1]} of {v[2]}")
        return ("downcast", v, e[1])
    if k == "i":
        idx = e[1]
        if v[0] == "array" and is_const(idx) and 0 <= idx[1] < len(v[1]):
            return v[1][idx[1]]
        if v[0] == "repeat":
            return v[1]
        return ("index", v, idx)
    if k == "ci":
        _, off, minlen, from_end = e
        if v[0] == "array":
            i = len(v[1]) - off if from_end else off
            if 0 <= i < len(v[1]):
                return v[1][i]
        return ("cindex", v, off, from_end)
    if k == "ss":
        _, a, b, from_end = e
        if v[0] == "array":
            return ("array", v[1][a: (len(v[1]) - b) if from_end else b])
        return ("subslice", v, a, b, from_end)
    return ("unknown", f"projection {e}")


def set_path(v, path, new):
    if not path:
        return new
    e = path[0]
    k = e[0]
    if k == "f":
        _, idx, name, variant = e
        if v[0] == "adt" and (variant is None or v[2] == variant) and idx < len(v[3]):
            fs = list(v[3])
            fs[idx] = set_path(fs[idx], path[1:], new)
            return ("adt", v[1], v[2], tuple(fs))
        if v[0] == "tuple" and idx < len(v[1]):
            fs = list(v[1])
            fs[idx] = set_path(fs[idx], path[1:], new)
            return ("tuple", tuple(fs))
    if k == "i" and v[0] == "array" and is_const(e[1]) and 0 <= e[1][1] < len(v[1]):
        fs = list(v[1])
        fs[e[1][1]] = set_path(fs[e[1][1]], path[1:], new)
        return ("array", tuple(fs))
    if k == "dc":
        return set_path(v, path[1:], new) if v[0] == "adt" else ("upd", v, tuple(path), new)
    return ("upd", v, tuple(path), new)


def pj_elem(engine, state, frame, e):
    if e == "d":
        return ("d",)
    if "f" in e:
        return ("f", e["f"], e.get("n"), e.get("v"))
    if "dc" in e:
        return ("dc", e.get("n", e["dc"]))
    if "i" in e:
        return ("i", frame.locals.get(e["i"], ("undef",)))
    if "ci" in e:
        return ("ci", e["ci"][0], e["ci"][1], e["ci"][2])
    if "ss" in e:
        return ("ss", e["ss"][0], e["ss"][1], e["ss"][2])
    return ("x", str(e))


_FRAMES = {}


class Engine:
    def __init__(self, P, opaque=(), inline_depth=6, max_states=60000, subst=None, models=None, inline_extern=(), loops="fail"):
        self.P = P
        self.loops = loops          # "fail": a back edge raises NotTabulable; "havoc": generic-iteration abstraction
        self.skip_tracing = True
        self.trace_calls = set()    # opaque callees whose calls are recorded (in order) in the path trace
        self.unroll_arrays = True   # loops over arrays of known elements are executed element by element (False: generic-iteration abstraction as for any loop)
        self.stop_terms = set()     # blocks of the top-level function whose terminator ends a region() exploration
        self.mod_summaries = {}     # opaque callee -> (index of the &mut argument, pointee ADT, fields it may modify)
        self.opaque = set(opaque)
        self.inline_depth = inline_depth
        self.max_states = max_states
        self.subst = subst or {}
        self.models = dict(DEFAULT_MODELS)
        if models:
            self.models.update(models)
        self.discr_info = {}   # term -> variants list [(name, discr, nfields)]
        self.const_cache = {}
        self.states_created = 0
        self.inlined = set()
        self.apps = set()

    # ---------------------------------------------------------- locations
    def loc_of_place(self, state, frame, place):
        loc = ("local", frame.id, place["l"], ())
        for e in place["pj"]:
            pe = pj_elem(self, state, frame, e)
            if pe[0] == "d":
                v = self.read_loc(state, loc)
                loc = self.deref_loc(v)
            else:
                loc = loc[:-1] + (loc[-1] + (pe,),)
        return loc

    def deref_loc(self, v):
        if v[0] == "ref":
            return v[1]
        if v[0] == "refv":
            return ("val", v[1], ())
        if v[0] in ("str", "mem"):
            return ("val", v, ())
        return ("ext", v, ())

    def read_loc(self, state, loc):
        if loc[0] == "val":
            return get_path(loc[1], loc[2])
        if loc[0] == "local":
            f = state.frames.get(loc[1])
            v = f.locals.get(loc[2], ("undef",)) if f else ("undef",)
            return get_path(v, loc[3])
        base = state.ext.get(loc[1], ("obj", loc[1]))
        return get_path(base, loc[2])

    def write_loc(self, state, loc, value):
        if loc[0] == "val":
            return
        if loc[0] == "local":
            f = state.frames[loc[1]]
            f.locals[loc[2]] = set_path(f.locals.get(loc[2], ("undef",)), loc[3], value)
        else:
            base = state.ext.get(loc[1], ("obj", loc[1]))
            state.ext[loc[1]] = set_path(base, loc[2], value)

    def read_place(self, state, frame, place):
        if not place["pj"]:
            return frame.locals.get(place["l"], ("undef",))
        return self.read_loc(state, self.loc_of_place(state, frame, place))

    # ---------------------------------------------------------- operands
    def const_term(self, state, o, frame):
        if "promoted" in o:
            return self.eval_closed(state, o["promoted"])
        if "uneval" in o:
            key = self.apply_subst(o["uneval_args"])
            if key in self.P.const_bodies:
                return self.eval_closed(state, key)
            return ("uneval", key)
        if "param" in o:
            name = o["param"]
            if name in self.subst:
                return self.subst[name]
            return ("cparam", name)
        c = o.get("c")
        if c is None:
            return ("unknown", "const")
        ty = o["ty"]
        if "int" in c:
            if ty in MASKS:
                return I(int(c["int"]), ty)
            # scalar of a non-integer type (fieldless enum, newtype): prefer the structured initialiser
            if "from" in o and o["from"] in self.P.const_bodies:
                return self.eval_closed(state, o["from"])
            adt = self.P.adts.get(ty)
            if adt and adt["kind"] == "enum":
                for v in adt["variants"]:
                    if "discr" in v and int(v["discr"]) == int(c["bits"]) and not v["fields"]:
                        return ("adt", ty, v["name"], ())
            return ("scalar", int(c["bits"]), ty)
        if "fn" in c:
            return ("fn", c["fn"], c.get("fn_args", c["fn"]))
        if "str" in c:
            return ("str", c["str"])
        if "zst" in c:
            return ("zst", c["zst"])
        if "from" in o and o["from"] in self.P.const_bodies:
            return self.eval_closed(state, o["from"])
        if "ptr" in c:
            t = c["ptr"]
            if "static" in t:
                return ("ref", ("ext", ("static", t["static"]), ()))
            if "from" in o:
                return ("const", o["from"])
            if "mem" in t:
                return ("refv", ("mem", t["mem"], t.get("len", 0)))
            return ("ref", ("ext", ("alloc", str(t)[:80]), ()))
        if "bytes" in c:
            if "from" in o:
                return ("const", o["from"])
            return ("bytes", c["bytes"], ty)
        return ("unknown", "const form")

    def eval_closed(self, state, key):
        """Value of a promoted / const initialiser body (closed, evaluated by the same propagation)."""
        if key in self.const_cache:
            kind, val = self.const_cache[key]
            if kind == "val":
                return val
        body = self.P.fns.get(key) or self.P.const_bodies.get(key)
        if body is None:
            return ("const", key)
        try:
            sub = State()
            sub.next_frame = 1000000 + 1000 * len(self.const_cache)
            leaves = self.run_body(sub, key, body, [], depth=0)
        except NotTabulable:
            self.const_cache[key] = ("val", ("const", key))
            return ("const", key)
        if len(leaves) != 1:
            self.const_cache[key] = ("val", ("const", key))
            return ("const", key)
        st, ret = leaves[0]
        val = self.freeze(st, ret)
        if not closed(val) and key in self.P.const_bodies and self.P.const_bodies[key].get("kind") != "promoted":
            val = ("const", key)
        self.const_cache[key] = ("val", val)
        return val

    def freeze(self, state, t, seen=frozenset()):
        """Replace references into (dead) frames by the referenced value: ("ref", loc) -> ("refv", value)."""
        if not isinstance(t, tuple) or not t:
            return t
        if t[0] == "ref":
            loc = t[1]
            if loc in seen:
                return ("ref", ("cyclic",) + tuple(loc[:3]))
            if loc[0] == "val":
                return ("refv", self.freeze(state, get_path(loc[1], loc[2]), seen))
            if loc[0] == "local":
                return ("refv", self.freeze(state, self.read_loc(state, loc), seen | {loc}))
            return ("refv", self.freeze(state, self.read_loc(state, loc), seen | {loc}))
        return tuple(self.freeze(state, x, seen) if isinstance(x, tuple) else x for x in t)

    def operand(self, state, frame, o):
        k = o["k"]
        if k in ("copy", "move"):
            return self.read_place(state, frame, o["p"])
        if k == "const":
            return self.const_term(state, o, frame)
        if k == "fnref":
            return ("fn", o["fn"], o.get("fn_args", o["fn"]))
        if k == "rtc":
            return ("rtc", o.get("s", ""))
        return ("unknown", "operand")

    def deref_value(self, state, v):
        """The value a reference-typed term points to."""
        if v[0] == "ref":
            return self.read_loc(state, v[1])
        if v[0] == "refv":
            return v[1]
        return self.read_loc(state, ("ext", v, ()))

    # ---------------------------------------------------------- rvalues
    def binop(self, op, a, b):
        base = op.replace("WithOverflow", "").replace("Unchecked", "")
        with_ovf = op.endswith("WithOverflow")
        if is_const(a) and is_const(b):
            ty = a[2]
            x, y = a[1], b[1]
            bits = MASKS.get(ty, 64)
            r = None
            if base == "Add":
                r = x + y
            elif base == "Sub":
                r = x - y
            elif base == "Mul":
                r = x * y
            elif base == "Div" and y != 0:
                r = abs(x) // abs(y) * (1 if (x >= 0) == (y >= 0) else -1)
            elif base == "Rem" and y != 0:
                r = abs(x) % abs(y) * (1 if x >= 0 else -1)
            elif base == "BitAnd":
                r = x & y
            elif base == "BitOr":
                r = x | y
            elif base == "BitXor":
                r = x ^ y
            elif base == "Shl":
                r = x << (y % bits)
            elif base == "Shr":
                r = x >> (y % bits)
            elif base in ("Eq", "Ne", "Lt", "Le", "Gt", "Ge"):
                return mk_bool({"Eq": x == y, "Ne": x != y, "Lt": x < y, "Le": x <= y, "Gt": x > y, "Ge": x >= y}[base])
            elif base == "Cmp":
                return ordering((x > y) - (x < y))
            if r is not None:
                res = I(r, ty)
                if with_ovf:
                    return ("tuple", (res, mk_bool(res[1] != r)))
                return res
        if base == "Cmp":
            return ("cmp", a, b)
        if base in COMMUTATIVE and repr(b) < repr(a):
            a, b = b, a
        # algebraic identities that keep terms canonical
        if base in ("BitAnd", "BitOr") and a == b:
            t = a
        elif base == "BitXor" and is_const(a) and a[1] == 0:
            t = b
        elif base == "BitXor" and is_const(b) and b[1] == 0:
            t = a
        elif base == "BitOr" and is_const(a) and a[1] == 0:
            t = b
        elif base == "BitOr" and is_const(b) and b[1] == 0:
            t = a
        elif base in ("Eq", "Ne") and a == b and a[0] in ("int", "adt"):
            t = mk_bool(base == "Eq")
        else:
            t = ("bin", base, a, b)
        if with_ovf:
            return ("tuple", (t, ("ovf", base, a, b)))
        return t

    def unop(self, op, a):
        if op == "Not":
            if is_const(a):
                if a[2] == "bool":
                    return mk_bool(not a[1])
                return I(~a[1], a[2])
            if a[0] == "un" and a[1] == "Not":
                return a[2]
            return ("un", "Not", a)
        if op == "Neg":
            if is_const(a):
                return I(-a[1], a[2])
            return ("un", "Neg", a)
        if op == "PtrMetadata":
            v = a
            if v[0] == "refv" and v[1][0] == "array":
                return I(len(v[1][1]), "usize")
            return ("len", a)
        return ("un", op, a)

    def cast(self, state, ck, v, ty):
        if ck in ("IntToInt",):
            if is_const(v) and ty in MASKS:
                return I(v[1], ty)
            if v[0] == "adt" and not v[3] and ty in MASKS:
                d = self.variant_discr(v[1], v[2])
                if d is not None:
                    return I(d, ty)
            if v[0] == "cast" and v[1] == ty:
                return v
            return ("cast", ty, v)
        if ck in ("PointerCoercion", "PtrToPtr", "Subtype"):
            return v
        if ck == "Transmute":
            return ("transmute", ty, v)
        return ("cast", ty, v)

    def variant_discr(self, adt, vname):
        if adt in STD_ENUMS:
            for n, d, _ in STD_ENUMS[adt]:
                if n == vname:
                    return d
        a = self.P.adts.get(adt)
        if a:
            for i, v in enumerate(a["variants"]):
                if v["name"] == vname:
                    return int(v["discr"]) if "discr" in v else i
        return None

    def rvalue(self, state, frame, r):
        k = r["k"]
        if k == "use":
            return self.operand(state, frame, r["o"])
        if k in ("ref", "rawptr"):
            return ("ref", self.loc_of_place(state, frame, r["p"]))
        if k == "cfd":
            return self.read_place(state, frame, r["p"])
        if k == "cast":
            return self.cast(state, r["ck"], self.operand(state, frame, r["o"]), r["ty"])
        if k == "bin":
            res = self.binop(r["op"], self.operand(state, frame, r["a"]), self.operand(state, frame, r["b"]))
            if r["op"].endswith("WithOverflow") and res[0] == "tuple" and res[1][1][0] == "ovf":
                ty = r["a"].get("ty") or r["a"].get("p", {}).get("ty") or r["b"].get("ty") or r["b"].get("p", {}).get("ty")
                res = ("tuple", (res[1][0], res[1][1] + (ty,)))
            return res
        if k == "un":
            return self.unop(r["op"], self.operand(state, frame, r["o"]))
        if k == "discr":
            v = self.read_place(state, frame, r["p"])
            variants = [(n, int(d), int(nf)) for n, d, nf in r.get("variants", [])]
            return self.discr_of(state, v, variants, r.get("adt"))
        if k == "agg":
            ops = tuple(self.operand(state, frame, o) for o in r["ops"])
            ak = r["ak"]
            if ak == "adt":
                return ("adt", r["adt"], r["vn"], ops)
            if ak == "tuple":
                return ("tuple", ops)
            if ak == "array":
                return ("array", ops)
            if ak == "closure":
                return ("closure", r["fn"], ops)
            return ("agg", ak, ops)
        if k == "repeat":
            v = self.operand(state, frame, r["o"])
            n = r.get("n")
            if n is not None and n <= 64:
                return ("array", (v,) * n)
            return ("repeat", v, n)
        if k == "tls":
            return ("ref", ("ext", ("tls", r["def"]), ()))
        return ("unknown", f"rvalue {k}")

    def discr_of(self, state, v, variants, adt):
        if v[0] == "adt":
            for n, d, _ in variants:
                if n == v[2]:
                    ty = "isize"
                    return ("int", d, ty)
            d = self.variant_discr(v[1], v[2])
            if d is not None:
                return ("int", d, "isize")
        if v in state.known:
            for n, d, _ in variants:
                if n == state.known[v]:
                    return ("int", d, "isize")
        t = ("discr", v)
        if variants:
            self.discr_info[t] = variants
        return t

    # ---------------------------------------------------------- calls
    def apply_subst(self, s):
        for k, v in self.subst.items():
            if isinstance(v, str):
                s = re.sub(r"(?<![A-Za-z0-9_:])" + re.escape(k) + r"(?![A-Za-z0-9_])", v, s)
        return s

    def resolve_callee(self, f):
        """(key for lookup in P.fns, display name)."""
        key = f["fn"]
        if not f.get("resolved") or (key == f.get("decl") and key not in self.P.fns):
            cand = self.apply_subst(f.get("decl_args", key))
            cand2 = strip_turbofish(cand)
            for c in (cand, cand2):
                if c in self.P.fns:
                    return c
        return key

    def call(self, state, frame, t, depth):
        """Returns list of (state, result term)."""
        f = t["f"]
        args = [self.operand(state, frame, a) for a in t["a"]]
        if f.get("k") == "fnref":
            key = self.resolve_callee(f)
            fn_args = f.get("fn_args", f.get("decl_args", key))
        else:
            fv = self.operand(state, frame, f)
            if fv[0] == "fn":
                key, fn_args = fv[1], fv[2]
            elif fv[0] == "closure":
                return self.call_value(state, fv, args, depth)
            else:
                return [(state, ("app", "<indirect>", (fv,) + tuple(args)))]
        return self.call_key(state, key, fn_args, args, depth, t)

    def call_value(self, state, fv, args, depth):
        """Call a closure / fn value with an argument list (already untupled)."""
        if fv[0] == "closure":
            body = self.P.fns.get(fv[1])
            if body is not None and depth < self.inline_depth:
                # closure bodies take (self/env ref, args...)
                env_ty = body["locals"][1]["ty"] if len(body["locals"]) > 1 else ""
                env = fv
                if env_ty.startswith("&"):
                    st2 = state
                    holder = ("closure_env", fv)
                    st2.ext[holder] = fv
                    env = ("ref", ("ext", holder, ()))
                return self.run_body(state, fv[1], body, [env] + list(args), depth + 1)
            return [(state, ("app", fv[1], tuple(args)))]
        if fv[0] == "fn":
            return self.call_key(state, fv[1], fv[2], list(args), depth, None)
        return [(state, ("app", "<indirect>", (fv,) + tuple(args)))]

    def call_key(self, state, key, fn_args, args, depth, term):
        name = strip_generics(key)
        m = self.models.get(name)
        if m is not None:
            r = m(self, state, args, {"key": key, "fn_args": fn_args, "depth": depth, "term": term})
            if r is not None:
                return r
        body = self.P.fns.get(key)
        crate = key.lstrip("<").split("::", 1)[0]
        if (body is not None and key not in self.opaque and name not in self.opaque and depth < self.inline_depth
                and (crate in WORKSPACE or key.startswith("<chess") or key.startswith("<tracing"))
                and not self.in_stack(state, key)):
            try:
                saved = state.fork()
                res = self.run_body(state, key, body, args, depth + 1)
                self.inlined.add(key)
                return res
            except NotTabulable:
                state = saved
        self.apps.add(key)
        frozen_now = tuple(self.freeze(state, x) for x in args)
        app = ("app", fn_args if isinstance(fn_args, str) and fn_args else key, frozen_now)
        if key in self.trace_calls:
            state.trace.append(("call", key, frozen_now, fn_args if isinstance(fn_args, str) else ""))
        # a callee that receives `&mut` may write through it: forget what is known about the pointee
        if term is not None:
            frozen = None
            for i, a in enumerate(term["a"]):
                pty = a.get("p", {}).get("ty", "") if a.get("k") in ("copy", "move") else a.get("ty", "")
                if pty.startswith("&mut") and args[i][0] == "ref":
                    if frozen is None:
                        frozen = tuple(self.freeze(state, x) for x in args)
                        app = ("app", app[1], frozen)
                    summ = self.mod_summaries.get(key)
                    if summ is not None and summ[0] == i:
                        # frame rule from the callee's own effect summary: only these fields of the pointee change
                        adt = self.P.adts.get(summ[1])
                        names = [f["name"] for f in adt["variants"][0]["fields"]] if adt else []
                        loc = args[i][1]
                        for fname in summ[2]:
                            if fname in names:
                                self.write_loc(state, loc[:-1] + (loc[-1] + (("f", names.index(fname), fname, None),),), ("mutated", key, frozen, i, fname))
                        continue
                    self.write_loc(state, args[i][1], ("mutated", key, frozen, i))
        return [(state, app)]

    def in_stack(self, state, key):
        return key in state.stack

    # ---------------------------------------------------------- execution
    def run_body(self, state, key, body, args, depth, start=0, stops=(), init_locals=False):
        frame = state.new_frame(key, body)
        if init_locals:
            for i, l in enumerate(body["locals"]):
                frame.locals[i] = ("init", i, l.get("n"))
        for i, a in enumerate(args):
            frame.locals[i + 1] = a
        fid = frame.id
        entry_stack = state.stack
        state.stack = entry_stack + (key,)
        out = []
        loops = _cfg.cfg_of(body).loops() if self.loops == "havoc" else {}
        work = [(state, start, frozenset())]
        while work:
            st, bi, seen = work.pop()
            self.states_created += 1
            if self.states_created > self.max_states:
                raise NotTabulable(f"state explosion in {key}")
            unroll = False
            if bi in loops or (bi in seen and self.loops != "havoc"):
                # a loop driven by a cursor over an array of known elements is executed iteration by iteration (bounded by the array length)
                fr_ = st.frames[fid]
                unroll = any(isinstance(v, tuple) and v and v[0] == "arrayiter" and v[2] <= len(v[1]) for v in fr_.locals.values())
                if unroll and bi in seen:
                    lb = loops.get(bi) if loops else None
                    if lb is None:
                        lb = _cfg.cfg_of(body).loops().get(bi)
                    unroll = lb is not None and self._cursor_in_loop(fr_, body, lb)
                    if unroll:
                        seen = seen - set(lb)
                elif unroll:
                    unroll = self._cursor_in_loop(fr_, body, loops[bi])
            if bi in seen:
                if bi in loops:
                    # back edge: one generic iteration has been summarised; the path ends here
                    st.stack = entry_stack
                    out.append((st, ("loopback", bi, depth)))
                    continue
                raise NotTabulable(f"loop in {key} at bb{bi}")
            if bi in stops and seen:
                st.stack = entry_stack
                out.append((st, ("stop", bi)))
                continue
            if bi in loops and not unroll:
                self.havoc_loop(st, st.frames[fid], body, bi, loops[bi])
            seen = seen | {bi}
            fr = st.frames[fid]
            blk = body["blocks"][bi]
            for s in blk["s"]:
                if s["k"] == "assign":
                    v = self.rvalue(st, fr, s["r"])
                    p = s["p"]
                    if not p["pj"]:
                        fr.locals[p["l"]] = v
                    else:
                        self.write_loc(st, self.loc_of_place(st, fr, p), v)
                elif s["k"] == "setdiscr":
                    pass
            if depth == 0 and bi in self.stop_terms and bi != start:
                # stop in front of this block's terminator (e.g. the call that hands the remaining work to a helper)
                st.stack = entry_stack
                out.append((st, ("stop", bi)))
                continue
            t = blk["t"]
            k = t["k"]
            if k == "goto":
                work.append((st, t["t"], seen))
            elif k == "ret":
                st.stack = entry_stack
                out.append((st, fr.locals.get(0, ("tuple", ()))))
            elif k == "switch":
                for st2, tgt in self.switch(st, fr, t):
                    work.append((st2, tgt, seen))
            elif k == "call":
                if t["t"] is None:
                    # diverging call (panic): the path ends here
                    callee = t["f"].get("fn", "?") if t["f"].get("k") == "fnref" else "?"
                    out.append((st, ("panic", callee, t.get("sp", ""), (key, bi))))
                    continue
                unwrapish = t["f"].get("k") == "fnref" and UNWRAP_RE.search(t["f"].get("fn", "")) is not None
                for st2, res in self.call(st, fr, t, depth):
                    if unwrapish:
                        st2.trace.append(("site", (key, bi), "fail" if res[0] == "panic" else ("unknown" if res[0] in ("unwrap", "unwrap_unchecked", "app") else "safe")))
                    if res[0] == "loopback":
                        # a generic iteration of a loop inside an inlined callee: not a return of this function; surfaced as a leaf of its own
                        # (depth > 0, callee recorded) so that rules see the loop of a helper extracted from the function they read
                        st2.stack = entry_stack
                        out.append((st2, res if len(res) > 3 else res + (t["f"].get("fn", "?"),)))
                        continue
                    if res[0] == "panic":
                        st2.stack = entry_stack
                        out.append((st2, res))
                        continue
                    fr2 = st2.frames[fid]
                    d = t["d"]
                    if not d["pj"]:
                        fr2.locals[d["l"]] = res
                    else:
                        self.write_loc(st2, self.loc_of_place(st2, fr2, d), res)
                    work.append((st2, t["t"], seen))
            elif k == "assert":
                c = self.operand(st, fr, t["c"])
                exp = 1 if t["e"] else 0
                if is_const(c):
                    if c[1] != exp:
                        st.trace.append(("site", (key, bi), "fail"))
                        out.append((st, ("panic", "assert:" + t["m"]["k"], t.get("sp", ""), (key, bi))))
                        continue
                    st.trace.append(("site", (key, bi), "safe"))
                elif c[0] != "rtc":
                    st.cond.append((("assert", t["m"]["k"] + (":" + t["m"]["op"] if "op" in t["m"] else ""), self.freeze(st, c), (key, bi)), exp))
                work.append((st, t["t"], seen))
            elif k == "drop":
                work.append((st, t["t"], seen))
            elif k in ("unreachable", "resume", "terminate"):
                continue
            else:
                raise NotTabulable(f"terminator {k} in {key}")
        return out

    def borrow_frame(self, body, tmp, place):
        """A `&mut place` stored in the temporary `tmp` whose only uses are as the receiver/argument of workspace callees with a known frame
        (mod_fields): the set of (field element) projections of `place` those callees may modify; None if unknown."""
        adt = self.P.adts.get(place.get("ty", ""))
        if not adt or adt["kind"] != "struct":
            return None
        fields = set()
        used = False
        for blk in body["blocks"]:
            for s in blk["s"]:
                for o in _facts.walk_operands(s):
                    if o.get("k") in ("copy", "move") and o["p"]["l"] == tmp:
                        return None                                   # flows somewhere other than a call argument
                if s["k"] == "assign" and s["p"]["l"] == tmp and s["p"]["pj"]:
                    return None                                       # written through
            t = blk["t"]
            if t["k"] != "call":
                for o in _facts.walk_operands(t):
                    if o.get("k") in ("copy", "move") and o["p"]["l"] == tmp:
                        return None
                continue
            for j, a in enumerate(t["a"]):
                if a.get("k") in ("copy", "move") and a["p"]["l"] == tmp:
                    if a["p"]["pj"] or t["f"].get("k") != "fnref" or t["f"].get("fn") not in self.P.fns or t["f"]["fn"] in self.opaque:
                        return None
                    ck = (id(self.P), t["f"]["fn"], j)
                    if ck not in _FRAMES:
                        _FRAMES[ck] = None                            # recursion guard
                        try:
                            _FRAMES[ck] = mod_fields(self.P, t["f"]["fn"], j)
                        except (NotTabulable, _facts.AnchorError, KeyError, IndexError):
                            _FRAMES[ck] = None
                    fr_ = _FRAMES[ck]
                    if fr_ is None:
                        return None
                    fields |= fr_
                    used = True
        if not used:
            return None
        out = []
        for i, f in enumerate(adt["variants"][0]["fields"]):
            if f["name"] in fields:
                out.append({"f": i, "ty": f["ty"], "n": f["name"], "a": place["ty"]})
        return out if len(out) == len(fields) else None

    def loop_places(self, body, blocks):
        """assigned_places, with a whole-object mutable borrow narrowed to the fields its (workspace) callees may modify."""
        out = []
        for i in blocks:
            b = body["blocks"][i]
            for s in b["s"]:
                if s["k"] == "assign":
                    out.append(s["p"])
                    r = s["r"]
                    if (r.get("k") == "ref" and r.get("bk") == "mut") or (r.get("k") == "rawptr" and str(r.get("m", "")).startswith("Mut")):
                        els = self.borrow_frame(body, s["p"]["l"], r["p"]) if r.get("k") == "ref" and not s["p"]["pj"] else None
                        if els is None:
                            out.append(r["p"])
                        else:
                            for el in els:
                                out.append({"l": r["p"]["l"], "pj": list(r["p"]["pj"]) + [el], "ty": el["ty"]})
            t = b["t"]
            if t["k"] == "call":
                out.append(t["d"])
        return out

    def _cursor_in_loop(self, fr, body, blocks):
        """some local mutably borrowed inside the loop holds a concrete array cursor (the `next(&mut iter)` of a `for` over a literal array)"""
        for i in blocks:
            for s in body["blocks"][i]["s"]:
                r = s.get("r", {})
                if s["k"] == "assign" and r.get("k") == "ref" and r.get("bk") == "mut" and not r["p"]["pj"]:
                    v = fr.locals.get(r["p"]["l"])
                    if isinstance(v, tuple) and v and v[0] == "arrayiter":
                        return True
        return False

    def havoc_loop(self, st, fr, body, header, blocks):
        """Generic-iteration abstraction: every place assigned (or mutably borrowed) inside the loop gets an opaque
        loop-carried value ("loopvar", header, place id, value on loop entry)."""
        n = 0
        done = set()
        for p in self.loop_places(body, sorted(blocks)):
            pid = (p["l"], tuple(str(e) if not isinstance(e, dict) else tuple(sorted((k, str(v)) for k, v in e.items() if k in ("f", "dc", "n"))) for e in p["pj"]))
            if pid in done:
                continue
            done.add(pid)
            try:
                if not p["pj"]:
                    init = self.freeze(st, fr.locals.get(p["l"], ("undef",)))
                    fr.locals[p["l"]] = ("loopvar", header, pid, init)
                else:
                    loc = self.loc_of_place(st, fr, p)
                    init = self.freeze(st, self.read_loc(st, loc))
                    self.write_loc(st, loc, ("loopvar", header, pid, init))
            except NotTabulable:
                raise
            except Exception as e:
                # a place that cannot be given a loop-carried value must not silently keep its pre-loop value
                raise NotTabulable(f"cannot summarise loop-assigned place {pid} at bb{header}: {type(e).__name__}")
            n += 1
        return n

    def switch(self, st, fr, t):
        d = self.operand(st, fr, t["d"])
        targets = [(int(v), b) for v, b in t["tg"]]
        other = t["o"]
        ty = t["ty"]
        if is_const(d):
            v = d[1]
            if ty in MASKS and not ty.startswith("i"):
                v &= (1 << MASKS[ty]) - 1
            for tv, b in targets:
                tvn = tv
                if ty.startswith("i") and ty in MASKS:
                    # switch values are stored as unsigned bit patterns
                    tvn = I(tv, ty)[1]
                if tvn == d[1] or tv == v:
                    return [(st, b)]
            return [(st, other)]
        if d[0] == "discr":
            x = d[1]
            variants = self.discr_info.get(d)
            out = []
            covered = set()
            for tv, b in targets:
                name = None
                if variants:
                    for nm, dv, _ in variants:
                        if dv == tv or (dv < 0 and (dv & ((1 << 128) - 1)) == tv) or (dv < 0 and (dv & ((1 << 64) - 1)) == tv) or (dv < 0 and (dv & 0xFF) == tv):
                            name = nm
                s2 = st.fork()
                lbl = name if name is not None else tv
                covered.add(lbl)
                s2.known[x] = lbl
                s2.known[self.freeze(s2, x)] = lbl
                s2.cond.append((("discr", self.freeze(s2, x)), lbl))
                out.append((s2, b))
            if variants:
                rest = [nm for nm, _, _ in variants if nm not in covered]
                if self.block_unreachable(fr.body, other):
                    rest = []
                for nm in rest:
                    s2 = st.fork()
                    s2.known[x] = nm
                    s2.known[self.freeze(s2, x)] = nm
                    s2.cond.append((("discr", self.freeze(s2, x)), nm))
                    out.append((s2, other))
            else:
                s2 = st.fork()
                s2.cond.append((("discr", self.freeze(s2, x)), ("not", tuple(sorted(map(str, covered))))))
                out.append((s2, other))
            return out
        # logging noise: the branch structure of tracing macro expansions is irrelevant to every rule; follow the "disabled" side only
        if self.skip_tracing and is_tracing_term(d):
            for tv, b in targets:
                if tv == 0:
                    return [(st, b)]
            return [(st, other)]
        # opaque integer / bool term
        if d in st.vals:
            v = st.vals[d]
            for tv, b in targets:
                if tv == v:
                    return [(st, b)]
            return [(st, other)]
        out = []
        excluded = st.neq.get(d, set())
        for tv, b in targets:
            if tv in excluded:
                continue
            s2 = st.fork()
            s2.vals[d] = tv
            s2.cond.append((self.freeze(s2, d), tv))
            out.append((s2, b))
        if ty == "bool" and len(targets) == 1:
            other_v = 1 - targets[0][0]
            if other_v not in excluded:
                s2 = st.fork()
                s2.vals[d] = other_v
                s2.cond.append((self.freeze(s2, d), other_v))
                out.append((s2, other))
        elif not self.block_unreachable(fr.body, other):
            s2 = st.fork()
            s2.neq.setdefault(d, set()).update(tv for tv, _ in targets)
            s2.cond.append((self.freeze(s2, d), ("not", tuple(tv for tv, _ in targets))))
            out.append((s2, other))
        return out

    @staticmethod
    def block_unreachable(body, bi):
        b = body["blocks"][bi]
        return not b["s"] and b["t"]["k"] == "unreachable"

    # ---------------------------------------------------------- entry points
    def tabulate(self, key, args=None, keep_panics=False):
        """Leaves of function `key` applied to opaque parameters (or the given argument terms)."""
        body = self.P.body(key)
        st = State()
        self.states_created = 0
        if args is None:
            args = []
            for i in range(body["argc"]):
                l = body["locals"][i + 1]
                args.append(("param", i, l.get("n", f"arg{i}")))
        leaves = self.run_body(st, key, body, list(args), 0)
        out = [Leaf(s, self.freeze(s, r), self) for s, r in leaves]
        return out if keep_panics else [l for l in out if l.ret[0] != "panic"]

    def region(self, key, start, stops=()):
        """Outcomes of executing `key` from block `start` in a fully opaque state until a block of `stops`, a return,
        a panic, or the back edge of a loop (generic-iteration abstraction)."""
        body = self.P.body(key)
        st = State()
        self.states_created = 0
        args = [("param", i, body["locals"][i + 1].get("n", f"arg{i}")) for i in range(body["argc"])]
        saved, self.loops = self.loops, "havoc"
        try:
            res = self.run_body(st, key, body, args, 0, start=start, stops=set(stops), init_locals=True)
        finally:
            self.loops = saved
        return [Leaf(s, self.freeze(s, r), self) for s, r in res]

    def paths(self, key, args=None):
        """(returns, loopbacks, panics) of `key` under the generic-iteration abstraction of its loops."""
        saved, self.loops = self.loops, "havoc"
        try:
            ls = self.tabulate(key, args, keep_panics=True)
        finally:
            self.loops = saved
        return ([l for l in ls if l.ret[0] not in ("panic", "loopback")], [l for l in ls if l.ret[0] == "loopback"],
                [l for l in ls if l.ret[0] == "panic"])


def compose(eng, keys, args=None):
    """Leaves of keys[-1](...keys[1](keys[0](params))...) with one state threaded through."""
    body = eng.P.body(keys[0])
    st = State()
    if args is None:
        args = [("param", i, body["locals"][i + 1].get("n", f"arg{i}")) for i in range(body["argc"])]
    cur = eng.run_body(st, keys[0], body, list(args), 0)
    for k in keys[1:]:
        nxt = []
        b = eng.P.body(k)
        for s, r in cur:
            if r[0] == "panic":
                continue
            nxt.extend(eng.run_body(s, k, b, [r], 0))
        cur = nxt
    return [Leaf(s, eng.freeze(s, r), eng) for s, r in cur if r[0] != "panic"]


def is_recon(P, ret, x, known):
    """Does `ret` rebuild the opaque value `x` constructor by constructor (under the variant knowledge `known`)?"""
    if ret == x:
        return True
    if ret[0] == "adt":
        adt = P.adts.get(ret[1])
        is_struct = adt is not None and adt["kind"] == "struct"
        if is_struct:
            names = [f["name"] for f in adt["variants"][0]["fields"]]
            if len(names) != len(ret[3]):
                return False
            return all(is_recon(P, ret[3][i], ("field", x, names[i]), known) for i in range(len(names)))
        if known.get(x) != ret[2]:
            return False
        return all(is_recon(P, f, ("vfield", x, ret[2], i), known) for i, f in enumerate(ret[3]))
    if ret[0] == "tuple":
        return all(is_recon(P, f, ("field", x, i), known) for i, f in enumerate(ret[1]))
    return False


UNWRAP_RE = re.compile(r"core::(option::Option|result::Result)::<[^>]*>::(unwrap|expect|unwrap_unchecked)$")


def is_tracing_term(t):
    if not isinstance(t, tuple) or not t:
        return False
    if t[0] == "app" and isinstance(t[1], str) and (t[1].startswith("tracing") or "tracing_core::" in t[1] or "tracing::" in t[1]):
        return True
    if t[0] == "static" and ("CALLSITE" in t[1] or "tracing" in t[1]):
        return True
    return any(is_tracing_term(x) for x in t[1:] if isinstance(x, tuple))


def strip_turbofish(s):
    # `<X as T>::f::<A, B>` -> `<X as T>::f`
    if s.endswith(">") and "::<" in s:
        depth = 0
        for i in range(len(s) - 1, -1, -1):
            if s[i] == ">":
                depth += 1
            elif s[i] == "<":
                depth -= 1
                if depth == 0:
                    if s[i - 2:i] == "::":
                        return s[:i - 2]
                    return s
    return s


# ---------------------------------------------------------------------- std models
def _opt_some(v):
    return ("adt", "core::option::Option", "Some", (v,))


OPT_NONE = ("adt", "core::option::Option", "None", ())


def m_identity(eng, st, args, info):
    return [(st, args[0])]


def m_eq(neg):
    def m(eng, st, args, info):
        a, b = eng.deref_value(st, args[0]), eng.deref_value(st, args[1])
        a, b = eng.freeze(st, a), eng.freeze(st, b)
        r = struct_eq(a, b)
        if r is None:
            if repr(b) < repr(a):
                a, b = b, a
            t = ("eq", a, b)
            return [(st, ("un", "Not", t) if neg else t)]
        return [(st, mk_bool(r != neg))]
    return m


def struct_eq(a, b):
    """Structural equality of constructor terms; None when undetermined."""
    if a == b and closed(a):
        return True
    if a[0] == "int" and b[0] == "int":
        return a[1] == b[1]
    if a[0] == "adt" and b[0] == "adt":
        if a[2] != b[2]:
            return False
        rs = [struct_eq(x, y) for x, y in zip(a[3], b[3])]
        if any(r is False for r in rs):
            return False
        if all(r is True for r in rs):
            return True
        return None
    if a[0] == "tuple" and b[0] == "tuple":
        rs = [struct_eq(x, y) for x, y in zip(a[1], b[1])]
        if any(r is False for r in rs):
            return False
        if all(r is True for r in rs):
            return True
    return None


def closed(t):
    if not isinstance(t, tuple) or not t:
        return True
    if t[0] in ("param", "obj", "app", "field", "vfield", "discr", "unknown", "undef", "index", "mutated"):
        return False
    return all(closed(x) for x in t[1:] if isinstance(x, tuple))


INT_ORD = re.compile(r"^core::cmp::impls::<impl core::cmp::(Ord|PartialOrd) for ([ui](8|16|32|64|128|size)|bool|char)>::")


def m_ord_cmp(eng, st, args, info):
    if not INT_ORD.match(info["key"]):
        return None
    a, b = eng.deref_value(st, args[0]), eng.deref_value(st, args[1])
    if is_const(a) and is_const(b):
        return [(st, ordering((a[1] > b[1]) - (a[1] < b[1])))]
    return [(st, ("cmp", a, b))]


def m_cmp_op(op):
    def m(eng, st, args, info):
        if not INT_ORD.match(info["key"]):
            return None
        a, b = eng.deref_value(st, args[0]), eng.deref_value(st, args[1])
        if is_const(a) and is_const(b):
            x, y = a[1], b[1]
            return [(st, mk_bool({"lt": x < y, "le": x <= y, "gt": x > y, "ge": x >= y}[op]))]
        return None
    return m


def m_nonzero_new(eng, st, args, info):
    x = args[0]
    if is_const(x):
        return [(st, OPT_NONE if x[1] == 0 else _opt_some(("nonzero", x)))]
    s1, s2 = st.fork(), st.fork()
    c = ("bin", "Eq", x, ("int", 0, x[2] if x[0] == "int" else "u64"))
    s1.cond.append((c, 1))
    s2.cond.append((c, 0))
    return [(s1, OPT_NONE), (s2, _opt_some(("nonzero", x)))]


def m_option_unwrap(eng, st, args, info):
    v = args[0]
    if v[0] == "adt" and v[2] == "Some":
        return [(st, v[3][0])]
    if v[0] == "adt" and v[2] == "None":
        return [(st, ("panic", "Option::unwrap(None)", ""))]
    return [(st, ("unwrap", v))]


def m_option_unwrap_unchecked(eng, st, args, info):
    v = args[0]
    if v[0] == "adt" and v[2] == "Some":
        return [(st, v[3][0])]
    if v[0] == "adt" and v[2] == "None":
        return [(st, ("panic", "UB: Option::unwrap_unchecked(None)", ""))]
    return [(st, ("unwrap_unchecked", v))]


def m_localkey_with(eng, st, args, info):
    key, f = args[0], args[1]
    keyv = eng.freeze(st, eng.deref_value(st, key)) if key[0] in ("ref", "refv") else key
    cell = ("ref", ("ext", ("tls_value", keyv), ()))
    return eng.call_value(st, f, [cell], info["depth"])


def m_localkey_cell(op):
    """LocalKey<Cell<T>>::{get, set, take, replace}: the same Cell operation on this thread's value (what `.with(|c| c.op(..))` does)"""
    def m(eng, st, args, info):
        key = args[0]
        keyv = eng.freeze(st, eng.deref_value(st, key)) if key[0] in ("ref", "refv") else key
        cell = ("ref", ("ext", ("tls_value", keyv), ()))
        return {"get": m_cell_get, "set": m_cell_set, "take": m_cell_take, "replace": m_cell_replace}[op](eng, st, [cell] + list(args[1:]), info)
    return m


def m_cell_get(eng, st, args, info):
    v = eng.deref_value(st, args[0])
    if v[0] == "adt" and v[1].startswith("core::cell::Cell"):
        v = v[3][0]
    elif v[0] in ("obj", "field", "vfield"):
        v = ("cell_value", v)
    st.trace.append(("cell_get", args[0]))
    return [(st, v)]


def m_cell_set(eng, st, args, info):
    loc = eng.deref_loc(args[0])
    eng.write_loc(st, loc, ("adt", "core::cell::Cell", "Cell", (args[1],)))
    st.trace.append(("cell_set", args[0], args[1]))
    return [(st, ("tuple", ()))]


def m_cell_take(eng, st, args, info):
    loc = eng.deref_loc(args[0])
    v = eng.read_loc(st, loc)
    if v[0] == "adt" and v[1].startswith("core::cell::Cell"):
        v = v[3][0]
    else:
        v = ("cell_value", v)
    eng.write_loc(st, loc, ("adt", "core::cell::Cell", "Cell", (("default",),)))
    st.trace.append(("cell_take", args[0]))
    return [(st, v)]


def m_cell_replace(eng, st, args, info):
    """Cell::replace(&self, v): returns the old value, stores v (a get followed by a set)."""
    loc = eng.deref_loc(args[0])
    v = eng.read_loc(st, loc)
    if v[0] == "adt" and v[1].startswith("core::cell::Cell"):
        v = v[3][0]
    else:
        v = ("cell_value", v)
    eng.write_loc(st, loc, ("adt", "core::cell::Cell", "Cell", (args[1],)))
    st.trace.append(("cell_replace", args[0], args[1]))
    return [(st, v)]


def m_cell_new(eng, st, args, info):
    return [(st, ("adt", "core::cell::Cell", "Cell", (args[0],)))]


def m_atomic(op):
    def m(eng, st, args, info):
        st.trace.append(("atomic", op, args[0]) + tuple(args[1:]))
        return [(st, ("atomic_result", op, len(st.trace)))]
    return m


def split_option(eng, st, o):
    """[(state, 'Some' | 'None', payload)]: a concrete Option as it is; an opaque one splits the path on its discriminant."""
    if o[0] == "adt" and o[1] == "core::option::Option":
        return [(st, o[2], o[3][0] if o[2] == "Some" else None)]
    if o in st.known:
        v = st.known[o]
        return [(st, v, ("vfield", o, "Some", 0) if v == "Some" else None)]
    out = []
    for v in ("Some", "None"):
        s = st.fork()
        fo = eng.freeze(s, o)
        s.known[o] = v
        s.known[fo] = v
        s.cond.append((("discr", fo), v))
        out.append((s, v, ("vfield", fo, "Some", 0) if v == "Some" else None))
    return out


def m_option_map_or(eng, st, args, info):
    o, default, f = args
    out = []
    for s, v, payload in split_option(eng, st, o):
        if v == "None":
            out.append((s, default))
        else:
            out.extend(eng.call_value(s, f, [payload], info["depth"]))
    return out


def m_option_map(eng, st, args, info):
    o, f = args
    out = []
    for s, v, payload in split_option(eng, st, o):
        if v == "None":
            out.append((s, OPT_NONE))
        else:
            out.extend((s2, r if r[0] in ("panic", "loopback") else _opt_some(r)) for s2, r in eng.call_value(s, f, [payload], info["depth"]))
    return out


def m_option_is_some_and(eng, st, args, info):
    o, f = args
    out = []
    for s, v, payload in split_option(eng, st, o):
        if v == "None":
            out.append((s, FALSE))
        else:
            out.extend(eng.call_value(s, f, [payload], info["depth"]))
    return out


def m_unwrap_or_else(eng, st, args, info):
    o, f = args
    out = []
    for s, v, payload in split_option(eng, st, o):
        if v == "Some":
            out.append((s, payload))
        else:
            out.extend(eng.call_value(s, f, [], info["depth"]))
    return out


def m_unwrap_or(eng, st, args, info):
    o, d = args
    return [(s, payload if v == "Some" else d) for s, v, payload in split_option(eng, st, o)]


def m_bool_then(eng, st, args, info):
    """bool::then(self, f): Some(f()) if self else None; an opaque bool splits the path."""
    b, f = args
    outs = []
    if is_const(b):
        cases = [(st, bool(b[1]))]
    else:
        cases = []
        for v in (1, 0):
            s = st.fork()
            s.cond.append((eng.freeze(s, b), v))
            cases.append((s, bool(v)))
    for s, truth in cases:
        if truth:
            outs.extend((s2, r if r[0] in ("panic", "loopback") else _opt_some(r)) for s2, r in eng.call_value(s, f, [], info["depth"]))
        else:
            outs.append((s, OPT_NONE))
    return outs


def m_iter_any(eng, st, args, info):
    """Iterator::any(&mut it, f) under the generic-iteration abstraction that explicit loops get (only while loops are being abstracted): the scan
    ends with next() == None (result false) or meets an item on which f holds (result true); an item on which f does not hold is one generic
    iteration and ends the path as a loopback leaf - exactly the three kinds of path of `for x in it { if f(x) { return true } } false`."""
    if eng.loops != "havoc" or len(args) != 2 or args[0][0] != "ref":
        return None
    it, f = args
    sig = info.get("fn_args") if isinstance(info.get("fn_args"), str) else info.get("key", "")
    m = re.match(r"<(.+) as core::iter::traits::iterator::Iterator>::any", sig or "")
    if not m or f[0] not in ("closure", "fn"):
        return None
    nxt = f"<{m.group(1)} as core::iter::traits::iterator::Iterator>::next"
    cur = eng.freeze(st, eng.read_loc(st, it[1]))
    eng.write_loc(st, it[1], ("mutated", sig, (cur,), 0))       # the iterator is consumed
    out = []
    for s, v, payload in split_option(eng, st, ("app", nxt, (("refv", cur),))):
        if v == "None":
            out.append((s, FALSE))
            continue
        for s2, r in eng.call_value(s, f, [payload], info["depth"]):
            if r[0] in ("panic", "loopback"):
                out.append((s2, r))
            elif is_const(r):
                out.append((s2, TRUE if r[1] else ("loopback", "Iterator::any", info["depth"], sig)))
            else:
                for val in (1, 0):
                    s3 = s2.fork()
                    s3.cond.append((eng.freeze(s3, r), val))
                    out.append((s3, TRUE if val else ("loopback", "Iterator::any", info["depth"], sig)))
    return out


def m_array_into_iter(eng, st, args, info):
    """<[T; N] as IntoIterator>::into_iter on an array whose elements are known terms: a concrete cursor (loops over it are unrolled, not abstracted)"""
    a = args[0] if args else None
    if eng.unroll_arrays and a is not None and a[0] == "array" and len(a[1]) <= 16:
        return [(st, ("arrayiter", a[1], 0))]
    return None


def m_array_map(eng, st, args, info):
    """<[T; N]>::map(f) on an array of known elements: f applied element by element, in order"""
    if len(args) != 2 or args[0][0] != "array" or len(args[0][1]) > 8 or args[1][0] not in ("closure", "fn"):
        return None
    states = [(st, [])]
    for e in args[0][1]:
        nxt = []
        for s, acc in states:
            for s2, r in eng.call_value(s.fork() if len(states) > 1 else s, args[1], [e], info["depth"]):
                if r[0] in ("panic", "loopback"):
                    nxt.append((s2, r))
                else:
                    nxt.append((s2, acc + [r]))
        done = [(s, a) for s, a in nxt if isinstance(a, tuple)]
        states = [(s, a) for s, a in nxt if isinstance(a, list)]
        if done:
            # some path ended inside f (a panic): those are returned as they are, the others are kept opaque from here on
            return done + m_array_map_rest(eng, states, args, info)
    return [(s, ("array", tuple(a))) for s, a in states]


def m_array_map_rest(eng, states, args, info):
    # paths that already ended (a panic inside f) are returned as they are; the others cannot be continued element-wise from here: keep them opaque
    return [(s, ("app", "core::array::map", (args[0], args[1]))) for s, a in states]


def m_array_iter_next(eng, st, args, info):
    if not args or args[0][0] != "ref":
        return None
    v = eng.read_loc(st, args[0][1])
    if v[0] != "arrayiter":
        return None
    elems, i = v[1], v[2]
    if i >= len(elems):
        return [(st, OPT_NONE)]
    eng.write_loc(st, args[0][1], ("arrayiter", elems, i + 1))
    return [(st, _opt_some(elems[i]))]


def m_bool_then_some(eng, st, args, info):
    """bool::then_some(self, v): Some(v) if self else None; an opaque bool splits the path."""
    b, v = args
    if is_const(b):
        return [(st, _opt_some(v) if b[1] else OPT_NONE)]
    outs = []
    for val in (1, 0):
        s = st.fork()
        s.cond.append((eng.freeze(s, b), val))
        outs.append((s, _opt_some(v) if val else OPT_NONE))
    return outs


def m_option_is(which):
    def m(eng, st, args, info):
        o = eng.deref_value(st, args[0])
        if o[0] == "adt" and o[2] in ("Some", "None"):
            return [(st, mk_bool(o[2] == which))]
        if o in st.known:
            return [(st, mk_bool(st.known[o] == which))]
        out = []
        for v in ("Some", "None"):
            s = st.fork()
            s.known[o] = v
            fo = eng.freeze(s, o)
            s.known[fo] = v
            s.cond.append((("discr", fo), v))
            out.append((s, mk_bool(v == which)))
        return out
    return m


def m_ok_or(eng, st, args, info):
    o, e = args
    if o[0] == "adt" and o[2] == "Some":
        return [(st, ("adt", "core::result::Result", "Ok", (o[3][0],)))]
    if o[0] == "adt" and o[2] == "None":
        return [(st, ("adt", "core::result::Result", "Err", (e,)))]
    return [(st, ("ok_or", o, e))]


def m_try_branch(eng, st, args, info):
    v = args[0]
    CF = "core::ops::control_flow::ControlFlow"
    if v[0] == "adt" and v[1] == "core::option::Option":
        if v[2] == "Some":
            return [(st, ("adt", CF, "Continue", (v[3][0],)))]
        return [(st, ("adt", CF, "Break", (OPT_NONE,)))]
    if v[0] == "adt" and v[1] == "core::result::Result":
        if v[2] == "Ok":
            return [(st, ("adt", CF, "Continue", (v[3][0],)))]
        return [(st, ("adt", CF, "Break", (("adt", "core::result::Result", "Err", (v[3][0],)),)))]
    if info["fn_args"] and "core::option::Option<" in str(info["fn_args"]).split(" as ")[0]:
        s1, s2 = st.fork(), st.fork()
        fv = eng.freeze(st, v)
        s1.known[v] = s1.known[fv] = "Some"
        s1.cond.append((("discr", fv), "Some"))
        s2.known[v] = s2.known[fv] = "None"
        s2.cond.append((("discr", fv), "None"))
        return [(s1, ("adt", CF, "Continue", (("vfield", v, "Some", 0),))), (s2, ("adt", CF, "Break", (OPT_NONE,)))]
    if info["fn_args"] and "core::result::Result<" in str(info["fn_args"]).split(" as ")[0]:
        s1, s2 = st.fork(), st.fork()
        fv = eng.freeze(st, v)
        s1.known[v] = s1.known[fv] = "Ok"
        s1.cond.append((("discr", fv), "Ok"))
        s2.known[v] = s2.known[fv] = "Err"
        s2.cond.append((("discr", fv), "Err"))
        return [(s1, ("adt", CF, "Continue", (("vfield", v, "Ok", 0),))),
                (s2, ("adt", CF, "Break", (("adt", "core::result::Result", "Err", (("vfield", v, "Err", 0),)),)))]
    return [(st, ("try_branch", v))]


def m_from_residual(eng, st, args, info):
    v = args[0]
    if v[0] == "adt" and v[1] == "core::option::Option":
        return [(st, OPT_NONE)]
    if v[0] == "adt" and v[1] == "core::result::Result" and v[2] == "Err":
        return [(st, ("adt", "core::result::Result", "Err", (("from", v[3][0]),)))]
    return [(st, ("from_residual", v))]


def m_call_once(eng, st, args, info):
    fv = args[0]
    if fv[0] in ("ref", "refv"):
        fv = eng.deref_value(st, fv)
    tup = args[1] if len(args) > 1 else ("tuple", ())
    if tup[0] != "tuple":
        return None
    if fv[0] in ("closure", "fn"):
        return eng.call_value(st, fv, list(tup[1]), info["depth"])
    return None


def m_reverse(eng, st, args, info):
    v = args[0]
    if v[0] == "adt" and v[1] == "core::cmp::Ordering":
        return [(st, ("adt", v[1], {"Less": "Greater", "Greater": "Less", "Equal": "Equal"}[v[2]], ()))]
    if v[0] == "cmp":
        return [(st, ("cmp", v[2], v[1]))]
    return [(st, ("reverse", v))]


def m_then_with(eng, st, args, info):
    """Ordering::then_with(self, f): self unless it is Equal, then f()."""
    v, f = args
    if v[0] == "adt" and v[1] == "core::cmp::Ordering":
        if v[2] != "Equal":
            return [(st, v)]
        return eng.call_value(st, f, [], info["depth"])
    return None


def m_then(eng, st, args, info):
    v, o = args
    if v[0] == "adt" and v[1] == "core::cmp::Ordering":
        return [(st, v if v[2] != "Equal" else o)]
    return None


def m_max_min(which):
    def m(eng, st, args, info):
        a, b = args
        if is_const(a) and is_const(b):
            return [(st, a if (a[1] >= b[1]) == (which == "max") else b)]
        return None
    return m


PRIM_SELF = re.compile(r"^<([ui](8|16|32|64|128|size)) as core::cmp::Ord>::")


def _prim_minmax(which, eng, st, args, info):
    if not PRIM_SELF.match(str(info.get("fn_args") or "")):
        return None
    return m_max_min(which)(eng, st, args, info) or [(st, (which,) + tuple(sorted(args, key=repr)))]


def m_intrinsic1(name, fn=None):
    def m(eng, st, args, info):
        a = args[0]
        if is_const(a) and fn is not None:
            return [(st, fn(a))]
        return [(st, (name,) + tuple(args))]
    return m


def m_wrapping(op):
    def m(eng, st, args, info):
        return [(st, eng.binop(op, args[0], args[1]))]
    return m


def m_saturating(op):
    def m(eng, st, args, info):
        a, b = args
        if is_const(a) and is_const(b):
            bits = MASKS.get(a[2], 64)
            lo, hi = (-(1 << (bits - 1)), (1 << (bits - 1)) - 1) if a[2].startswith("i") else (0, (1 << bits) - 1)
            r = a[1] + b[1] if op == "add" else a[1] - b[1]
            return [(st, ("int", max(lo, min(hi, r)), a[2]))]
        return [(st, ("sat_" + op, a, b))]
    return m


def m_discriminant_value(eng, st, args, info):
    v = eng.deref_value(st, args[0])
    if v[0] == "adt":
        d = eng.variant_discr(v[1], v[2])
        if d is not None:
            return [(st, ("int", d, "isize"))]
    return [(st, ("discr", v))]


INTO_RE = re.compile(r"^<(.+) as core::convert::Into<(.+)>>::into$")


def m_into(eng, st, args, info):
    m = INTO_RE.match(info["fn_args"] if isinstance(info["fn_args"], str) else "")
    if not m:
        return None
    a, b = m.group(1), m.group(2)
    if a == b:
        return [(st, args[0])]
    cands = [f"<{b} as core::convert::From<{a}>>::from"]
    suffix = f"<impl core::convert::From<{a}> for {b}>::from"
    cands += [k for k in eng.P.fns if k.endswith(suffix)]
    for c in cands:
        if c in eng.P.fns:
            return eng.call_key(st, c, c, args, info["depth"], info["term"])
    return None


OK_UNIT = ("adt", "core::result::Result", "Ok", (("tuple", ()),))


def decode_fmt_template(hexs):
    """rustc's compact format_args! template: 0xC0 = next argument ({}), n<0x80 followed by n literal bytes, 0 = end.
    Returns a list of ("lit", str) / ("arg",) or None if an unknown opcode occurs."""
    b = bytes.fromhex(hexs)
    out, i = [], 0
    while i < len(b):
        c = b[i]
        if c == 0:
            break
        if c == 0xC0:
            out.append(("arg",))
            i += 1
        elif c < 0x80:
            out.append(("lit", b[i + 1:i + 1 + c].decode("utf8", "replace")))
            i += 1 + c
        else:
            return None
    return out


def _emit_display(eng, st, x, ty, depth, f):
    """Emit the Display text of value x of type ty: workspace impls are inlined, primitives stay symbolic."""
    key = f"<{ty} as core::fmt::Display>::fmt"
    if key in eng.P.fns and depth < eng.inline_depth and key not in eng.opaque and closed(x):
        holder = ("fmt_arg", len(st.trace), ty)
        st.ext[holder] = x
        res = eng.call_key(st, key, key, [("ref", ("ext", holder, ())), f], depth, None)
        return [s for s, _ in res]
    st.trace.append(("emit", "disp", x, ty))
    return [st]


def m_write_fmt(eng, st, args, info):
    f, a = args[0], args[1]
    if not (a[0] == "app" and "Arguments" in a[1] and "::new" in a[1]):
        if a[0] == "app" and "Arguments" in a[1] and "from_str" in a[1]:
            s = a[2][0]
            st.trace.append(("emit", "lit", s[1]) if s[0] == "str" else ("emit", "str", s))
            return [(st, OK_UNIT)]
        st.trace.append(("emit", "opaque", a))
        return [(st, OK_UNIT)]
    tmpl, argv = a[2][0], a[2][1] if len(a[2]) > 1 else ("refv", ("array", ()))
    tv = eng.deref_value(st, tmpl)
    pieces = decode_fmt_template(tv[1]) if tv[0] == "mem" else None
    arr = eng.deref_value(st, argv)
    if pieces is None or arr[0] != "array":
        st.trace.append(("emit", "opaque", a))
        return [(st, OK_UNIT)]
    states = [st]
    ai = 0
    for pc in pieces:
        if pc[0] == "lit":
            for s in states:
                s.trace.append(("emit", "lit", pc[1]))
        else:
            arg = arr[1][ai] if ai < len(arr[1]) else ("unknown", "missing fmt arg")
            ai += 1
            nxt = []
            for s in states:
                if arg[0] == "app" and "Argument" in arg[1] and "new_display::<" in arg[1]:
                    ty = arg[1].split("new_display::<", 1)[1].rsplit(">", 1)[0]
                    x = eng.deref_value(s, arg[2][0])
                    nxt.extend(_emit_display(eng, s, x, ty, info["depth"], f))
                elif arg[0] == "app" and "Argument" in arg[1] and "new_debug::<" in arg[1]:
                    ty = arg[1].split("new_debug::<", 1)[1].rsplit(">", 1)[0]
                    x = eng.deref_value(s, arg[2][0])
                    s.trace.append(("emit", "dbg", x, ty))
                    nxt.append(s)
                else:
                    s.trace.append(("emit", "opaque", arg))
                    nxt.append(s)
            states = nxt
    return [(s, OK_UNIT) for s in states]


def m_write_str(eng, st, args, info):
    s = args[1]
    if s[0] in ("ref", "refv"):
        s = eng.deref_value(st, s)
    st.trace.append(("emit", "lit", s[1]) if s[0] == "str" else ("emit", "str", s))
    return [(st, OK_UNIT)]


def m_write_char(eng, st, args, info):
    c = args[1]
    st.trace.append(("emit", "char", c))
    return [(st, OK_UNIT)]


PRIM_DISPLAY = re.compile(r"^core::fmt::num::imp::<impl core::fmt::Display for ([ui](8|16|32|64|128|size))>::fmt$|^<(char|str|bool) as core::fmt::Display>::fmt$")


def m_prim_display(eng, st, args, info):
    m = PRIM_DISPLAY.match(info["key"])
    if not m:
        return None
    x = eng.deref_value(st, args[0])
    st.trace.append(("emit", "disp", x, m.group(1) or m.group(3)))
    return [(st, OK_UNIT)]


NUM_FROM = re.compile(r"^core::convert::num::<impl core::convert::From<([a-z0-9]+)> for ([a-z0-9]+)>::from$")


def m_num_from(eng, st, args, info):
    m = NUM_FROM.match(info["key"])
    if not m:
        return None
    return [(st, eng.cast(st, "IntToInt", args[0], m.group(2)))]


def m_char_from(eng, st, args, info):
    """char::from(u8) / u32::from(char): the same value as the `as` cast"""
    k = info["key"]
    if "From<u8> for char" in k:
        return [(st, eng.cast(st, "IntToInt", args[0], "char"))]
    if "From<char> for u32" in k:
        return [(st, eng.cast(st, "IntToInt", args[0], "u32"))]
    return None


def m_slice_len(eng, st, args, info):
    v = args[0]
    tgt = v[1] if v[0] == "ref" else None
    if tgt and tgt[0] == "ext" and tgt[1][0] == "static" and not tgt[2]:
        val = eng.P.values.get(tgt[1][1])
        if val and val.get("tj", {}).get("k") == "array" and val["tj"].get("len") is not None:
            return [(st, I(int(val["tj"]["len"]), "usize"))]
    d = eng.deref_value(st, v)
    if d[0] == "array":
        return [(st, I(len(d[1]), "usize"))]
    return [(st, ("len", v))]


def m_unit(eng, st, args, info):
    return [(st, ("tuple", ()))]


DEFAULT_MODELS = {
    "core::cmp::PartialEq::eq": m_eq(False),
    "core::cmp::PartialEq::ne": m_eq(True),
    "core::cmp::impls::cmp": m_ord_cmp,
    "core::num::nonzero::NonZero::new": m_nonzero_new,
    "core::option::Option::unwrap": m_option_unwrap,
    "core::option::Option::unwrap_unchecked": m_option_unwrap_unchecked,
    "core::option::Option::map_or": m_option_map_or,
    "core::option::Option::map": m_option_map,
    "core::option::Option::is_some_and": m_option_is_some_and,
    "core::option::Option::is_some": m_option_is("Some"),
    "core::option::Option::is_none": m_option_is("None"),
    "core::option::Option::ok_or": m_ok_or,
    "std::thread::local::LocalKey::with": m_localkey_with,
    "core::cell::Cell::get": m_cell_get,
    "std::thread::local::LocalKey::get": m_localkey_cell("get"),
    "std::thread::local::LocalKey::set": m_localkey_cell("set"),
    "std::thread::local::LocalKey::take": m_localkey_cell("take"),
    "std::thread::local::LocalKey::replace": m_localkey_cell("replace"),
    "core::cell::Cell::set": m_cell_set,
    "core::cell::Cell::take": m_cell_take,
    "core::cell::Cell::new": m_cell_new,
    "core::sync::atomic::Atomic::load": m_atomic("load"),
    "core::sync::atomic::Atomic::store": m_atomic("store"),
    "core::sync::atomic::Atomic::fetch_xor": m_atomic("fetch_xor"),
    "core::sync::atomic::Atomic::fetch_or": m_atomic("fetch_or"),
    "core::sync::atomic::Atomic::fetch_and": m_atomic("fetch_and"),
    "core::sync::atomic::Atomic::swap": m_atomic("swap"),
    "core::sync::atomic::Atomic::compare_exchange": m_atomic("compare_exchange"),
    "core::sync::atomic::Atomic::fetch_nand": m_atomic("fetch_nand"),
    "core::sync::atomic::Atomic::fetch_update": m_atomic("fetch_update"),
    "core::cmp::Ordering::reverse": m_reverse,
    "core::cmp::Ordering::then_with": m_then_with,
    "core::option::Option::unwrap_or_else": m_unwrap_or_else,
    "core::option::Option::unwrap_or": m_unwrap_or,
    "core::bool::then": m_bool_then,
    "core::bool::<impl bool>::then": m_bool_then,
    "core::bool::then_some": m_bool_then_some,
    "core::bool::<impl bool>::then_some": m_bool_then_some,
    "core::cell::Cell::replace": m_cell_replace,
    "core::cmp::Ordering::then": m_then,
    "core::iter::traits::iterator::Iterator::any": m_iter_any,
    "core::array::iter::into_iter": m_array_into_iter,
    "core::array::map": m_array_map,
    "core::char::convert::from": m_char_from,
    "<core::array::iter::IntoIter<T, N> as core::iter::traits::iterator::Iterator>::next": m_array_iter_next,
    "core::intrinsics::discriminant_value": m_discriminant_value,
    "core::num::count_ones": m_intrinsic1("count_ones", lambda a: I(bin(a[1] & ((1 << MASKS[a[2]]) - 1)).count("1"), "u32")),
    "core::num::swap_bytes": m_intrinsic1("swap_bytes", lambda a: I(int.from_bytes((a[1] & ((1 << MASKS[a[2]]) - 1)).to_bytes(MASKS[a[2]] // 8, "little"), "big"), a[2])),
    "core::num::trailing_zeros": m_intrinsic1("trailing_zeros"),
    "core::num::wrapping_mul": m_wrapping("Mul"),
    "core::num::wrapping_add": m_wrapping("Add"),
    "core::num::wrapping_sub": m_wrapping("Sub"),
    "core::num::wrapping_shl": m_wrapping("Shl"),
    "core::num::wrapping_shr": m_wrapping("Shr"),
    "core::num::saturating_sub": m_saturating("sub"),
    "core::num::saturating_add": m_saturating("add"),
    "core::num::abs_diff": lambda eng, st, args, info: [(st, ("abs_diff",) + tuple(sorted(args, key=repr)))],
    "core::cmp::Ord::max": lambda eng, st, args, info: _prim_minmax("max", eng, st, args, info),
    "core::cmp::Ord::min": lambda eng, st, args, info: _prim_minmax("min", eng, st, args, info),
    "core::ops::try_trait::Try::branch": m_try_branch,
    "<core::option::Option<T> as core::ops::try_trait::Try>::branch": m_try_branch,
    "<core::result::Result<T, E> as core::ops::try_trait::Try>::branch": m_try_branch,
    "<core::option::Option<T> as core::ops::try_trait::FromResidual<core::option::Option<core::convert::Infallible>>>::from_residual": m_from_residual,
    "<core::result::Result<T, F> as core::ops::try_trait::FromResidual<core::result::Result<core::convert::Infallible, E>>>::from_residual": m_from_residual,
    "core::ops::function::FnOnce::call_once": m_call_once,
    "core::fmt::Formatter::write_fmt": m_write_fmt,
    "core::fmt::Formatter::write_str": m_write_str,
    "<core::fmt::Formatter<'_> as core::fmt::Write>::write_char": m_write_char,
    "<core::fmt::Formatter<'_> as core::fmt::Write>::write_str": m_write_str,
    "core::fmt::num::imp::fmt": m_prim_display,
    "<char as core::fmt::Display>::fmt": m_prim_display,
    "<str as core::fmt::Display>::fmt": m_prim_display,
    "core::ops::function::FnMut::call_mut": m_call_once,
    "core::ops::function::Fn::call": m_call_once,
    "core::convert::Into::into": m_into,
    "core::convert::num::from": m_num_from,
    "core::slice::len": m_slice_len,
    "<T as core::convert::Into<U>>::into": m_into,
}
DEFAULT_MODELS = {k: v for k, v in DEFAULT_MODELS.items() if v is not None}


# ---------------------------------------------------------------------- printing
def show(t, depth=0):
    if not isinstance(t, tuple) or not t:
        return str(t)
    k = t[0]
    if k == "int":
        return f"{t[1]}{t[2]}" if t[2] != "bool" else ("true" if t[1] else "false")
    if k == "adt":
        nm = t[1].rsplit("::", 1)[-1]
        if t[3]:
            return f"{nm}::{t[2]}({', '.join(show(x) for x in t[3])})"
        return f"{nm}::{t[2]}"
    if k == "tuple":
        return "(" + ", ".join(show(x) for x in t[1]) + ")"
    if k == "array":
        return "[" + ", ".join(show(x) for x in t[1][:8]) + (", ..." if len(t[1]) > 8 else "") + "]"
    if k == "param":
        return str(t[2])
    if k == "obj":
        return "*" + show(t[1])
    if k == "field":
        return f"{show(t[1])}.{t[2]}"
    if k == "vfield":
        return f"({show(t[1])} as {t[2]}).{t[3]}"
    if k == "app":
        return f"{short(t[1])}({', '.join(show(x) for x in t[2])})"
    if k == "bin":
        return f"{t[1]}({show(t[2])}, {show(t[3])})"
    if k == "un":
        return f"{t[1]}({show(t[2])})"
    if k == "cast":
        return f"({show(t[2])} as {t[1]})"
    if k == "discr":
        return f"discr({show(t[1])})"
    if k in ("ref", "refv"):
        return "&" + (show(t[1]) if k == "refv" else str(t[1][:3]))
    if k in ("cmp", "eq", "max", "min", "abs_diff"):
        return f"{k}({', '.join(show(x) for x in t[1:])})"
    if k == "index":
        return f"{show(t[1])}[{show(t[2])}]"
    if k == "fn":
        return "fn " + short(t[1])
    if k == "closure":
        return "closure " + short(t[1])
    return "(" + " ".join(show(x) if isinstance(x, tuple) else str(x) for x in t) + ")"


def short(key):
    return re.sub(r"\b(chess_[a-z_]+|core|std|tracing_enabled)::([a-z_]+::)*", "", key)


def show_cond(cond):
    out = []
    for t, v in cond:
        out.append(f"{show(t)}={v}")
    return " & ".join(out) if out else "true"


# ---------------------------------------------------------------------- finite-domain evaluation of extracted tables
def _static_read(P, t):
    """A read `TABLE[i][j]..(.field)` of a constant static / const with concrete indices: the element as a constant, else None.
    (The table bytes are facts extracted from the compiled crate.)"""
    path = []
    x = t
    while isinstance(x, tuple) and x and x[0] in ("index", "field"):
        if x[0] == "index":
            if not is_const(x[2]):
                return None
            path.append(("i", x[2][1]))
        else:
            path.append(("f", x[2]))
        x = x[1]
    key = None
    if x[0] == "obj" and x[1][0] in ("static", "const"):
        key = x[1][1]
    elif x[0] == "const":
        key = x[1]
    v = P.values.get(key) if key else None
    if not v or v.get("relocs"):
        return None
    try:
        raw = P.value_bytes(key)
    except Exception:
        return None
    tj, off = v.get("tj") or {}, 0
    for kind, a in reversed(path):
        if kind == "i" and tj.get("k") == "array":
            elem = tj["of"]
            size = _tj_size(P, elem)
            if size is None or not (0 <= a < tj.get("len", 0)):
                return None
            off += a * size
            tj = elem
        elif kind == "f" and tj.get("k") == "adt":
            adt = P.adts.get(tj["adt"])
            if not adt or adt["kind"] != "struct":
                return None
            fs = [f for i_, f in enumerate(adt["variants"][0]["fields"]) if f["name"] == str(a) or i_ == a]
            if not fs:
                return None
            off += fs[0]["offset"]
            tj = fs[0]["tj"]
        else:
            return None
    if tj.get("k") == "int":
        w = tj["bits"] // 8
        return ("int", int.from_bytes(raw[off:off + w], "little", signed=bool(tj.get("signed"))), tj.get("s", "u64"))
    if tj.get("k") == "adt":
        adt = P.adts.get(tj["adt"])
        if adt and adt["kind"] == "struct" and len(adt["variants"][0]["fields"]) == 1 and adt["variants"][0]["fields"][0]["tj"].get("k") == "int":
            f = adt["variants"][0]["fields"][0]
            w = f["tj"]["bits"] // 8
            o2 = off + f["offset"]
            return ("adt", tj["adt"], adt["variants"][0]["name"], (("int", int.from_bytes(raw[o2:o2 + w], "little", signed=bool(f["tj"].get("signed"))), f["tj"].get("s", "u64")),))
    return None


def _tj_size(P, tj):
    if tj.get("k") == "int":
        return tj["bits"] // 8
    if tj.get("k") == "array":
        s = _tj_size(P, tj["of"])
        return None if s is None else s * tj.get("len", 0)
    if tj.get("k") == "adt":
        a = P.adts.get(tj["adt"])
        return a.get("size") if a else None
    return None


def concretize(eng, t, env):
    """Rebuild term `t` with the opaque leaves in `env` replaced by concrete terms, refolding constants.
    This evaluates the *extracted summary* over a finite input domain; no repository code runs."""
    if not isinstance(t, tuple) or not t:
        return t
    if t in env:
        return env[t]
    k = t[0]
    if k in ("index", "field"):
        sub = (k, concretize(eng, t[1], env)) + tuple(concretize(eng, x, env) if isinstance(x, tuple) else x for x in t[2:])
        r = _static_read(eng.P, sub)
        if r is not None:
            return r
        if k == "index" and sub[1][0] == "array" and is_const(sub[2]) and 0 <= sub[2][1] < len(sub[1][1]):
            return sub[1][1][sub[2][1]]         # element of a concrete array / slice
        if sub != t:
            t = sub
            if t in env:
                return env[t]
    if k in ("int", "param", "str", "fn", "zst", "const", "static", "scalar"):
        return t
    if k == "obj":
        b = concretize(eng, t[1], env)
        if b[0] == "refv":
            return b[1]
        return ("obj", b)
    if k == "bin":
        return eng.binop(t[1], concretize(eng, t[2], env), concretize(eng, t[3], env))
    if k == "ovf":
        a, b = concretize(eng, t[2], env), concretize(eng, t[3], env)
        if is_const(a) and is_const(b):
            r = eng.binop(t[1] + "WithOverflow", a, b)
            return r[1][1]
        return ("ovf", t[1], a, b)
    if k == "un":
        return eng.unop(t[1], concretize(eng, t[2], env))
    if k == "cast":
        return eng.cast(None, "IntToInt", concretize(eng, t[2], env), t[1])
    if k == "discr":
        v = concretize(eng, t[1], env)
        if v[0] == "adt":
            d = eng.variant_discr(v[1], v[2])
            if d is not None:
                return ("int", d, "isize")
        return ("discr", v)
    if k == "vfield":
        v = concretize(eng, t[1], env)
        if v[0] == "adt" and v[2] == t[2] and t[3] < len(v[3]):
            return v[3][t[3]]
        return ("vfield", v, t[2], t[3])
    if k == "field":
        v = concretize(eng, t[1], env)
        return project(v, ("f", t[2] if isinstance(t[2], int) else 0, t[2] if not isinstance(t[2], int) else None, None)) if v[0] in ("tuple",) else ("field", v, t[2])
    if k == "len":
        v = concretize(eng, t[1], env)
        if v[0] == "refv":
            v = v[1]
        if v[0] == "array":
            return I(len(v[1]), "usize")
        return ("len", v)
    if k == "cindex":
        v = concretize(eng, t[1], env)
        if v[0] == "refv":
            v = v[1]
        if v[0] == "array":
            i = len(v[1]) - t[2] if t[3] else t[2]
            if 0 <= i < len(v[1]):
                return v[1][i]
        return ("cindex", v, t[2], t[3])
    if k == "app":
        args = tuple(concretize(eng, x, env) for x in t[2])
        # integer intrinsics of core on concrete words
        if len(args) == 1:
            a0 = args[0]
            if t[1].endswith("::new_unchecked") and "NonZero" in t[1] and is_const(a0):
                return ("nonzero", a0)
            inner = a0[1] if a0[0] == "nonzero" and is_const(a0[1]) else (a0 if is_const(a0) else None)
            if inner is not None and "NonZero" in t[1] and t[1].endswith("::get"):
                return inner
            if inner is not None and inner[1] != 0 and t[1].endswith("::trailing_zeros"):
                return ("int", (inner[1] & -inner[1]).bit_length() - 1, "u32")
            if inner is not None and t[1].endswith("::count_ones"):
                return ("int", bin(inner[1]).count("1"), "u32")
        res = env.get("__apps__")
        if res is not None:
            r = res(t[1], args)
            if r is not None:
                return r
        return ("app", t[1], args)
    if k in ("sat_sub", "sat_add"):
        a, b = concretize(eng, t[1], env), concretize(eng, t[2], env)
        if is_const(a) and is_const(b):
            return m_saturating(k[4:])(eng, None, [a, b], None)[0][1]
        return (k, a, b)
    if k == "unwrap":
        v = concretize(eng, t[1], env)
        if v[0] == "adt" and v[2] == "Some":
            return v[3][0]
        if v[0] == "adt" and v[2] == "None":
            return ("panic", "unwrap(None)", "")
        return ("unwrap", v)
    if k == "cmp":
        a, b = concretize(eng, t[1], env), concretize(eng, t[2], env)
        if is_const(a) and is_const(b):
            return ordering((a[1] > b[1]) - (a[1] < b[1]))
        return ("cmp", a, b)
    if k == "eq":
        a, b = concretize(eng, t[1], env), concretize(eng, t[2], env)
        r = struct_eq(a, b)
        return mk_bool(r) if r is not None else ("eq", a, b)
    if k == "abs_diff":
        a, b = concretize(eng, t[1], env), concretize(eng, t[2], env)
        if is_const(a) and is_const(b):
            return I(abs(a[1] - b[1]), a[2])
        return ("abs_diff", a, b)
    if k in ("max", "min"):
        a, b = concretize(eng, t[1], env), concretize(eng, t[2], env)
        if is_const(a) and is_const(b):
            return a if (a[1] >= b[1]) == (k == "max") else b
        return (k, a, b)
    return tuple(concretize(eng, x, env) if isinstance(x, tuple) else x for x in t)


def cond_holds(eng, cond, env):
    """True / False / None (undetermined) for one (term, value) path condition under `env`."""
    t, v = cond
    if t[0] == "assert":
        c = concretize(eng, t[2], env)
        if is_const(c):
            return c[1] == v
        return None
    if t[0] == "discr" and isinstance(v, str):
        x = concretize(eng, t[1], env)
        if x[0] == "adt":
            return x[2] == v
        return None
    c = concretize(eng, t, env)
    if not is_const(c):
        return None
    if isinstance(v, tuple) and v and v[0] == "not":
        return c[1] not in v[1]
    return c[1] == v


def select_leaf(eng, leaves, env):
    """(leaf, None) for the unique leaf selected by `env`, or (None, reason)."""
    hits = []
    for lf in leaves:
        ok, failed_assert = True, None
        for c in lf.cond:
            h = cond_holds(eng, c, env)
            if h is None:
                return None, ("undetermined", show(c[0]))
            if not h:
                if c[0][0] == "assert":
                    failed_assert = c[0][1]
                else:
                    ok = False
                break
        if failed_assert:
            hits.append((lf, ("panic", "assert:" + failed_assert, "")))
        elif ok:
            hits.append((lf, None))
    if len(hits) != 1:
        return None, ("ambiguous", len(hits))
    return hits[0]


def eval_table(eng, leaves, env):
    """The unique leaf of an extracted table selected by the concrete inputs `env`.
    Returns ("panic", why) when an assert on the selected path fails, ("ambiguous", n) if the table is not a function."""
    hits = []
    for lf in leaves:
        ok, failed_assert = True, None
        for c in lf.cond:
            h = cond_holds(eng, c, env)
            if h is None:
                return ("undetermined", show(c[0]))
            if not h:
                if c[0][0] == "assert":
                    failed_assert = c[0][1]
                    break
                ok = False
                break
        if failed_assert:
            hits.append(("panic", "assert:" + failed_assert))
        elif ok:
            hits.append(lf.ret if lf.ret[0] == "panic" else concretize(eng, lf.ret, env))
    if len(hits) != 1:
        return ("ambiguous", len(hits))
    return hits[0]


def emitted_text(trace):
    """Concatenate the emit events of a path into the text written; None if a piece is not concrete."""
    out = []
    for tr in trace:
        if tr[0] != "emit":
            continue
        kind = tr[1]
        if kind == "lit":
            out.append(tr[2])
        elif kind == "char":
            if not is_const(tr[2]):
                return None
            out.append(chr(tr[2][1]))
        elif kind == "disp":
            x, ty = tr[2], tr[3]
            if not is_const(x):
                return None
            out.append(chr(x[1]) if ty == "char" else str(x[1]))
        else:
            return None
    return "".join(out)


def predicate_table(leaves, classify):
    """Evaluate a decision table over named boolean predicates.
    classify(term, value) -> (name, truth) for a path condition, or None if the condition is not one of the predicates
    (the caller decides whether that is tolerable).  Returns ({assignment tuple: set(ret)}, names, unknown conditions)."""
    import itertools
    names, unknown = [], []
    rows = []
    for lf in leaves:
        req = {}
        for t, v in lf.cond:
            c = classify(t, v)
            if c is None:
                unknown.append((t, v))
                continue
            if c[0] == "__true__":
                continue
            if c[0] not in names:
                names.append(c[0])
            req[c[0]] = c[1]
        rows.append((req, lf.ret))
    table = {}
    for vals in itertools.product((True, False), repeat=len(names)):
        asg = dict(zip(names, vals))
        table[vals] = {ret for req, ret in rows if all(asg[k] == v for k, v in req.items())}
    return table, names, unknown


def threshold(term, value):
    """`x >= K` style comparisons with a constant: returns (x, K, truth of x >= K) or None."""
    if term[0] != "bin" or term[1] not in ("Ge", "Lt", "Gt", "Le"):
        return None
    op, a, b = term[1], term[2], term[3]
    if is_const(b) and not is_const(a):
        x, k = a, b[1]
    elif is_const(a) and not is_const(b):
        # K op x  ->  x op' K
        x, k = b, a[1]
        op = {"Ge": "Le", "Le": "Ge", "Gt": "Lt", "Lt": "Gt"}[op]
    else:
        return None
    truth = bool(value)
    if op == "Ge":
        return x, k, truth
    if op == "Lt":
        return x, k, not truth
    if op == "Gt":
        return x, k + 1, truth
    return x, k + 1, not truth   # Le


def mod_fields(P, key, arg_index=0, opaque=()):
    """Top-level fields of the object behind parameter `arg_index` that `key` may modify, from its own K4 effect summary
    (all return paths and generic loop iterations)."""
    eng = Engine(P, opaque=set(opaque))
    rets, loops, _ = eng.paths(key)
    body = P.body(key)
    prm = ("param", arg_index, body["locals"][arg_index + 1].get("n", f"arg{arg_index}"))
    out = set()
    for lf in rets + loops:
        v = lf.ext.get(prm)
        while v is not None and isinstance(v, tuple) and v and v[0] in ("upd", "mutated", "loopvar"):
            if v[0] == "mutated":
                return None     # an opaque callee had the whole object: no frame information
            if v[0] == "loopvar":
                # the whole object is loop-carried (reborrowed mutably inside a loop): what one iteration changes is in the loopback leaves,
                # what happened before the loop is in the value on loop entry
                v = v[3]
                continue
            path = v[2]
            if not path or path[0][0] != "f":
                return None
            out.add(path[0][2])
            v = v[1]
        if v is not None and v != ("obj", prm) and not (isinstance(v, tuple) and v and v[0] == "init"):
            return None         # the object was replaced as a whole (`*self = ...`): every field may differ
    return out
