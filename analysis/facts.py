"""Loader for the chessfacts JSON documents: one merged, read-only view of the program."""
import json, os
from . import extract as _extract


class AnchorError(Exception):
    """An anchored item (fn, static, field) named by a rule cannot be found: the rule is unevaluable."""


class Program:
    def __init__(self, facts_dir):
        self.dir = facts_dir
        self.crates = {}
        self.fns = {}           # key -> body (functions, closures, promoteds)
        self.const_bodies = {}  # key -> body (const/static initialisers and their promoteds)
        self.adts = {}
        self.values = {}
        self.impls = []
        self.unsafe_blocks = []
        self.crate_of = {}
        for f in sorted(os.listdir(facts_dir)):
            if not f.endswith(".json"):
                continue
            with open(os.path.join(facts_dir, f)) as fh:
                doc = json.load(fh)
            name = f[:-5]
            self.crates[name] = doc
            for k, b in doc["fns"].items():
                b["crate"] = name
                b["key"] = k
                # parameter names are not part of a function's meaning: canonical names a0, a1, ... (`self` cannot be renamed and is kept),
                # so that no rule depends on what a parameter happens to be called
                for i in range(b.get("argc", 0)):
                    l = b["locals"][i + 1]
                    if l.get("n") != "self":
                        l["src_n"] = l.get("n")
                        l["n"] = f"a{i}"
                if k in self.fns and name.endswith("-bin"):
                    k = name + "!" + k
                self.fns[k] = b
                self.crate_of[k] = name
            for k, b in doc["const_bodies"].items():
                b["crate"] = name
                b["key"] = k
                self.const_bodies[k] = b
            for k, a in doc["adts"].items():
                a["crate"] = name
                self.adts[k] = a
            for k, v in doc["values"].items():
                v["crate"] = name
                self.values[k] = v
            for i in doc["impls"]:
                i["crate"] = name
                self.impls.append(i)
            for u in doc["unsafe_blocks"]:
                u["crate"] = name
                self.unsafe_blocks.append(u)
        self._callers = None
        self.renamed = []
        tb = os.path.join(os.path.dirname(os.path.dirname(os.path.abspath(__file__))), "pinned_names.json")
        if os.path.exists(tb) and not os.environ.get("VERIF_NO_CANON"):
            with open(tb) as fh:
                self.renamed = canonicalise_private_names(self, json.load(fh))

    # ------------------------------------------------------------ lookup
    def body(self, key):
        b = self.fns.get(key) or self.const_bodies.get(key)
        if b is None:
            raise AnchorError(f"no MIR body for `{key}`")
        return b

    def has_body(self, key):
        return key in self.fns or key in self.const_bodies

    def find_fn(self, suffix, crate=None):
        """Unique function whose key ends with `suffix` (at a path boundary)."""
        hits = [k for k in self.fns
                if (k == suffix or k.endswith("::" + suffix) or k.endswith(" " + suffix) or k.endswith(">::" + suffix))
                and "::promoted[" not in k and (crate is None or self.crate_of[k] == crate)]
        if len(hits) != 1:
            raise AnchorError(f"function `{suffix}`{' in ' + crate if crate else ''}: {len(hits)} matches {hits[:4]}")
        return hits[0]

    def value(self, key):
        v = self.values.get(key)
        if v is None:
            raise AnchorError(f"no static/const `{key}`")
        return v

    def find_value(self, suffix, crate=None):
        hits = [k for k in self.values if (k == suffix or k.endswith("::" + suffix))
                and (crate is None or self.values[k]["crate"] == crate)]
        if len(hits) != 1:
            raise AnchorError(f"static/const `{suffix}`: {len(hits)} matches {hits[:4]}")
        return hits[0]

    def adt(self, key):
        a = self.adts.get(key)
        if a is None:
            raise AnchorError(f"no ADT `{key}`")
        return a

    def find_adt(self, suffix, crate=None):
        hits = [k for k in self.adts if (k == suffix or k.endswith("::" + suffix))
                and (crate is None or self.adts[k]["crate"] == crate)]
        if len(hits) != 1:
            raise AnchorError(f"ADT `{suffix}`: {len(hits)} matches {hits[:4]}")
        return hits[0]

    # ------------------------------------------------------------ enums
    def enum_variants(self, adt_key):
        a = self.adt(adt_key)
        return [(v["name"], int(v["discr"]) if "discr" in v else i) for i, v in enumerate(a["variants"])]

    def variant_name(self, adt_key, discr):
        for n, d in self.enum_variants(adt_key):
            if d == discr:
                return n
        return None

    # ------------------------------------------------------------ values
    def value_bytes(self, key):
        v = self.value(key)
        if "hex" in v:
            return bytes.fromhex(v["hex"])
        val = v.get("val")
        if val is None:
            raise AnchorError(f"`{key}` has no evaluated value")
        if "bytes" in val:
            return bytes.fromhex(val["bytes"])
        if "bits" in val:
            return int(val["bits"]).to_bytes(int(val["sz"]), "little")
        if "zst" in val:
            return b""
        raise AnchorError(f"`{key}`: value form not decodable: {list(val)}")

    def value_u64s(self, key):
        b = self.value_bytes(key)
        return [int.from_bytes(b[i:i + 8], "little") for i in range(0, len(b), 8)]

    def value_ints(self, key, width):
        b = self.value_bytes(key)
        return [int.from_bytes(b[i:i + width], "little") for i in range(0, len(b), width)]

    # ------------------------------------------------------------ call graph
    def calls(self, key):
        """(block index, terminator) of every call in body `key`."""
        b = self.body(key)
        return [(i, blk["t"]) for i, blk in enumerate(b["blocks"]) if blk["t"]["k"] == "call"]

    def callee_key(self, term):
        f = term["f"]
        if f.get("k") == "fnref":
            return f["fn"]
        return None

    def callers(self):
        if self._callers is None:
            c = {}
            for k, b in self.fns.items():
                for i, blk in enumerate(b["blocks"]):
                    t = blk["t"]
                    if t["k"] == "call" and t["f"].get("k") == "fnref":
                        c.setdefault(t["f"]["fn"], []).append((k, i))
                    # fn items passed as values (closures, fn pointers)
                    for ref in fn_refs_in_block(blk):
                        c.setdefault(ref, []).append((k, i))
            self._callers = c
        return self._callers

    def src_line(self, span):
        """Source text of `file:line:col` (for reports only)."""
        try:
            f, line, _ = span.rsplit(":", 2)
            p = f if os.path.isabs(f) else os.path.join(_extract.REPO, f)
            with open(p, errors="replace") as fh:
                return fh.read().splitlines()[int(line) - 1].strip()
        except Exception:
            return ""


def walk_places(x):
    """Yield every place dict ({"l":..,"pj":[..]}) nested in a statement/terminator JSON."""
    if isinstance(x, dict):
        if "l" in x and "pj" in x:
            yield x
        for v in x.values():
            yield from walk_places(v)
    elif isinstance(x, list):
        for v in x:
            yield from walk_places(v)


def _field_read_by(P, fn_key, adt):
    b = P.fns.get(fn_key)
    if b is None:
        return None
    names = set()
    for blk in b["blocks"]:
        for s in blk["s"]:
            for pl in walk_places(s):
                for e in pl["pj"]:
                    if isinstance(e, dict) and e.get("a") == adt:
                        names.add(e.get("n"))
    return names.pop() if len(names) == 1 else None


def canonicalise_private_names(P, table):
    """Private names are not part of the program's meaning.  Items of the current tree that the pinned tree does not know by name are matched with
    the pinned items that are missing, by what identifies them otherwise (a field: its struct and type, then its accessor, then its position among
    the fields of that type; a static/const or a non-pub function: its parent path and type / signature, when unique), and get the pinned name
    back in the facts - a bijective renaming.  Returns the renamings applied."""
    import re
    applied = []
    # ---- struct fields
    fmap = {}
    for adt, pinned in table.get("adts", {}).items():
        a = P.adts.get(adt)
        if a is None or a.get("kind") != "struct":
            continue
        cur = a["variants"][0]["fields"]
        cur_names = {f["name"] for f in cur}
        missing = [pf for pf in pinned if pf["name"] not in cur_names]
        known = {pf["name"] for pf in pinned}
        fresh = [f for f in cur if f["name"] not in known]
        if not missing or not fresh:
            continue
        m = {}
        for ty in sorted({pf["ty"] for pf in missing}):
            pm = [pf for pf in missing if pf["ty"] == ty]
            cf = [f for f in fresh if f["ty"] == ty]
            if not cf:
                continue
            if len(pm) == 1 and len(cf) == 1:
                m[cf[0]["name"]] = pm[0]["name"]
                continue
            rest_p, rest_c = list(pm), list(cf)
            for pf in pm:
                got = _field_read_by(P, pf["accessor"], adt) if pf.get("accessor") else None
                if got and any(f["name"] == got for f in rest_c):
                    m[got] = pf["name"]
                    rest_p.remove(pf)
                    rest_c = [f for f in rest_c if f["name"] != got]
            if len(rest_p) == len(rest_c):
                for pf, f in zip(rest_p, rest_c):       # declaration order
                    m[f["name"]] = pf["name"]
        if m and len(set(m.values())) == len(m):
            fmap[adt] = m
            for f in cur:
                if f["name"] in m:
                    applied.append(f"{adt}.{f['name']} -> {m[f['name']]}")
                    f["src_name"], f["name"] = f["name"], m[f["name"]]
    if fmap:
        for b in list(P.fns.values()) + list(P.const_bodies.values()):
            for blk in b["blocks"]:
                for s in blk["s"] + [blk["t"]]:
                    for pl in walk_places(s):
                        for e in pl["pj"]:
                            if isinstance(e, dict) and e.get("a") in fmap and e.get("n") in fmap[e["a"]]:
                                e["n"] = fmap[e["a"]][e["n"]]
    # ---- declaration order of struct fields (layout is recorded per field; nothing else depends on the order): pinned order, new fields last
    perm = {}
    for adt, pinned in table.get("adts", {}).items():
        a = P.adts.get(adt)
        if a is None or a.get("kind") != "struct" or "IS_C" in str(a.get("repr", "")) and False:
            continue
        cur = a["variants"][0]["fields"]
        order = [pf["name"] for pf in pinned]
        names = [f["name"] for f in cur]
        want = [n for n in order if n in names] + [n for n in names if n not in order]
        if want != names:
            perm[adt] = [names.index(n) for n in want]          # new position -> old position
            a["variants"][0]["fields"] = [cur[i] for i in perm[adt]]
            applied.append(f"{adt}: field order {names} -> {want}")
    if perm:
        inv = {adt: {old: new for new, old in enumerate(pm)} for adt, pm in perm.items()}
        def fix(x):
            if isinstance(x, dict):
                if isinstance(x.get("a"), str) and x["a"] in inv and isinstance(x.get("f"), int):
                    x["f"] = inv[x["a"]].get(x["f"], x["f"])
                if x.get("k") == "agg" and x.get("ak") == "adt" and isinstance(x.get("adt"), str) and x["adt"] in perm and len(x.get("ops", [])) == len(perm[x["adt"]]):
                    x["ops"] = [x["ops"][i] for i in perm[x["adt"]]]
                for v in x.values():
                    fix(v)
            elif isinstance(x, list):
                for v in x:
                    fix(v)
        for b in list(P.fns.values()) + list(P.const_bodies.values()):
            fix(b["blocks"])
    # ---- statics / consts and non-pub functions: rename keys
    kmap = {}
    vals = table.get("values", {})
    gone = [k for k in vals if k not in P.values]
    new = [k for k in P.values if k not in vals and "::{" not in k and "promoted[" not in k]
    for k in gone:
        parent = k.rsplit("::", 1)[0]
        c = [n for n in new if n.rsplit("::", 1)[0] == parent and P.values[n].get("kind") == vals[k]["kind"] and P.values[n].get("ty") == vals[k]["ty"]]
        g = [x for x in gone if x.rsplit("::", 1)[0] == parent and vals[x]["kind"] == vals[k]["kind"] and vals[x]["ty"] == vals[k]["ty"]]
        if len(c) == 1 and len(g) == 1:
            kmap[c[0]] = k
    fns = table.get("fns", {})
    gone = [k for k in fns if k not in P.fns and fns[k].get("vis") != "pub"]
    new = [k for k, b in P.fns.items() if k not in fns and "::{" not in k and "promoted[" not in k and b.get("vis") != "pub" and b.get("kind") in ("fn", "assoc_fn")]
    sig = lambda b: [b["locals"][i]["ty"] for i in range(b.get("argc", 0) + 1)]
    for k in gone:
        parent = k.rsplit("::", 1)[0]
        same = lambda n: n.rsplit("::", 1)[0] == parent and sig(P.fns[n]) == fns[k]["sig"] and bool(P.fns[n].get("unsafe")) == fns[k]["unsafe"]
        c = [n for n in new if same(n)]
        g = [x for x in gone if x.rsplit("::", 1)[0] == parent and fns[x]["sig"] == fns[k]["sig"] and fns[x]["unsafe"] == fns[k]["unsafe"]]
        if len(c) == 1 and len(g) == 1:
            kmap[c[0]] = k
    # a non-pub function moved into another (nested / sibling) private module of the same crate keeps its name and signature
    for k in [k_ for k_ in gone if k_ not in kmap.values()]:
        last, crate = k.rsplit("::", 1)[1], k.split("::", 1)[0]
        c = [n for n in new if n not in kmap and n.rsplit("::", 1)[1] == last and n.split("::", 1)[0] == crate and sig(P.fns[n]) == fns[k]["sig"] and bool(P.fns[n].get("unsafe")) == fns[k]["unsafe"]]
        g = [x for x in gone if x.rsplit("::", 1)[1] == last and x.split("::", 1)[0] == crate and fns[x]["sig"] == fns[k]["sig"]]
        if len(c) == 1 and len(g) == 1:
            kmap[c[0]] = k
    if kmap:
        rx = re.compile(r"(?<![\w:])(" + "|".join(re.escape(k) for k in sorted(kmap, key=len, reverse=True)) + r")(?![\w])")
        sub = lambda s: rx.sub(lambda mm: kmap[mm.group(1)], s) if isinstance(s, str) and "::" in s else s

        def deep(x):
            if isinstance(x, dict):
                for kk in list(x.keys()):
                    v = x[kk]
                    if isinstance(v, str):
                        if kk not in ("sp", "span", "def_span"):
                            x[kk] = sub(v)
                    else:
                        deep(v)
            elif isinstance(x, list):
                for i, v in enumerate(x):
                    if isinstance(v, str):
                        x[i] = sub(v)
                    else:
                        deep(v)
        for d in (P.fns, P.const_bodies, P.values, P.adts):
            deep(d)
            for kk in list(d.keys()):
                nk = sub(kk)
                if nk != kk and nk not in d:
                    d[nk] = d.pop(kk)
                    if isinstance(d[nk], dict) and d[nk].get("key") == kk:
                        d[nk]["key"] = nk
        deep(P.impls)
        deep(P.unsafe_blocks)
        P.crate_of = {sub(k): v for k, v in P.crate_of.items()}
        applied += [f"{a} -> {b}" for a, b in kmap.items()]
    return applied


def walk_operands(x):
    """Yield every operand dict (k in copy/move/const) nested in a statement/terminator JSON."""
    if isinstance(x, dict):
        if x.get("k") in ("copy", "move", "const"):
            yield x
        for v in x.values():
            yield from walk_operands(v)
    elif isinstance(x, list):
        for v in x:
            yield from walk_operands(v)


def fn_refs_in_block(blk):
    """fn items / closures mentioned as values (not as the callee) in a block."""
    out = []
    for st in blk["s"]:
        for o in walk_operands(st):
            c = o.get("c") if o.get("k") == "const" else None
            if c and "fn" in c:
                out.append(c["fn"])
        r = st.get("r")
        if r and r.get("k") == "agg" and r.get("ak") == "closure":
            out.append(r["fn"])
    t = blk["t"]
    if t["k"] == "call":
        for a in t["a"]:
            c = a.get("c") if a.get("k") == "const" else None
            if c and "fn" in c:
                out.append(c["fn"])
    return out


_PROGRAMS = {}


def load(config="ws"):
    d = _extract.extract(config)
    if d not in _PROGRAMS:
        _PROGRAMS[d] = Program(d)
    return _PROGRAMS[d]


def decode_struct_array(P, value_key, adt_key):
    """Decode a `[Struct; N]` static whose fields are plain integers, using the layout facts."""
    a = P.adt(adt_key)
    size = a["size"]
    fields = a["variants"][0]["fields"]
    raw = P.value_bytes(value_key)
    if len(raw) % size:
        raise AnchorError(f"{value_key}: size {len(raw)} not a multiple of {adt_key} ({size})")
    out = []
    for i in range(0, len(raw), size):
        e = {}
        for f in fields:
            tj = f["tj"]
            if tj["k"] != "int":
                raise AnchorError(f"{adt_key}.{f['name']} is not an integer")
            w = tj["bits"] // 8
            e[f["name"]] = int.from_bytes(raw[i + f["offset"]: i + f["offset"] + w], "little")
        out.append(e)
    return out
