"""Loader for the chessfacts JSON documents: one merged, read-only view of the program."""
import json, os
from . import extract as _extract


class AnchorError(Exception):
    """An anchored item (fn, static, field) named by a rule cannot be found: the rule is unevaluable."""


class Program:
    def __init__(self, facts_dir):
        self.dir = facts_dir
        self.crates = {}
        self.fns = {}           # key -> body (functions, closures, promoteds)
        self.const_bodies = {}  # key -> body (const/static initialisers and their promoteds)
        self.adts = {}
        self.values = {}
        self.impls = []
        self.unsafe_blocks = []
        self.crate_of = {}
        for f in sorted(os.listdir(facts_dir)):
            if not f.endswith(".json"):
                continue
            with open(os.path.join(facts_dir, f)) as fh:
                doc = json.load(fh)
            name = f[:-5]
            self.crates[name] = doc
            for k, b in doc["fns"].items():
                b["crate"] = name
                b["key"] = k
                # parameter names are not part of a function's meaning: canonical names a0, a1, ... (`self` cannot be renamed and is kept),
                # so that no rule depends on what a parameter happens to be called
                for i in range(b.get("argc", 0)):
                    l = b["locals"][i + 1]
                    if l.get("n") != "self":
                        l["src_n"] = l.get("n")
                        l["n"] = f"a{i}"
                if k in self.fns and name.endswith("-bin"):
                    k = name + "!" + k
                self.fns[k] = b
                self.crate_of[k] = name
            for k, b in doc["const_bodies"].items():
                b["crate"] = name
                b["key"] = k
                self.const_bodies[k] = b
            for k, a in doc["adts"].items():
                a["crate"] = name
                self.adts[k] = a
            for k, v in doc["values"].items():
                v["crate"] = name
                self.values[k] = v
            for i in doc["impls"]:
                i["crate"] = name
                self.impls.append(i)
            for u in doc["unsafe_blocks"]:
                u["crate"] = name
                self.unsafe_blocks.append(u)
        self._callers = None

    # ------------------------------------------------------------ lookup
    def body(self, key):
        b = self.fns.get(key) or self.const_bodies.get(key)
        if b is None:
            raise AnchorError(f"no MIR body for `{key}`")
        return b

    def has_body(self, key):
        return key in self.fns or key in self.const_bodies

    def find_fn(self, suffix, crate=None):
        """Unique function whose key ends with `suffix` (at a path boundary)."""
        hits = [k for k in self.fns
                if (k == suffix or k.endswith("::" + suffix) or k.endswith(" " + suffix) or k.endswith(">::" + suffix))
                and "::promoted[" not in k and (crate is None or self.crate_of[k] == crate)]
        if len(hits) != 1:
            raise AnchorError(f"function `{suffix}`{' in ' + crate if crate else ''}: {len(hits)} matches {hits[:4]}")
        return hits[0]

    def value(self, key):
        v = self.values.get(key)
        if v is None:
            raise AnchorError(f"no static/const `{key}`")
        return v

    def find_value(self, suffix, crate=None):
        hits = [k for k in self.values if (k == suffix or k.endswith("::" + suffix))
                and (crate is None or self.values[k]["crate"] == crate)]
        if len(hits) != 1:
            raise AnchorError(f"static/const `{suffix}`: {len(hits)} matches {hits[:4]}")
        return hits[0]

    def adt(self, key):
        a = self.adts.get(key)
        if a is None:
            raise AnchorError(f"no ADT `{key}`")
        return a

    def find_adt(self, suffix, crate=None):
        hits = [k for k in self.adts if (k == suffix or k.endswith("::" + suffix))
                and (crate is None or self.adts[k]["crate"] == crate)]
        if len(hits) != 1:
            raise AnchorError(f"ADT `{suffix}`: {len(hits)} matches {hits[:4]}")
        return hits[0]

    # ------------------------------------------------------------ enums
    def enum_variants(self, adt_key):
        a = self.adt(adt_key)
        return [(v["name"], int(v["discr"]) if "discr" in v else i) for i, v in enumerate(a["variants"])]

    def variant_name(self, adt_key, discr):
        for n, d in self.enum_variants(adt_key):
            if d == discr:
                return n
        return None

    # ------------------------------------------------------------ values
    def value_bytes(self, key):
        v = self.value(key)
        if "hex" in v:
            return bytes.fromhex(v["hex"])
        val = v.get("val")
        if val is None:
            raise AnchorError(f"`{key}` has no evaluated value")
        if "bytes" in val:
            return bytes.fromhex(val["bytes"])
        if "bits" in val:
            return int(val["bits"]).to_bytes(int(val["sz"]), "little")
        if "zst" in val:
            return b""
        raise AnchorError(f"`{key}`: value form not decodable: {list(val)}")

    def value_u64s(self, key):
        b = self.value_bytes(key)
        return [int.from_bytes(b[i:i + 8], "little") for i in range(0, len(b), 8)]

    def value_ints(self, key, width):
        b = self.value_bytes(key)
        return [int.from_bytes(b[i:i + width], "little") for i in range(0, len(b), width)]

    # ------------------------------------------------------------ call graph
    def calls(self, key):
        """(block index, terminator) of every call in body `key`."""
        b = self.body(key)
        return [(i, blk["t"]) for i, blk in enumerate(b["blocks"]) if blk["t"]["k"] == "call"]

    def callee_key(self, term):
        f = term["f"]
        if f.get("k") == "fnref":
            return f["fn"]
        return None

    def callers(self):
        if self._callers is None:
            c = {}
            for k, b in self.fns.items():
                for i, blk in enumerate(b["blocks"]):
                    t = blk["t"]
                    if t["k"] == "call" and t["f"].get("k") == "fnref":
                        c.setdefault(t["f"]["fn"], []).append((k, i))
                    # fn items passed as values (closures, fn pointers)
                    for ref in fn_refs_in_block(blk):
                        c.setdefault(ref, []).append((k, i))
            self._callers = c
        return self._callers

    def src_line(self, span):
        """Source text of `file:line:col` (for reports only)."""
        try:
            f, line, _ = span.rsplit(":", 2)
            p = f if os.path.isabs(f) else os.path.join(_extract.REPO, f)
            with open(p, errors="replace") as fh:
                return fh.read().splitlines()[int(line) - 1].strip()
        except Exception:
            return ""


def walk_operands(x):
    """Yield every operand dict (k in copy/move/const) nested in a statement/terminator JSON."""
    if isinstance(x, dict):
        if x.get("k") in ("copy", "move", "const"):
            yield x
        for v in x.values():
            yield from walk_operands(v)
    elif isinstance(x, list):
        for v in x:
            yield from walk_operands(v)


def fn_refs_in_block(blk):
    """fn items / closures mentioned as values (not as the callee) in a block."""
    out = []
    for st in blk["s"]:
        for o in walk_operands(st):
            c = o.get("c") if o.get("k") == "const" else None
            if c and "fn" in c:
                out.append(c["fn"])
        r = st.get("r")
        if r and r.get("k") == "agg" and r.get("ak") == "closure":
            out.append(r["fn"])
    t = blk["t"]
    if t["k"] == "call":
        for a in t["a"]:
            c = a.get("c") if a.get("k") == "const" else None
            if c and "fn" in c:
                out.append(c["fn"])
    return out


_PROGRAMS = {}


def load(config="ws"):
    d = _extract.extract(config)
    if d not in _PROGRAMS:
        _PROGRAMS[d] = Program(d)
    return _PROGRAMS[d]


def decode_struct_array(P, value_key, adt_key):
    """Decode a `[Struct; N]` static whose fields are plain integers, using the layout facts."""
    a = P.adt(adt_key)
    size = a["size"]
    fields = a["variants"][0]["fields"]
    raw = P.value_bytes(value_key)
    if len(raw) % size:
        raise AnchorError(f"{value_key}: size {len(raw)} not a multiple of {adt_key} ({size})")
    out = []
    for i in range(0, len(raw), size):
        e = {}
        for f in fields:
            tj = f["tj"]
            if tj["k"] != "int":
                raise AnchorError(f"{adt_key}.{f['name']} is not an integer")
            w = tj["bits"] // 8
            e[f["name"]] = int.from_bytes(raw[i + f["offset"]: i + f["offset"] + w], "little")
        out.append(e)
    return out
