"""K2 helpers: structural rules over CFG and call graph."""
from .cfg import cfg_of
from .facts import AnchorError


def call_sites(P, key, name=None, pred=None):
    """[(block, term)] of calls in body `key` whose resolved callee key equals/ends with `name` (or satisfies pred)."""
    out = []
    for bi, t in P.calls(key):
        f = t["f"]
        k = f.get("fn") if f.get("k") == "fnref" else None
        if k is None:
            continue
        if name is not None and not (k == name or k.endswith("::" + name) or k.endswith(">::" + name)):
            continue
        if pred is not None and not pred(k, f):
            continue
        out.append((bi, t))
    return out


def result_blocks(body, variant):
    """Blocks that build `Result::<variant>` / `Option::<variant>` directly into the return place."""
    out = []
    for bi, blk in enumerate(body["blocks"]):
        for s in blk["s"]:
            if s["k"] == "assign" and s["p"]["l"] == 0 and not s["p"]["pj"]:
                r = s["r"]
                if r.get("k") == "agg" and r.get("ak") == "adt" and r.get("vn") == variant:
                    out.append(bi)
    return out


def dominated_by_any(body, target_block, blocks):
    c = cfg_of(body)
    return any(b != target_block and c.dominates(b, target_block) for b in blocks)


def success_edge_dominates(body, call_block, variant_ok, target_block):
    """Does the *success* outcome of the fallible call in `call_block` dominate `target_block`?
    Recognises `match call() { Ok.. }`, `if let Err(e) = call() { return }` and `call()?` (Try::branch) encodings:
    follows the call's destination to the discriminant switch and requires the Err/Break successor not to reach the target."""
    c = cfg_of(body)
    if not c.dominates(call_block, target_block) or call_block == target_block:
        return False
    # find the first switch reachable from the call along single-successor edges
    b = c.succ[call_block][0] if c.succ[call_block] else None
    hops = 0
    while b is not None and hops < 8:
        t = body["blocks"][b]["t"]
        if t["k"] == "switch":
            # the failing successors are those from which the target is unreachable
            reach = {s: target_block in c.reachable_from(s) for s in c.succ[b]}
            return any(not r for r in reach.values()) and any(reach.values()) and c.dominates(b, target_block)
        if len(c.succ[b]) != 1:
            return False
        b = c.succ[b][0]
        hops += 1
    return False


def assigns_to_field(P, key, adt, field):
    """[(block, stmt)] assignments in `key` whose place ends in field `field` of `adt`."""
    out = []
    b = P.body(key)
    for bi, blk in enumerate(b["blocks"]):
        for s in blk["s"]:
            if s["k"] == "assign" and s["p"]["pj"]:
                e = s["p"]["pj"][-1]
                if isinstance(e, dict) and e.get("n") == field and e.get("a") == adt:
                    out.append((bi, s))
    return out


def writers_of_field(P, adt, field, crates=None):
    """Bodies that assign, or take `&mut` of, field `field` of `adt` (who-may-write)."""
    out = {}
    for k, b in P.fns.items():
        if crates and b["crate"] not in crates:
            continue
        for bi, blk in enumerate(b["blocks"]):
            for s in blk["s"]:
                if s["k"] != "assign":
                    continue
                pj = s["p"]["pj"]
                if any(isinstance(e, dict) and e.get("n") == field and e.get("a") == adt for e in pj):
                    out.setdefault(k, []).append(("assign", bi, s.get("sp")))
                r = s["r"]
                if r.get("k") in ("ref", "rawptr") and (r.get("bk") == "mut" or r.get("m", "").startswith("Mut")):
                    if any(isinstance(e, dict) and e.get("n") == field and e.get("a") == adt for e in r["p"]["pj"]):
                        out.setdefault(k, []).append(("mutref", bi, s.get("sp")))
    return out


def constructors_of(P, adt, crates=None):
    """Bodies containing an aggregate that builds `adt` (who-may-construct)."""
    out = {}
    for k, b in list(P.fns.items()) + list(P.const_bodies.items()):
        if crates and b["crate"] not in crates:
            continue
        for bi, blk in enumerate(b["blocks"]):
            for s in blk["s"]:
                r = s.get("r", {})
                if r.get("k") == "agg" and r.get("ak") == "adt" and r.get("adt") == adt:
                    out.setdefault(b.get("owner", k), []).append((bi, r.get("vn"), s.get("sp")))
    return out


# ---------------------------------------------------------------------------------------------
# guard extraction: the branch conditions a block is control dependent on, described by the
# definition of the value each branch switches on (no path enumeration)
def local_defs(body, local):
    """All definitions of a local: ('stmt', block, stmt) / ('call', block, term)."""
    out = []
    for bi, blk in enumerate(body["blocks"]):
        for s in blk["s"]:
            if s["k"] == "assign" and s["p"]["l"] == local and not s["p"]["pj"]:
                out.append(("stmt", bi, s))
        t = blk["t"]
        if t["k"] == "call" and t["d"]["l"] == local and not t["d"]["pj"]:
            out.append(("call", bi, t))
    return out


def describe_operand(P, body, o, depth=0):
    """Structural description of an operand, following single definitions of compiler temporaries."""
    k = o.get("k")
    if k == "const":
        c = o.get("c") or {}
        if "int" in c:
            return ("int", int(c["int"]), o.get("ty"))
        if "uneval" in o:
            return ("uneval", o["uneval_args"])
        if "promoted" in o:
            return ("promoted", o["promoted"])
        if "fn" in c:
            return ("fn", c["fn"])
        if "str" in c:
            return ("str", c["str"])
        return ("const", o.get("ty"))
    if k in ("copy", "move"):
        return describe_place(P, body, o["p"], depth)
    return ("?",)


EXPAND_NAMED = [False]


def describe_place(P, body, p, depth=0):
    l = p["l"]
    name = body["locals"][l].get("n")
    pj = tuple(("d" if e == "d" else e.get("n", e.get("f", e.get("dc", "?")))) if not isinstance(e, str) else e for e in p["pj"])
    if (name and not EXPAND_NAMED[0]) or l <= body["argc"] or depth > 6:
        return ("place", name or f"_{l}", pj)
    defs = local_defs(body, l)
    if len(defs) != 1:
        return ("place", f"_{l}", pj)
    kind, bi, d = defs[0]
    base = describe_def(P, body, kind, d, depth + 1)
    return base if not pj else ("proj", base, pj)


def describe_def(P, body, kind, d, depth=0):
    if kind == "call":
        f = d["f"]
        callee = f.get("fn_args", f.get("decl_args", f.get("fn", "?"))) if f.get("k") == "fnref" else "<indirect>"
        return ("call", callee, tuple(describe_operand(P, body, a, depth) for a in d["a"]))
    r = d["r"]
    rk = r["k"]
    if rk == "use":
        return describe_operand(P, body, r["o"], depth)
    if rk in ("ref", "rawptr", "cfd"):
        return ("ref", describe_place(P, body, r["p"], depth))
    if rk == "bin":
        return ("bin", r["op"], describe_operand(P, body, r["a"], depth), describe_operand(P, body, r["b"], depth))
    if rk == "un":
        return ("un", r["op"], describe_operand(P, body, r["o"], depth))
    if rk == "cast":
        return ("cast", r["ty"], describe_operand(P, body, r["o"], depth))
    if rk == "discr":
        return ("discr", describe_place(P, body, r["p"], depth))
    if rk == "agg":
        return ("agg", r.get("adt", r["ak"]), r.get("vn"), tuple(describe_operand(P, body, o, depth) for o in r["ops"]))
    return ("rvalue", rk)


def guards_of(P, key, block):
    """[(description of the switched value, value taken towards `block`)] for every branch `block` is control dependent on."""
    body = P.body(key)
    c = cfg_of(body)
    out = []
    for a, s in c.control_deps(block):
        t = body["blocks"][a]["t"]
        if t["k"] != "switch":
            continue
        vals = [v for v, b in t["tg"] if b == s]
        taken = int(vals[0]) if vals else ("otherwise", tuple(int(v) for v, _ in t["tg"]))
        out.append((describe_operand(P, body, t["d"]), taken, a))
    return out


def guard_calls(guards):
    """{callee (generic args stripped to the last path segments): truthiness} for guards that are bool call results."""
    out = {}
    for d, taken, _ in guards:
        neg = False
        while d[0] == "un" and d[1] == "Not":
            d, neg = d[2], not neg
        if d[0] == "call":
            truth = None
            if taken == 0:
                truth = False
            elif taken == 1:
                truth = True
            elif isinstance(taken, tuple) and taken[0] == "otherwise":
                truth = (0 in taken[1])
            if truth is not None:
                out[d[1]] = (truth != neg, d[2])
    return out


def _field_path(pj):
    """field names of a place projection (dereferences dropped); None if it has an index or something else"""
    out = []
    for e in pj:
        if e == "d":
            continue
        if isinstance(e, dict) and ("n" in e or "f" in e) and "i" not in e:
            out.append(e.get("n", e.get("f")))
        else:
            return None
    return tuple(out)


def origins(P, body, local, seen=None, payload=False, path=()):
    """Leaves of the reaching-definition closure of a local (of the field `path` of it, if given): where can its value come from?
    Leaves: ('const', descr) | ('call', callee, arg descriptions, block) | ('param', name) | ('agg', adt, variant, [origins of operands])."""
    seen = seen if seen is not None else set()
    if len(path) > 4:
        path = ()           # give up field sensitivity on very deep (cyclic) paths: the whole value
    if (local, path) in seen:
        return set()
    seen.add((local, path))
    if 1 <= local <= body["argc"]:
        return {("param", body["locals"][local].get("n"))}
    out = set()

    def of_operand(o):
        if o.get("k") in ("copy", "move"):
            fp = _field_path(o["p"]["pj"])
            return origins(P, body, o["p"]["l"], seen, path=(fp + path) if fp is not None else ())
        return {("const", str(describe_operand(P, body, o))[:80])}
    if path:
        # field-sensitive: a struct literal contributes the operand of that field; `local.field = x` contributes x; other definitions the whole value
        handled = False
        for bi, blk in enumerate(body["blocks"]):
            for s in blk["s"]:
                if s["k"] == "assign" and s["p"]["l"] == local and s["p"]["pj"]:
                    fp = _field_path(s["p"]["pj"])
                    if fp is not None and fp[:1] == path[:1] and s["r"].get("k") == "use":
                        out |= of_operand(s["r"]["o"]) if len(fp) >= len(path) else set()
        for kind, bi, d in local_defs(body, local):
            if kind == "stmt" and d["r"].get("k") == "agg" and d["r"].get("vn") and len(path) >= 2 and path[0] == d["r"]["vn"] and str(path[1]) in [str(f_) for f_ in d["r"].get("fields", [])]:
                # enum variant literal read back through a downcast: `(x as Some).0` of `x = Some(v)` is v
                o = d["r"]["ops"][[str(f_) for f_ in d["r"]["fields"]].index(str(path[1]))]
                if o.get("k") in ("copy", "move"):
                    fp = _field_path(o["p"]["pj"])
                    out |= origins(P, body, o["p"]["l"], seen, path=(fp + path[2:]) if fp is not None else ())
                else:
                    out.add(("const", str(describe_operand(P, body, o))[:80]))
                handled = True
            elif kind == "stmt" and d["r"].get("k") == "agg" and d["r"].get("vn") and len(path) >= 1 and path[0] != d["r"]["vn"] and not d["r"].get("fields") and d["r"].get("ak") == "adt" and path[0] in ("Some", "None", "Ok", "Err"):
                handled = True          # a different variant (e.g. `None`) has no such payload
            elif kind == "stmt" and d["r"].get("k") == "agg" and d["r"].get("fields") and path[0] in d["r"]["fields"]:
                o = d["r"]["ops"][d["r"]["fields"].index(path[0])]
                if o.get("k") in ("copy", "move"):
                    fp = _field_path(o["p"]["pj"])
                    out |= origins(P, body, o["p"]["l"], seen, path=(fp + path[1:]) if fp is not None else ())
                else:
                    out.add(("const", str(describe_operand(P, body, o))[:80]))
                handled = True
            elif kind == "stmt" and d["r"].get("k") == "use" and d["r"]["o"].get("k") in ("copy", "move"):
                fp = _field_path(d["r"]["o"]["p"]["pj"])
                out |= origins(P, body, d["r"]["o"]["p"]["l"], seen, path=(fp + path) if fp is not None else ())
                handled = True
            else:
                handled = False
                break
        else:
            if handled or out:
                return out
        out = set()
    for kind, bi, d in local_defs(body, local):
        if kind == "call":
            f = d["f"]
            callee = f.get("fn_args", f.get("fn", "?")) if f.get("k") == "fnref" else "<indirect>"
            args = []
            for a in d["a"]:
                if a.get("k") in ("copy", "move"):
                    args.append(frozenset(origins(P, body, a["p"]["l"], set(seen))))
                else:
                    args.append(frozenset({("const", str(describe_operand(P, body, a))[:80])}))
            out.add(("call", callee, tuple(args)))
            continue
        r = d["r"]
        rk = r["k"]
        if rk == "use":
            out |= of_operand(r["o"])
        elif rk in ("ref", "cfd", "rawptr"):
            out |= origins(P, body, r["p"]["l"], seen)
        elif rk == "agg":
            if not r["ops"]:
                out.add(("const", f"{r.get('adt', r['ak'])}::{r.get('vn')}"))
            else:
                for o in r["ops"]:
                    out |= of_operand(o)
        elif rk == "cast":
            o = r["o"]
            if o.get("k") in ("copy", "move"):
                out |= origins(P, body, o["p"]["l"], seen)
            else:
                out.add(("const", "cast"))
        else:
            out.add(("rvalue", rk))
    return out



def private_closure(P, key):
    """`key` plus the non-public functions and closures of its own crate it reaches: helpers extracted from a function count as part of it."""
    crate = P.body(key)["crate"]
    seen, todo = set(), [key]
    while todo:
        k = todo.pop()
        if k in seen:
            continue
        seen.add(k)
        for _, t in P.calls(k):
            f = t["f"].get("fn")
            if f in P.fns and P.fns[f]["crate"] == crate and P.fns[f].get("vis") != "pub" and f not in seen:
                todo.append(f)
        todo.extend(c for c in P.fns if c.startswith(k + "::{closure") and c not in seen)
    return seen


def promoted_value(P, key):
    """What a promoted constant holds: ("uneval", path) for an associated constant, ("variant", adt, name) for a fieldless enum value, else None."""
    b = P.fns.get(key) or P.const_bodies.get(key)
    if not b:
        return None

    def val_of_local(l, depth=0):
        for kind, _, dd in local_defs(b, l):
            if kind != "stmt":
                continue
            r_ = dd["r"]
            if r_.get("k") == "agg" and r_.get("vn") and not r_.get("ops"):
                return ("variant", r_.get("adt"), r_["vn"])
            if r_.get("k") == "use":
                d_ = describe_operand(P, b, r_["o"])
                if d_[0] in ("uneval", "const"):
                    return d_
                if r_["o"].get("k") in ("copy", "move") and not r_["o"]["p"]["pj"] and depth < 3:
                    return val_of_local(r_["o"]["p"]["l"], depth + 1)
        return None
    for blk in b["blocks"]:
        for s in blk["s"]:
            if s["k"] == "assign" and s["p"]["l"] == 0 and not s["p"]["pj"]:
                r = s["r"]
                if r.get("k") == "ref" and not r["p"]["pj"]:
                    return val_of_local(r["p"]["l"])      # `_0 = &_1; _1 = value`: the usual shape of a promoted
                if r.get("k") == "agg" and r.get("vn") and not r.get("ops"):
                    return ("variant", r.get("adt"), r["vn"])
                if r.get("k") == "use":
                    d = describe_operand(P, b, r["o"])
                    if d[0] in ("uneval", "const"):
                        return d
                    # one more hop through a temporary
                    if r["o"].get("k") in ("copy", "move"):
                        for kind, _, dd in local_defs(b, r["o"]["p"]["l"]):
                            if kind == "stmt" and dd["r"].get("k") == "agg" and dd["r"].get("vn") and not dd["r"].get("ops"):
                                return ("variant", dd["r"].get("adt"), dd["r"]["vn"])
                            if kind == "stmt" and dd["r"].get("k") == "use":
                                d2 = describe_operand(P, b, dd["r"]["o"])
                                if d2[0] in ("uneval", "const"):
                                    return d2
    return None


def assoc_enum_guard(P, guards, assoc_path, adt, key=None, depth=0):
    """The variant of the fieldless enum `adt` that the associated constant `assoc_path` is known to equal under `guards`
    (a `match` on it, an `==` / `!=` against a constant variant, or a `matches!` whose boolean result is branched on); None if undecided."""
    names = {d: n for n, d in P.enum_variants(adt)}
    for d, taken, _ in guards:
        if key is not None and depth < 2 and d[0] == "place" and d[2] == () and isinstance(d[1], str) and d[1].startswith("_") and d[1][1:].isdigit():
            # a compiler temporary holding the result of `matches!(CONST, Variant)`: look at the blocks that store the taken truth value
            body = P.body(key)
            truth = taken != 0
            for kind, bi, s in local_defs(body, int(d[1][1:])):
                if kind == "stmt" and s["r"].get("k") == "use" and s["r"]["o"].get("k") == "const":
                    c = s["r"]["o"].get("c") or {}
                    if "int" in c and bool(int(c["int"])) == truth:
                        r = assoc_enum_guard(P, guards_of(P, key, bi), assoc_path, adt, key, depth + 1)
                        if r is not None:
                            return r
        if d == ("discr", ("uneval", assoc_path)) and isinstance(taken, int):
            return names.get(taken)
        if d == ("discr", ("uneval", assoc_path)) and isinstance(taken, tuple) and taken and taken[0] == "otherwise":
            rest = [n for v_, n in names.items() if v_ not in taken[1]]
            if len(rest) == 1:
                return rest[0]
        if d[0] == "call" and d[1].endswith("core::cmp::PartialEq>::eq") or d[0] == "call" and d[1].endswith("core::cmp::PartialEq>::ne"):
            vals = []
            for a in d[2]:
                x = a
                while isinstance(x, tuple) and x and x[0] in ("ref", "proj"):
                    x = x[1]
                if isinstance(x, tuple) and x and x[0] == "promoted":
                    vals.append(promoted_value(P, x[1]))
                elif isinstance(x, tuple) and x and x[0] == "uneval":
                    vals.append(x)
                else:
                    vals.append(None)
            if len(vals) == 2 and ("uneval", assoc_path) in vals:
                other = [v for v in vals if v != ("uneval", assoc_path)]
                if other and other[0] and other[0][0] == "variant" and other[0][1] == adt:
                    truth = taken != 0
                    if d[1].endswith("::ne"):
                        truth = not truth
                    if truth:
                        return other[0][2]
                    rest = [n for n in names.values() if n != other[0][2]]
                    if len(rest) == 1:
                        return rest[0]
    return None


def push_wrappers(P, entry_adt="chess_movegen::iter::LegalMovesAt"):
    """{non-pub function of chess_movegen that pushes exactly one move-list entry per call (one unchecked push, outside every loop, no other pushing
    call): index of the parameter that becomes the entry's `moves`} - a call of such a helper is a push site of its caller."""
    from .cfg import cfg_of
    is_push = lambda t: "push_unchecked" in t["f"].get("fn", "") or (t["f"].get("fn", "").endswith("::push") and "ArrayVec" in t["f"].get("fn", ""))
    out = {}
    for k, body in P.fns.items():
        if body["crate"] != "chess_movegen" or "::promoted" in k or "::{" in k or body.get("vis") == "pub":
            continue
        ps = [(bi, t) for bi, t in P.calls(k) if is_push(t)]
        if len(ps) != 1 or cfg_of(body).in_loop(ps[0][0]) or cfg_of(body).loops():
            continue
        bi, t = ps[0]
        if len(t["a"]) < 2 or t["a"][1].get("k") not in ("copy", "move"):
            continue
        idx = None
        for kind, b2, d in local_defs(body, t["a"][1]["p"]["l"]):
            if kind == "stmt" and d["r"].get("k") == "agg" and d["r"].get("adt") == entry_adt:
                ops = dict(zip(d["r"]["fields"], d["r"]["ops"]))
                mo = ops.get("moves")
                if mo and mo.get("k") in ("copy", "move"):
                    os_ = origins(P, body, mo["p"]["l"])
                    prm = [o for o in os_ if o[0] == "param"]
                    if len(os_) == 1 and prm:
                        names = [l.get("n") for l in body["locals"][1:body["argc"] + 1]]
                        if prm[0][1] in names:
                            idx = names.index(prm[0][1])
        if idx is not None:
            out[k] = idx
    return out


def ab_wrappers(P):
    """{non-pub function of chess_engine that stands for one alphabeta call: {"form": "plain" | "option", "mv": index, "args": index}}: its every
    path returns alphabeta(self, <its move parameter>, <its args parameter>) - as it is, or as Some(..) when the time limit has not expired and None
    when it has (evaluated on the function's own paths)."""
    from . import terms as T
    if getattr(P, "_abw", None) is not None and P._abw[0] == len(P.fns):
        return P._abw[1]
    ab = P.find_fn("Engine::alphabeta", "chess_engine")
    out = {}
    P._abw = (len(P.fns), out)
    for k, b in P.fns.items():
        if b["crate"] != "chess_engine" or k == ab or "::{" in k or "promoted" in k or b.get("vis") == "pub":
            continue
        if not any(T.strip_generics(t_["f"].get("fn", "")) == ab for _, t_ in P.calls(k)):
            continue
        try:
            lv = T.Engine(P, opaque={ab}).tabulate(k)
        except T.NotTabulable:
            continue
        forms, idx, ok = set(), set(), bool(lv)
        for lf in lv:
            r = lf.ret
            tmo = [(t_, v) for t_, v in lf.cond if (t_[0] == "app" and "is_complete" in t_[1]) or (t_[0] == "un" and t_[1] == "Not" and t_[2][0] == "app" and "is_complete" in t_[2][1])]
            expired = [bool(v) if t_[0] == "app" else not bool(v) for t_, v in tmo]
            if r == T.OPT_NONE:
                forms.add("option")
                ok &= expired == [True] and len(lf.cond) == 1
                continue
            if r[0] == "adt" and r[1] == "core::option::Option" and r[2] == "Some":
                forms.add("option")
                ok &= expired == [False] and len(lf.cond) == 1
                r = r[3][0]
            else:
                forms.add("plain")
                ok &= not lf.cond
            if not (r[0] == "app" and T.strip_generics(r[1]) == ab and len(r[2]) == 3):
                ok = False
                break
            prm = [a[1] if a[0] in ("refv", "obj") and isinstance(a[1], tuple) else a for a in r[2]]
            prm = [a[1] if a[0] in ("refv", "obj") and isinstance(a[1], tuple) else a for a in prm]
            if not all(a[0] == "param" for a in prm) or prm[0][1] != 0:
                ok = False
                break
            idx.add((prm[1][1], prm[2][1]))
        if ok and len(forms) == 1 and len(idx) == 1:
            mv, ar = list(idx)[0]
            out[k] = {"form": list(forms)[0], "mv": mv, "args": ar}
    return out


def structural_eq(P, key, adt, only=None):
    """(ok, detail): does the PartialEq::eq `key` of struct `adt` answer true exactly when every field of the two operands is equal?
    Derived impls pass by construction; a hand-written one is evaluated on its own paths over all 2^n "field i equal" combinations
    (a condition that is not a comparison of the same field of both operands - a packed key, a subset of fields - makes it non-structural)."""
    import itertools
    from . import terms as T
    b = P.fns.get(key)
    if b is None:
        return False, f"no {key}"
    if b.get("derived") and only is None:
        return True, "derived"
    fields = [f["name"] for f in P.adt(adt)["variants"][0]["fields"] if only is None or f["name"] in only]
    a0, a1 = ("obj", ("param", 0, b["locals"][1].get("n", "self"))), ("obj", ("param", 1, b["locals"][2].get("n", "a1")))

    def strip(x):
        while True:
            if x[0] in ("refv", "discr") or (x[0] == "obj" and x not in (a0, a1)):
                x = x[1]
            elif x[0] == "cast":
                x = x[2]
            elif x[0] == "field" and x[1] not in (a0, a1) and isinstance(x[1], tuple) and x[1][0] in ("field", "obj", "refv"):
                x = x[1]            # a part of a field (newtype payload): the comparison is still about that field
            else:
                return x

    def atom(t_):
        xs = None
        if t_[0] == "bin" and t_[1] == "Eq":
            xs = (t_[2], t_[3])
        elif t_[0] == "eq":
            xs = (t_[1], t_[2])
        elif t_[0] == "app" and "PartialEq" in t_[1] and t_[1].endswith("::eq") and len(t_[2]) == 2:
            xs = t_[2]
        if xs is None:
            return None
        # a comparison of two tuples built from the fields is the conjunction of the componentwise comparisons
        tx, ty = xs[0], xs[1]
        while tx[0] in ("refv", "obj") and isinstance(tx[1], tuple):
            tx = tx[1]
        while ty[0] in ("refv", "obj") and isinstance(ty[1], tuple):
            ty = ty[1]
        if tx[0] == "tuple" and ty[0] == "tuple" and len(tx[1]) == len(ty[1]) and tx[1]:
            parts = [atom(("eq", a_, b_)) for a_, b_ in zip(tx[1], ty[1])]
            if any(p_ is None for p_ in parts):
                return None
            return tuple(f_ for p_ in parts for f_ in p_)
        x, y = strip(xs[0]), strip(xs[1])
        for p_, q_ in ((x, y), (y, x)):
            if p_[0] == "field" and q_[0] == "field" and p_[1] == a0 and q_[1] == a1 and p_[2] == q_[2] and p_[2] in fields:
                return (p_[2],)
        return None
    try:
        inner = {k_ for k_ in P.fns if k_.endswith("core::cmp::PartialEq>::eq") and k_ != key}
        lv = T.Engine(P, opaque=inner).tabulate(key)
    except T.NotTabulable as e:
        return False, f"not tabulable: {e}"
    for asg in itertools.product((True, False), repeat=len(fields)):
        val = dict(zip(fields, asg))
        answers = []
        for lf in lv:
            ok = True
            for t_, v in lf.cond:
                neg = False
                while t_[0] == "un" and t_[1] == "Not":
                    t_, neg = t_[2], not neg
                f = atom(t_)
                if f is None:
                    return False, f"a path depends on {T.show(t_)[:100]}, which is not a comparison of one field of both operands"
                if (all(val[x_] for x_ in f) != neg) != bool(v):
                    ok = False
                    break
            if not ok:
                continue
            r = lf.ret
            if T.is_const(r):
                answers.append(bool(r[1]))
            else:
                f = atom(r)
                if f is None:
                    return False, f"returns {T.show(r)[:100]}"
                answers.append(all(val[x_] for x_ in f))
        if not answers or any(a != all(asg) for a in answers):
            return False, f"with fields equal = {val} it answers {answers}"
    return True, "evaluated over all field-equality combinations"


def unaudited_overrides(P, types):
    """Iterator / DoubleEndedIterator / ExactSizeIterator methods that the given iterator types override in the current tree but did not in the
    pinned tree (table pinned_names.json): every audited rule about `next`, `size_hint`, `nth`, ... says nothing about a new `last`, `fold`,
    `count`, `min`, ... that replaces the provided method (which is defined through `next`)."""
    import json, os, re
    tb = os.path.join(os.path.dirname(os.path.dirname(os.path.abspath(__file__))), "pinned_names.json")
    pinned = set(json.load(open(tb)).get("fns", {})) if os.path.exists(tb) else None
    if pinned is None:
        return ["pinned_names.json missing"]
    rx = re.compile(r"^<(" + "|".join(re.escape(t_) for t_ in types) + r") as core::iter::traits::(iterator::Iterator|double_ended::DoubleEndedIterator|exact_size::ExactSizeIterator)>::(\w+)$")
    return sorted(k for k in P.fns if rx.match(k) and k not in pinned)
