"""K2 helpers: structural rules over CFG and call graph."""
from .cfg import cfg_of
from .facts import AnchorError


def call_sites(P, key, name=None, pred=None):
    """[(block, term)] of calls in body `key` whose resolved callee key equals/ends with `name` (or satisfies pred)."""
    out = []
    for bi, t in P.calls(key):
        f = t["f"]
        k = f.get("fn") if f.get("k") == "fnref" else None
        if k is None:
            continue
        if name is not None and not (k == name or k.endswith("::" + name) or k.endswith(">::" + name)):
            continue
        if pred is not None and not pred(k, f):
            continue
        out.append((bi, t))
    return out


def result_blocks(body, variant):
    """Blocks that build `Result::<variant>` / `Option::<variant>` directly into the return place."""
    out = []
    for bi, blk in enumerate(body["blocks"]):
        for s in blk["s"]:
            if s["k"] == "assign" and s["p"]["l"] == 0 and not s["p"]["pj"]:
                r = s["r"]
                if r.get("k") == "agg" and r.get("ak") == "adt" and r.get("vn") == variant:
                    out.append(bi)
    return out


def dominated_by_any(body, target_block, blocks):
    c = cfg_of(body)
    return any(b != target_block and c.dominates(b, target_block) for b in blocks)


def success_edge_dominates(body, call_block, variant_ok, target_block):
    """Does the *success* outcome of the fallible call in `call_block` dominate `target_block`?
    Recognises `match call() { Ok.. }`, `if let Err(e) = call() { return }` and `call()?` (Try::branch) encodings:
    follows the call's destination to the discriminant switch and requires the Err/Break successor not to reach the target."""
    c = cfg_of(body)
    if not c.dominates(call_block, target_block) or call_block == target_block:
        return False
    # find the first switch reachable from the call along single-successor edges
    b = c.succ[call_block][0] if c.succ[call_block] else None
    hops = 0
    while b is not None and hops < 8:
        t = body["blocks"][b]["t"]
        if t["k"] == "switch":
            # the failing successors are those from which the target is unreachable
            reach = {s: target_block in c.reachable_from(s) for s in c.succ[b]}
            return any(not r for r in reach.values()) and any(reach.values()) and c.dominates(b, target_block)
        if len(c.succ[b]) != 1:
            return False
        b = c.succ[b][0]
        hops += 1
    return False


def assigns_to_field(P, key, adt, field):
    """[(block, stmt)] assignments in `key` whose place ends in field `field` of `adt`."""
    out = []
    b = P.body(key)
    for bi, blk in enumerate(b["blocks"]):
        for s in blk["s"]:
            if s["k"] == "assign" and s["p"]["pj"]:
                e = s["p"]["pj"][-1]
                if isinstance(e, dict) and e.get("n") == field and e.get("a") == adt:
                    out.append((bi, s))
    return out


def writers_of_field(P, adt, field, crates=None):
    """Bodies that assign, or take `&mut` of, field `field` of `adt` (who-may-write)."""
    out = {}
    for k, b in P.fns.items():
        if crates and b["crate"] not in crates:
            continue
        for bi, blk in enumerate(b["blocks"]):
            for s in blk["s"]:
                if s["k"] != "assign":
                    continue
                pj = s["p"]["pj"]
                if any(isinstance(e, dict) and e.get("n") == field and e.get("a") == adt for e in pj):
                    out.setdefault(k, []).append(("assign", bi, s.get("sp")))
                r = s["r"]
                if r.get("k") in ("ref", "rawptr") and (r.get("bk") == "mut" or r.get("m", "").startswith("Mut")):
                    if any(isinstance(e, dict) and e.get("n") == field and e.get("a") == adt for e in r["p"]["pj"]):
                        out.setdefault(k, []).append(("mutref", bi, s.get("sp")))
    return out


def constructors_of(P, adt, crates=None):
    """Bodies containing an aggregate that builds `adt` (who-may-construct)."""
    out = {}
    for k, b in list(P.fns.items()) + list(P.const_bodies.items()):
        if crates and b["crate"] not in crates:
            continue
        for bi, blk in enumerate(b["blocks"]):
            for s in blk["s"]:
                r = s.get("r", {})
                if r.get("k") == "agg" and r.get("ak") == "adt" and r.get("adt") == adt:
                    out.setdefault(b.get("owner", k), []).append((bi, r.get("vn"), s.get("sp")))
    return out
