"""K2 infrastructure: control-flow graph of a serialised MIR body, dominators, post-dominators, natural loops,
control dependence, reachability.  Unwind edges are ignored (a panicking path is a C07 obligation, not a route)."""


class CFG:
    def __init__(self, body):
        self.body = body
        n = len(body["blocks"])
        self.n = n
        self.succ = [[] for _ in range(n)]
        for i, b in enumerate(body["blocks"]):
            t = b["t"]
            k = t["k"]
            if b.get("cleanup"):
                continue
            if k == "goto":
                self.succ[i] = [t["t"]]
            elif k == "switch":
                s = [x for _, x in t["tg"]] + [t["o"]]
                self.succ[i] = list(dict.fromkeys(s))
            elif k in ("call",):
                self.succ[i] = [t["t"]] if t["t"] is not None else []
            elif k in ("assert", "drop"):
                self.succ[i] = [t["t"]]
            else:
                self.succ[i] = []
        self.pred = [[] for _ in range(n)]
        for i, ss in enumerate(self.succ):
            for s in ss:
                self.pred[s].append(i)
        self.reach = self._reach(0)
        self.dom = self._dominators()
        self.exits = [i for i in self.reach if body["blocks"][i]["t"]["k"] == "ret"]
        self.pdom = self._postdominators()
        self._loops = None

    def _reach(self, start):
        seen, st = {start}, [start]
        while st:
            x = st.pop()
            for s in self.succ[x]:
                if s not in seen:
                    seen.add(s)
                    st.append(s)
        return seen

    def _dominators(self):
        nodes = sorted(self.reach)
        full = set(nodes)
        dom = {x: set(full) for x in nodes}
        dom[0] = {0}
        changed = True
        while changed:
            changed = False
            for x in nodes:
                if x == 0:
                    continue
                ps = [p for p in self.pred[x] if p in self.reach]
                new = set.intersection(*(dom[p] for p in ps)) if ps else set()
                new = new | {x}
                if new != dom[x]:
                    dom[x] = new
                    changed = True
        return dom

    def _postdominators(self):
        """Post-dominators w.r.t. normal returns (virtual exit = all `ret` blocks). Blocks that cannot reach a return
        (diverging) post-dominate nothing of interest and get the full set."""
        nodes = sorted(self.reach)
        can_exit = set()
        st = list(self.exits)
        can_exit.update(st)
        while st:
            x = st.pop()
            for p in self.pred[x]:
                if p in self.reach and p not in can_exit:
                    can_exit.add(p)
                    st.append(p)
        self.can_exit = can_exit
        full = set(nodes)
        pd = {x: set(full) for x in nodes}
        for e in self.exits:
            pd[e] = {e}
        changed = True
        while changed:
            changed = False
            for x in nodes:
                if x in self.exits:
                    continue
                ss = [s for s in self.succ[x] if s in can_exit]
                new = set.intersection(*(pd[s] for s in ss)) if ss else set(full)
                new = new | {x}
                if new != pd[x]:
                    pd[x] = new
                    changed = True
        return pd

    def dominates(self, a, b):
        return b in self.dom and a in self.dom[b]

    def postdominates(self, a, b):
        return b in self.pdom and a in self.pdom[b]

    def loops(self):
        """{header: set(blocks of the natural loop)} (loops sharing a header are merged)."""
        if self._loops is None:
            loops = {}
            for u in self.reach:
                for h in self.succ[u]:
                    if self.dominates(h, u):
                        body = {h, u}
                        st = [u]
                        while st:
                            x = st.pop()
                            if x == h:
                                continue
                            for p in self.pred[x]:
                                if p in self.reach and p not in body:
                                    body.add(p)
                                    st.append(p)
                        loops.setdefault(h, set()).update(body)
            self._loops = loops
        return self._loops

    def in_loop(self, b):
        return [h for h, body in self.loops().items() if b in body]

    def reachable_from(self, start, avoid=()):
        seen, st = set(), [start]
        avoid = set(avoid)
        while st:
            x = st.pop()
            if x in seen or x in avoid:
                continue
            seen.add(x)
            st.extend(self.succ[x])
        return seen

    def control_deps(self, b):
        """Blocks whose branch decides whether b executes: (branch block, successor taken) pairs, transitively to the entry."""
        out = []
        seen = set()
        work = [b]
        while work:
            x = work.pop()
            for a in self.reach:
                live = [s for s in self.succ[a] if s in self.can_exit]
                if len(live) < 2:
                    continue
                for s in live:
                    # x is control dependent on (a -> s) if x post-dominates s (or x == s) and x does not post-dominate a
                    if (x == s or self.postdominates(x, s)) and not (x != a and self.postdominates(x, a)):
                        if (a, s) not in seen:
                            seen.add((a, s))
                            out.append((a, s))
                            work.append(a)
        return out

    def all_paths_pass(self, start, through, end_blocks):
        """Does every path from `start` to any block in `end_blocks` pass a block in `through`? (must-pass-through)"""
        through = set(through)
        if start in through:
            return True
        seen, st = set(), [start]
        while st:
            x = st.pop()
            if x in seen or x in through:
                continue
            seen.add(x)
            if x in end_blocks and x != start:
                return False
            st.extend(self.succ[x])
        return True


_CACHE = {}


def cfg_of(body):
    k = id(body)
    c = _CACHE.get(k)
    if c is None or c.body is not body:
        c = _CACHE[k] = CFG(body)
    return c


def assigned_places(body, blocks):
    """Places assigned (statements and call destinations) inside the given blocks."""
    out = []
    for i in blocks:
        b = body["blocks"][i]
        for s in b["s"]:
            if s["k"] == "assign":
                out.append(s["p"])
                r = s["r"]
                # a mutable borrow taken inside the loop may be written through (by a callee or a deref store)
                if (r.get("k") == "ref" and r.get("bk") == "mut") or (r.get("k") == "rawptr" and str(r.get("m", "")).startswith("Mut")):
                    out.append(r["p"])
        t = b["t"]
        if t["k"] == "call":
            out.append(t["d"])
    return out
